// seqx: explicit-state BFS over operation histories and bounded-exhaustive
// input enumeration on the real code (one OS thread per worker process, ASan).
// Header-only.  See /verif/DESIGN.md section 3.
#ifndef VERIF_SEQX_H
#define VERIF_SEQX_H

#include <algorithm>
#include <atomic>
#include <cstdarg>
#include <cstdint>
#include <cstdio>
#include <cstdlib>
#include <cstring>
#include <functional>
#include <string>
#include <vector>

#include <fcntl.h>
#include <signal.h>
#include <sys/mman.h>
#include <sys/stat.h>
#include <sys/wait.h>
#include <time.h>
#include <unistd.h>

namespace sx {

struct Fail {
  std::string key, msg;
};

[[noreturn]] inline void fail(const std::string& key, const char* fmt, ...) {
  char buf[1200];
  va_list ap;
  va_start(ap, fmt);
  vsnprintf(buf, sizeof buf, fmt, ap);
  va_end(ap);
  throw Fail{key, buf};
}

inline uint64_t mix(uint64_t a, uint64_t b) {
  uint64_t x = a ^ (b + 0x9e3779b97f4a7c15ULL + (a << 6) + (a >> 2));
  x ^= x >> 30;
  x *= 0xbf58476d1ce4e5b9ULL;
  x ^= x >> 27;
  x *= 0x94d049bb133111ebULL;
  x ^= x >> 31;
  return x;
}
inline uint64_t hash_str(const std::string& s) {
  uint64_t h = 0x1234567;
  for (unsigned char c : s)
    h = mix(h, c);
  return h;
}

// per-run scratch the case body can set
struct RunInfo {
  bool nontrivial = false;
  uint64_t outcome = 0;
};
inline RunInfo& info() {
  static RunInfo r;
  return r;
}
inline void mark_nontrivial() { info().nontrivial = true; }
inline void outcome(uint64_t v) { info().outcome = mix(info().outcome, v); }

// ---- case descriptions ------------------------------------------------------
struct BfsCase {
  std::string name;
  int nops = 0;
  std::function<std::string(int)> opname;
  // replay `hist` on a fresh implementation object and a fresh reference
  // model, checking after every step (throw via sx::fail); return the
  // canonical key of the final state.
  std::function<std::string(const std::vector<int>&)> run;
  int quick_depth = 4, thorough_depth = 6;
  int weight = 1;
};

struct EnumCase {
  std::string name;
  std::function<uint64_t(bool thorough)> count;
  std::function<void(uint64_t idx, bool thorough)> run; // throws Fail
  std::function<std::string(uint64_t idx, bool thorough)> describe;
  int weight = 1;
  bool quick = true, thorough = true;
};

// ---- shared structures -------------------------------------------------------
struct Node {
  uint32_t parent;
  uint16_t op;
  uint16_t depth;
};
struct Rec { // result of expanding (node, op)
  uint32_t node;
  uint16_t op;
  uint8_t status; // 0 ok, 1 fail
  uint8_t nontrivial;
  uint64_t key;
  uint64_t outcome;
};
struct FailRec {
  std::atomic<int> used;
  uint32_t node;
  uint16_t op;
  uint64_t idx;
  char key[160];
  char msg[1200];
};
struct WorkerSlot {
  volatile uint64_t cur_idx;  // enum: index being run; bfs: node
  volatile uint32_t cur_op;
  volatile uint64_t done;     // runs completed
  volatile uint64_t nontrivial;
  volatile int running;
};
#define SX_MAXW 32
#define SX_MAXFAIL 64
struct Shared {
  std::atomic<uint64_t> next;   // work counter
  std::atomic<uint64_t> nrec;   // records written
  std::atomic<int> nfail;
  FailRec fails[SX_MAXFAIL];
  WorkerSlot w[SX_MAXW];
  std::atomic<uint64_t> out_count;
};

struct Violation {
  std::string key, msg, replay;
  std::vector<int> hist;
  uint64_t idx = 0;
  bool is_hist = false;
};

struct CaseResult {
  std::string name, kind;
  bool exhaustive = false;
  uint64_t executions = 0, states = 0, transitions = 0;
  uint64_t distinct_nontrivial = 0, distinct_outcomes = 0;
  int depth_requested = 0, depth_completed = -1;
  uint64_t space = 0;
  bool deadline_hit = false;
  double wall = 0;
  std::vector<Violation> viol;
  std::vector<std::string> samples;
  std::string alphabet;
};

struct Options {
  std::string tier = "quick";
  std::string out, replay, case_re, replaydir = "/verif/replays";
  int jobs = 16;
  double deadline = 1e9;
  int depth_override = -1;
  bool verbose = false;
};

inline double now() {
  struct timespec ts;
  clock_gettime(CLOCK_MONOTONIC, &ts);
  return ts.tv_sec + ts.tv_nsec * 1e-9;
}

template <class T>
inline T* shmap(size_t n) {
  void* p = mmap(nullptr, n * sizeof(T), PROT_READ | PROT_WRITE,
                 MAP_SHARED | MAP_ANONYMOUS | MAP_NORESERVE, -1, 0);
  if (p == MAP_FAILED) {
    perror("mmap");
    exit(2);
  }
  return (T*)p;
}

inline bool set_add(std::atomic<uint64_t>* tab, uint64_t slots, uint64_t v,
                    bool lossy = false) {
  if (v == 0)
    v = 1;
  uint64_t h = v * 0x9e3779b97f4a7c15ULL;
  for (uint64_t i = 0;; ++i) {
    // lossy = statistics only (distinct outcomes): when the table is nearly
    // full stop counting instead of spinning.  The state set is never lossy.
    if (lossy && i > 4096)
      return false;
    std::atomic<uint64_t>& c = tab[(h + i) & (slots - 1)];
    uint64_t cur             = c.load(std::memory_order_relaxed);
    if (cur == v)
      return false;
    if (cur == 0) {
      uint64_t exp = 0;
      if (c.compare_exchange_strong(exp, v))
        return true;
      if (exp == v)
        return false;
    }
  }
}

inline std::string json_escape(const std::string& in) {
  std::string o;
  for (unsigned char c : in) {
    if (c == '"' || c == '\\') {
      o += '\\';
      o += c;
    } else if (c < 0x20) {
      char b[8];
      snprintf(b, sizeof b, "\\u%04x", c);
      o += b;
    } else
      o += c;
  }
  return o;
}

inline std::string hist_str(const BfsCase& c, const std::vector<int>& h) {
  std::string s;
  for (size_t i = 0; i < h.size(); ++i)
    s += (i ? "; " : "") + c.opname(h[i]);
  return s;
}

inline std::string asan_summary(const std::string& path) {
  FILE* f = fopen(path.c_str(), "r");
  if (!f)
    return "";
  char line[600];
  std::string first;
  while (fgets(line, sizeof line, f)) {
    if (strstr(line, "ERROR: AddressSanitizer") || strstr(line, "SUMMARY:") ||
        strstr(line, "terminate called") || strstr(line, "what():") ||
        strstr(line, "Assertion")) {
      first += line;
      if (first.size() > 600)
        break;
    }
  }
  fclose(f);
  for (auto& ch : first)
    if (ch == '\n')
      ch = ' ';
  return first;
}

class Driver {
public:
  Options opt;
  const char* property;
  std::vector<CaseResult> results;
  Shared* sh;
  Rec* recs;
  size_t rec_cap = 1u << 26;
  Node* nodes;
  size_t node_cap = 1u << 26;
  std::atomic<uint64_t>* seen;
  uint64_t seen_slots = 1ull << 27;
  std::atomic<uint64_t>* outs;
  uint64_t out_slots = 1ull << 22;
  std::string tmpdir = "/verif/build/tmp";

  void init() {
    driver_pid = getpid();
    sh    = shmap<Shared>(1);
    recs  = shmap<Rec>(rec_cap);
    nodes = shmap<Node>(node_cap);
    seen  = shmap<std::atomic<uint64_t>>(seen_slots);
    outs  = shmap<std::atomic<uint64_t>>(out_slots);
    mkdir("/verif/build", 0755);
    mkdir(tmpdir.c_str(), 0755);
    mkdir(opt.replaydir.c_str(), 0755);
  }

  void clear_tables() {
    madvise(seen, seen_slots * 8, MADV_REMOVE);
    madvise(outs, out_slots * 8, MADV_REMOVE);
    madvise(recs, rec_cap * sizeof(Rec), MADV_REMOVE);
  }

  std::vector<int> history(uint32_t node) {
    std::vector<int> h;
    while (node != 0) {
      h.push_back(nodes[node].op);
      node = nodes[node].parent;
    }
    std::reverse(h.begin(), h.end());
    return h;
  }

  pid_t driver_pid = 0;
  std::string worker_log(int w) {
    // named after the DRIVER's pid so parent and worker agree on the file
    return tmpdir + "/sx-" + std::to_string(driver_pid ? driver_pid : getpid()) +
           "-w" + std::to_string(w) + ".log";
  }

  void add_fail(uint32_t node, int op, uint64_t idx, const Fail& f) {
    int i = sh->nfail.fetch_add(1);
    if (i >= SX_MAXFAIL)
      return;
    FailRec& r = sh->fails[i];
    r.node     = node;
    r.op       = (uint16_t)op;
    r.idx      = idx;
    snprintf(r.key, sizeof r.key, "%s", f.key.c_str());
    snprintf(r.msg, sizeof r.msg, "%s", f.msg.c_str());
    r.used.store(1);
  }

  // ---- BFS -------------------------------------------------------------
  void bfs_worker(const BfsCase& c, int w, uint32_t lo, uint32_t hi) {
    WorkerSlot& ws = sh->w[w];
    for (;;) {
      uint64_t i = sh->next.fetch_add(1);
      uint64_t n = lo + i;
      if (n >= hi)
        break;
      std::vector<int> h = history((uint32_t)n);
      for (int op = 0; op < c.nops; ++op) {
        ws.cur_idx = n;
        ws.cur_op  = op;
        h.push_back(op);
        info() = RunInfo();
        Rec r;
        memset(&r, 0, sizeof r);
        r.node = (uint32_t)n;
        r.op   = (uint16_t)op;
        try {
          std::string key = c.run(h);
          r.key           = hash_str(key);
          r.status        = key.empty() ? 2 : 0; // "" = op not enabled here
        } catch (const Fail& f) {
          r.status = 1;
          add_fail((uint32_t)n, op, 0, f);
        }
        r.nontrivial = info().nontrivial;
        r.outcome    = info().outcome;
        uint64_t k   = sh->nrec.fetch_add(1);
        if (k < rec_cap)
          recs[k] = r;
        h.pop_back();
        ws.done = ws.done + 1;
      }
    }
  }

  void run_bfs(const BfsCase& c, double budget) {
    CaseResult R;
    R.name = c.name;
    R.kind = "history-bfs";
    double t0 = now();
    int depth = opt.tier == "thorough" ? c.thorough_depth : c.quick_depth;
    if (opt.depth_override >= 0)
      depth = opt.depth_override;
    R.depth_requested = depth;
    for (int i = 0; i < c.nops; ++i)
      R.alphabet += (i ? " | " : "") + c.opname(i);
    clear_tables();
    sh->nfail.store(0);
    for (int i = 0; i < SX_MAXFAIL; ++i)
      sh->fails[i].used.store(0);
    nodes[0]      = Node{0, 0, 0};
    uint32_t nn   = 1; // node count
    uint32_t lo   = 0; // current level [lo,hi)
    uint32_t hi   = 1;
    // root state
    try {
      info()          = RunInfo();
      std::string key = c.run({});
      set_add(seen, seen_slots, hash_str(key));
      R.states = 1;
    } catch (const Fail& f) {
      Violation v;
      v.key = f.key;
      v.msg = f.msg;
      v.is_hist = true;
      R.viol.push_back(v);
    }
    bool aborted = false;
    for (int d = 0; d < depth && lo < hi; ++d) {
      sh->next.store(0);
      sh->nrec.store(0);
      int nw = std::min<uint64_t>(opt.jobs, hi - lo);
      pid_t pids[SX_MAXW];
      uint32_t crashed_nodes = 0;
      // (re)start workers until the level is done; a crash marks its (node,op)
      std::vector<std::pair<uint32_t, int>> crashes;
      for (int w = 0; w < nw; ++w)
        pids[w] = spawn_bfs(c, w, lo, hi);
      int live = nw;
      while (live > 0) {
        int status;
        pid_t p = waitpid(-1, &status, WNOHANG);
        if (p == 0) {
          // nobody finished: enforce the budget here too (a hung or very
          // slow level must not hang the run)
          if (now() - t0 > budget) {
            for (int w = 0; w < nw; ++w)
              if (pids[w] > 0)
                kill(pids[w], SIGKILL);
            while (waitpid(-1, &status, 0) > 0) {
            }
            R.deadline_hit = true;
            aborted        = true;
            break;
          }
          usleep(2000);
          continue;
        }
        if (p < 0)
          break;
        for (int w = 0; w < nw; ++w) {
          if (pids[w] != p)
            continue;
          bool ok = WIFEXITED(status) && WEXITSTATUS(status) == 0;
          if (!ok) {
            WorkerSlot& ws = sh->w[w];
            Fail f{c.name + ":crash",
                   "process died (status " + std::to_string(status) +
                       ") " + asan_summary(worker_log(w))};
            add_fail((uint32_t)ws.cur_idx, (int)ws.cur_op, 0, f);
            crashed_nodes++;
            // the rest of this node's ops are skipped; continue other nodes
            pids[w] = spawn_bfs(c, w, lo, hi);
          } else {
            pids[w] = 0;
            live--;
          }
        }
        if (now() - t0 > budget) {
          // let workers finish the level? no: stop them
          for (int w = 0; w < nw; ++w)
            if (pids[w] > 0)
              kill(pids[w], SIGKILL);
          while (waitpid(-1, &status, 0) > 0) {
          }
          R.deadline_hit = true;
          aborted        = true;
          break;
        }
      }
      uint64_t nr = std::min<uint64_t>(sh->nrec.load(), rec_cap);
      R.executions += nr;
      R.transitions += nr;
      if (aborted) {
        collect_fails(c, R); // also clears the table for the next case
        break;
      }
      // deterministic order
      std::sort(recs, recs + nr, [](const Rec& a, const Rec& b) {
        return a.node != b.node ? a.node < b.node : a.op < b.op;
      });
      uint32_t newlo = nn;
      for (uint64_t i = 0; i < nr; ++i) {
        const Rec& r = recs[i];
        if (r.status != 0)
          continue;
        if (set_add(outs, out_slots, r.outcome ^ 0x77, true))
          R.distinct_outcomes++;
        if (!set_add(seen, seen_slots, r.key))
          continue;
        R.states++;
        if (r.nontrivial)
          R.distinct_nontrivial++;
        if (nn < node_cap) {
          nodes[nn] = Node{r.node, r.op, (uint16_t)(d + 1)};
          if (R.samples.size() < 4 && (nn % 37 == 5 || d + 1 == depth))
            R.samples.push_back(hist_str(c, history(nn)));
          nn++;
        }
      }
      collect_fails(c, R);
      lo = newlo;
      hi = nn;
      R.depth_completed = d + 1;
    }
    if (depth == 0)
      R.depth_completed = 0;
    R.exhaustive = !aborted && R.depth_completed >= depth;
    if (lo >= hi && !aborted) { // state space closed before the depth bound
      R.exhaustive      = true;
      R.depth_completed = depth;
    }
    R.wall = now() - t0;
    results.push_back(R);
  }

  pid_t spawn_bfs(const BfsCase& c, int w, uint32_t lo, uint32_t hi) {
    fflush(stdout);
    pid_t p = fork();
    if (p == 0) {
      redirect(w);
      bfs_worker(c, w, lo, hi);
      _exit(0);
    }
    return p;
  }

  void redirect(int w) {
    if (opt.verbose)
      return;
    int fd = open(worker_log(w).c_str(), O_WRONLY | O_CREAT | O_TRUNC, 0644);
    if (fd >= 0) {
      dup2(fd, 2);
      dup2(fd, 1);
      close(fd);
    }
  }

  void collect_fails(const BfsCase& c, CaseResult& R) {
    int nf = std::min(sh->nfail.load(), (int)SX_MAXFAIL);
    for (int i = 0; i < nf; ++i) {
      FailRec& f = sh->fails[i];
      if (!f.used.load())
        continue;
      bool dup = false;
      for (auto& v : R.viol)
        if (v.key == f.key)
          dup = true;
      if (dup)
        continue;
      Violation v;
      v.key     = f.key;
      v.msg     = f.msg;
      v.is_hist = true;
      v.hist    = history(f.node);
      v.hist.push_back(f.op);
      v.msg += " | history: " + hist_str(c, v.hist);
      R.viol.push_back(v);
    }
    sh->nfail.store(0);
    for (int i = 0; i < SX_MAXFAIL; ++i)
      sh->fails[i].used.store(0);
  }

  // ---- enumeration -------------------------------------------------------
  void enum_worker(const EnumCase& c, int w, uint64_t total, bool thorough) {
    WorkerSlot& ws = sh->w[w];
    const uint64_t CH = 64;
    for (;;) {
      uint64_t b = sh->next.fetch_add(CH);
      if (b >= total)
        break;
      for (uint64_t i = b; i < b + CH && i < total; ++i) {
        ws.cur_idx = i;
        info()     = RunInfo();
        try {
          c.run(i, thorough);
        } catch (const Fail& f) {
          add_fail(0, 0, i, f);
        }
        if (info().nontrivial)
          ws.nontrivial = ws.nontrivial + 1;
        if (set_add(outs, out_slots, info().outcome ^ 0x77, true))
          sh->out_count.fetch_add(1);
        ws.done = ws.done + 1;
      }
    }
  }

  void run_enum(const EnumCase& c, double budget) {
    CaseResult R;
    R.name        = c.name;
    R.kind        = "input-enumeration";
    bool thorough = opt.tier == "thorough";
    double t0     = now();
    uint64_t total = c.count(thorough);
    R.space       = total;
    clear_tables();
    sh->next.store(0);
    sh->nfail.store(0);
    sh->out_count.store(0);
    for (int i = 0; i < SX_MAXFAIL; ++i)
      sh->fails[i].used.store(0);
    int nw = (int)std::min<uint64_t>(opt.jobs, std::max<uint64_t>(1, total / 64));
    for (int w = 0; w < SX_MAXW; ++w) {
      sh->w[w].done       = 0;
      sh->w[w].nontrivial = 0;
    }
    pid_t pids[SX_MAXW];
    auto spawn = [&](int w) {
      fflush(stdout);
      pid_t p = fork();
      if (p == 0) {
        redirect(w);
        enum_worker(c, w, total, thorough);
        _exit(0);
      }
      return p;
    };
    for (int w = 0; w < nw; ++w)
      pids[w] = spawn(w);
    int live = nw;
    bool aborted = false;
    int crashes  = 0;
    while (live > 0) {
      int status;
      pid_t p = waitpid(-1, &status, WNOHANG);
      if (p == 0) {
        if (now() - t0 > budget) {
          for (int w = 0; w < nw; ++w)
            if (pids[w] > 0)
              kill(pids[w], SIGKILL);
          while (waitpid(-1, &status, 0) > 0) {
          }
          R.deadline_hit = true;
          aborted        = true;
          break;
        }
        usleep(2000);
        continue;
      }
      if (p < 0)
        break;
      for (int w = 0; w < nw; ++w) {
        if (pids[w] != p)
          continue;
        bool ok = WIFEXITED(status) && WEXITSTATUS(status) == 0;
        if (!ok) {
          WorkerSlot& ws = sh->w[w];
          Fail f{c.name + ":crash", "process died (status " +
                                        std::to_string(status) + ") " +
                                        asan_summary(worker_log(w))};
          add_fail(0, 0, ws.cur_idx, f);
          // the remainder of that worker's 64-chunk is lost: re-run it singly
          // is not needed for a verdict (we already have a violation)
          if (++crashes < 50)
            pids[w] = spawn(w);
          else {
            pids[w] = 0;
            live--;
          }
        } else {
          pids[w] = 0;
          live--;
        }
      }
    }
    for (int w = 0; w < nw; ++w) {
      R.executions += sh->w[w].done;
      R.distinct_nontrivial += sh->w[w].nontrivial;
    }
    R.states            = R.executions;
    R.transitions       = R.executions;
    R.distinct_outcomes = sh->out_count.load();
    R.exhaustive        = !aborted && R.executions >= total && crashes == 0;
    int nf = std::min(sh->nfail.load(), (int)SX_MAXFAIL);
    for (int i = 0; i < nf; ++i) {
      FailRec& f = sh->fails[i];
      if (!f.used.load())
        continue;
      bool dup = false;
      for (auto& v : R.viol)
        if (v.key == f.key)
          dup = true;
      if (dup)
        continue;
      Violation v;
      v.key = f.key;
      v.msg = std::string(f.msg) + " | input #" + std::to_string(f.idx) +
              ": " + c.describe(f.idx, thorough);
      v.idx = f.idx;
      R.viol.push_back(v);
    }
    for (uint64_t i : {uint64_t(0), total / 3, total - 1})
      if (i < total)
        R.samples.push_back("#" + std::to_string(i) + ": " +
                            c.describe(i, thorough));
    R.wall = now() - t0;
    results.push_back(R);
  }

  // ---- output --------------------------------------------------------------
  void write_replays() {
    int k = 0;
    for (auto& R : results)
      for (auto& v : R.viol) {
        char path[400];
        snprintf(path, sizeof path, "%s/%s-sx-%016llx-%d.json",
                 opt.replaydir.c_str(), property,
                 (unsigned long long)hash_str(R.name + v.key), k++);
        FILE* f = fopen(path, "w");
        if (!f)
          continue;
        fprintf(f, "{\"property\":\"%s\",\"engine\":\"seqx\",\"case\":\"%s\","
                   "\"tier\":\"%s\",\"key\":\"%s\",\"msg\":\"%s\",",
                property, json_escape(R.name).c_str(), opt.tier.c_str(),
                json_escape(v.key).c_str(), json_escape(v.msg).c_str());
        if (v.is_hist) {
          fprintf(f, "\"history\":[");
          for (size_t i = 0; i < v.hist.size(); ++i)
            fprintf(f, "%s%d", i ? "," : "", v.hist[i]);
          fprintf(f, "]}\n");
        } else
          fprintf(f, "\"index\":%llu}\n", (unsigned long long)v.idx);
        fclose(f);
        v.replay = path;
      }
  }

  void emit(double wall) {
    if (opt.out.empty())
      return;
    FILE* f = fopen(opt.out.c_str(), "w");
    if (!f)
      return;
    fprintf(f, "{\"property\":\"%s\",\"tier\":\"%s\",\"wall_s\":%.2f,"
               "\"cases\":[\n",
            property, opt.tier.c_str(), wall);
    for (size_t i = 0; i < results.size(); ++i) {
      CaseResult& R = results[i];
      fprintf(f,
              " {\"name\":\"%s\",\"kind\":\"%s\",\"exhaustive\":%s,"
              "\"executions\":%llu,\"states\":%llu,\"transitions\":%llu,"
              "\"distinct_nontrivial\":%llu,\"distinct_outcomes\":%llu,"
              "\"depth_requested\":%d,\"depth_completed\":%d,\"space\":%llu,"
              "\"deadline_hit\":%s,\"wall_s\":%.2f,\"alphabet\":\"%s\","
              "\"violations\":[",
              json_escape(R.name).c_str(), R.kind.c_str(),
              R.exhaustive ? "true" : "false",
              (unsigned long long)R.executions, (unsigned long long)R.states,
              (unsigned long long)R.transitions,
              (unsigned long long)R.distinct_nontrivial,
              (unsigned long long)R.distinct_outcomes, R.depth_requested,
              R.depth_completed, (unsigned long long)R.space,
              R.deadline_hit ? "true" : "false", R.wall,
              json_escape(R.alphabet).c_str());
      for (size_t j = 0; j < R.viol.size(); ++j) {
        Violation& v = R.viol[j];
        fprintf(f, "%s{\"key\":\"%s\",\"msg\":\"%s\",\"confirmed\":true,"
                   "\"replay\":\"%s\"}",
                j ? "," : "", json_escape(v.key).c_str(),
                json_escape(v.msg).c_str(), v.replay.c_str());
      }
      fprintf(f, "],\"samples\":[");
      for (size_t j = 0; j < R.samples.size(); ++j)
        fprintf(f, "%s{\"case\":\"%s\"}", j ? "," : "",
                json_escape(R.samples[j]).c_str());
      fprintf(f, "]}%s\n", i + 1 < results.size() ? "," : "");
    }
    fprintf(f, "]}\n");
    fclose(f);
  }
};

inline bool name_matches(const std::string& re, const std::string& name) {
  if (re.empty())
    return true;
  return name.find(re) != std::string::npos;
}

inline int sx_main(int argc, char** argv, const char* property,
                   std::vector<BfsCase> bfs, std::vector<EnumCase> en) {
  Driver D;
  D.property = property;
  for (int i = 1; i < argc; ++i) {
    std::string a = argv[i];
    auto next     = [&]() -> std::string {
      if (i + 1 >= argc) {
        fprintf(stderr, "missing value for %s\n", a.c_str());
        exit(2);
      }
      return argv[++i];
    };
    if (a == "--tier")
      D.opt.tier = next();
    else if (a == "--out")
      D.opt.out = next();
    else if (a == "--deadline")
      D.opt.deadline = atof(next().c_str());
    else if (a == "--jobs")
      D.opt.jobs = atoi(next().c_str());
    else if (a == "--case")
      D.opt.case_re = next();
    else if (a == "--depth")
      D.opt.depth_override = atoi(next().c_str());
    else if (a == "--replay")
      D.opt.replay = next();
    else if (a == "--replaydir")
      D.opt.replaydir = next();
    else if (a == "--verbose")
      D.opt.verbose = true;
    else if (a == "--list") {
      for (auto& c : bfs)
        printf("bfs  %s (%d ops, depth %d/%d)\n", c.name.c_str(), c.nops,
               c.quick_depth, c.thorough_depth);
      for (auto& c : en)
        printf("enum %s (%llu/%llu inputs)\n", c.name.c_str(),
               (unsigned long long)c.count(false),
               (unsigned long long)c.count(true));
      return 0;
    } else {
      fprintf(stderr, "unknown option %s\n", a.c_str());
      return 2;
    }
  }
  if (D.opt.jobs > SX_MAXW)
    D.opt.jobs = SX_MAXW;
  setvbuf(stdout, nullptr, _IOLBF, 0);
  // ---- replay ------------------------------------------------------------
  if (!D.opt.replay.empty()) {
    FILE* f = fopen(D.opt.replay.c_str(), "r");
    if (!f) {
      perror("replay");
      return 2;
    }
    static char text[1 << 16];
    size_t n = fread(text, 1, sizeof text - 1, f);
    text[n]  = 0;
    fclose(f);
    auto field = [&](const char* name) -> std::string {
      std::string pat = std::string("\"") + name + "\":\"";
      const char* p   = strstr(text, pat.c_str());
      if (!p)
        return "";
      p += pat.size();
      std::string o;
      while (*p && *p != '"') {
        if (*p == '\\' && p[1])
          ++p;
        o += *p++;
      }
      return o;
    };
    std::string cname = field("case");
    std::string tier  = field("tier");
    bool thorough     = tier == "thorough";
    try {
      const char* hp = strstr(text, "\"history\":[");
      if (hp) {
        std::vector<int> h;
        hp += strlen("\"history\":[");
        while (*hp && *hp != ']') {
          h.push_back((int)strtol(hp, (char**)&hp, 10));
          if (*hp == ',')
            ++hp;
        }
        for (auto& c : bfs)
          if (c.name == cname) {
            printf("REPLAY %s: %s\n", cname.c_str(), hist_str(c, h).c_str());
            std::string key = c.run(h);
            printf("  pass; final state: %s\n", key.c_str());
            return 0;
          }
      } else {
        const char* ip = strstr(text, "\"index\":");
        uint64_t idx   = ip ? strtoull(ip + 8, nullptr, 10) : 0;
        for (auto& c : en)
          if (c.name == cname) {
            printf("REPLAY %s: #%llu %s\n", cname.c_str(),
                   (unsigned long long)idx, c.describe(idx, thorough).c_str());
            c.run(idx, thorough);
            printf("  pass\n");
            return 0;
          }
      }
    } catch (const Fail& f) {
      printf("  VIOLATION key=%s\n  %s\n", f.key.c_str(), f.msg.c_str());
      return 1;
    }
    fprintf(stderr, "case '%s' not found\n", cname.c_str());
    return 2;
  }
  // ---- exploration ---------------------------------------------------------
  D.init();
  printf("# seqx property=%s tier=%s jobs=%d\n", property, D.opt.tier.c_str(),
         D.opt.jobs);
  bool thorough = D.opt.tier == "thorough";
  double wsum   = 0;
  for (auto& c : bfs)
    if (name_matches(D.opt.case_re, c.name))
      wsum += c.weight;
  for (auto& c : en)
    if (name_matches(D.opt.case_re, c.name) &&
        (thorough ? c.thorough : c.quick))
      wsum += c.weight;
  double t0 = now(), wleft = wsum;
  auto budget = [&](int w) {
    double left = D.opt.deadline - (now() - t0);
    double b    = left > 0 ? left * w / wleft : 0.5;
    wleft -= w;
    return b;
  };
  for (auto& c : bfs) {
    if (!name_matches(D.opt.case_re, c.name))
      continue;
    D.run_bfs(c, budget(c.weight));
    CaseResult& R = D.results.back();
    printf("CASE %s bfs depth=%d/%d exhaustive=%d states=%llu trans=%llu "
           "nontrivial=%llu viol=%zu %.1fs\n",
           R.name.c_str(), R.depth_completed, R.depth_requested, R.exhaustive,
           (unsigned long long)R.states, (unsigned long long)R.transitions,
           (unsigned long long)R.distinct_nontrivial, R.viol.size(), R.wall);
  }
  for (auto& c : en) {
    if (!name_matches(D.opt.case_re, c.name) ||
        !(thorough ? c.thorough : c.quick))
      continue;
    D.run_enum(c, budget(c.weight));
    CaseResult& R = D.results.back();
    printf("CASE %s enum inputs=%llu/%llu exhaustive=%d nontrivial=%llu "
           "outcomes=%llu viol=%zu %.1fs\n",
           R.name.c_str(), (unsigned long long)R.executions,
           (unsigned long long)R.space, R.exhaustive,
           (unsigned long long)R.distinct_nontrivial,
           (unsigned long long)R.distinct_outcomes, R.viol.size(), R.wall);
  }
  // second pass: a case cut by its share of the deadline gets what the other
  // cases left unused (the share is fixed when the case starts)
  for (int pass = 0; pass < 2; ++pass) {
    struct Again {
      int kind; // 0 bfs, 1 enum
      const void* c;
      size_t idx;
      int weight;
    };
    std::vector<Again> again;
    size_t ri = 0;
    double w2 = 0;
    for (auto& c : bfs) {
      if (!name_matches(D.opt.case_re, c.name))
        continue;
      if (D.results[ri].deadline_hit && D.results[ri].viol.empty()) {
        again.push_back({0, &c, ri, c.weight});
        w2 += c.weight;
      }
      ++ri;
    }
    for (auto& c : en) {
      if (!name_matches(D.opt.case_re, c.name) ||
          !(thorough ? c.thorough : c.quick))
        continue;
      if (D.results[ri].deadline_hit && D.results[ri].viol.empty()) {
        again.push_back({1, &c, ri, c.weight});
        w2 += c.weight;
      }
      ++ri;
    }
    for (auto& a : again) {
      double left = D.opt.deadline - (now() - t0);
      double b    = left > 0 ? left * a.weight / w2 : 0;
      w2 -= a.weight;
      if (b < 2 * D.results[a.idx].wall + 2) // would not get further
        continue;
      if (a.kind == 0)
        D.run_bfs(*(const BfsCase*)a.c, b);
      else
        D.run_enum(*(const EnumCase*)a.c, b);
      {
        // keep whichever run got further
        CaseResult& nw = D.results.back();
        CaseResult& od = D.results[a.idx];
        if (nw.exhaustive || !nw.viol.empty() ||
            nw.depth_completed > od.depth_completed ||
            nw.executions > od.executions)
          D.results[a.idx] = nw;
      }
      D.results.pop_back();
      CaseResult& R = D.results[a.idx];
      if (a.kind == 0)
        printf("CASE %s bfs depth=%d/%d exhaustive=%d states=%llu trans=%llu "
               "nontrivial=%llu viol=%zu %.1fs\n",
               R.name.c_str(), R.depth_completed, R.depth_requested,
               R.exhaustive, (unsigned long long)R.states,
               (unsigned long long)R.transitions,
               (unsigned long long)R.distinct_nontrivial, R.viol.size(),
               R.wall);
      else
        printf("CASE %s enum inputs=%llu/%llu exhaustive=%d nontrivial=%llu "
               "outcomes=%llu viol=%zu %.1fs\n",
               R.name.c_str(), (unsigned long long)R.executions,
               (unsigned long long)R.space, R.exhaustive,
               (unsigned long long)R.distinct_nontrivial,
               (unsigned long long)R.distinct_outcomes, R.viol.size(), R.wall);
      printf("#   (re-run with the unused part of the deadline)\n");
    }
  }
  D.write_replays();
  int nv = 0;
  for (auto& R : D.results)
    for (auto& v : R.viol) {
      printf("FOUND case=%s key=%s replay=%s\n      %s\n", R.name.c_str(),
             v.key.c_str(), v.replay.c_str(), v.msg.c_str());
      nv++;
    }
  D.emit(now() - t0);
  printf("# done: %zu cases, %d findings, %.1fs\n", D.results.size(), nv,
         now() - t0);
  return nv ? 1 : 0;
}

} // namespace sx
#endif

"""Independent reference answers for check C20 (Lonestar applications).

Nothing here shares code with Galois.  networkx / scipy / numpy do the graph
algorithms where a library routine exists (BFS, Dijkstra, Hopcroft-Karp,
max-flow, MILP); union-find / Kruskal / k-core peeling / triangle counting /
power iteration are a few lines each and written out here.

A graph is a c20_graphs.G: n nodes, edges = sorted list of (u, v, w).
"""
import itertools

import networkx as nx
import numpy as np

INF = float("inf")


# --------------------------------------------------------------------------
# distances
# --------------------------------------------------------------------------
def bfs_levels(g, src):
    D = nx.DiGraph()
    D.add_nodes_from(range(g.n))
    D.add_edges_from((u, v) for (u, v, _w) in g.edges)
    d = nx.single_source_shortest_path_length(D, src)
    return [d.get(v, INF) for v in range(g.n)]


def sssp_dist(g, src):
    D = nx.DiGraph()
    D.add_nodes_from(range(g.n))
    for (u, v, w) in g.edges:  # parallel edges: the lightest counts
        if D.has_edge(u, v):
            if w < D[u][v]["weight"]:
                D[u][v]["weight"] = w
        else:
            D.add_edge(u, v, weight=w)
    d = nx.single_source_dijkstra_path_length(D, src)
    return [d.get(v, INF) for v in range(g.n)]


def dist_summary(dist):
    fin = [d for d in dist if d != INF]
    return dict(visited=len(fin), max=max(fin) if fin else 0, sum=sum(fin))


# --------------------------------------------------------------------------
# union-find, components, Kruskal
# --------------------------------------------------------------------------
class UF(object):
    def __init__(self, n):
        self.p = list(range(n))

    def find(self, x):
        while self.p[x] != x:
            self.p[x] = self.p[self.p[x]]
            x = self.p[x]
        return x

    def union(self, a, b):
        a, b = self.find(a), self.find(b)
        if a == b:
            return False
        self.p[b] = a
        return True


def components(g):
    """weakly connected components -> dict(total, nontrivial, largest,
    sizes sorted descending)."""
    uf = UF(g.n)
    for (u, v, _w) in g.edges:
        uf.union(u, v)
    size = {}
    for v in range(g.n):
        r = uf.find(v)
        size[r] = size.get(r, 0) + 1
    sizes = sorted(size.values(), reverse=True)
    return dict(total=len(sizes), nontrivial=sum(1 for s in sizes if s >= 2),
                largest=sizes[0] if sizes else 0, sizes=sizes)


def kruskal(g):
    """minimum spanning FOREST of the undirected multigraph underlying g."""
    uf = UF(g.n)
    wsum, cnt = 0, 0
    for (w, u, v) in sorted((w, u, v) for (u, v, w) in g.edges if u != v):
        if uf.union(u, v):
            wsum += w
            cnt += 1
    return dict(weight=wsum, edges=cnt, trees=g.n - cnt)


# --------------------------------------------------------------------------
# triangles, k-core (simple undirected graphs stored symmetrically)
# --------------------------------------------------------------------------
def _nbrs(g):
    nb = [set() for _ in range(g.n)]
    for (u, v, _w) in g.edges:
        if u != v:
            nb[u].add(v)
            nb[v].add(u)
    return nb


def triangles(g):
    nb = _nbrs(g)
    if g.n <= 64:  # literal brute force over all triples
        c = 0
        for a, b, d in itertools.combinations(range(g.n), 3):
            if b in nb[a] and d in nb[a] and d in nb[b]:
                c += 1
        return c
    c = 0
    for u in range(g.n):
        for v in nb[u]:
            if v > u:
                c += sum(1 for x in nb[u] if x > v and x in nb[v])
    return c


def kcore_size(g, k):
    """number of nodes that survive repeatedly deleting nodes of degree < k"""
    nb = _nbrs(g)
    alive = set(range(g.n))
    changed = True
    while changed:
        changed = False
        for v in list(alive):
            if len(nb[v] & alive) < k:
                alive.discard(v)
                changed = True
    return len(alive)


# --------------------------------------------------------------------------
# PageRank: x = alpha * P^T x + b, dangling nodes leak (as in the apps, which
# follow Whang et al. Europar 2015): power iteration in float64 to 1e-15
# --------------------------------------------------------------------------
ALPHA = 0.85


def pagerank(g, base):
    """base = 0.15 (residual formulations) or 0.15/n (topological)."""
    n = g.n
    outdeg = [0] * n
    for (u, _v, _w) in g.edges:
        outdeg[u] += 1
    src = np.array([u for (u, _v, _w) in g.edges], dtype=np.int64)
    dst = np.array([v for (_u, v, _w) in g.edges], dtype=np.int64)
    od = np.array(outdeg, dtype=np.float64)
    x = np.full(n, base, dtype=np.float64)
    for _ in range(100000):
        y = np.full(n, base, dtype=np.float64)
        if len(src):
            np.add.at(y, dst, ALPHA * x[src] / od[src])
        if np.abs(y - x).sum() < 1e-15 * max(1.0, np.abs(y).sum()):
            x = y
            break
        x = y
    return [float(v) for v in x]


# --------------------------------------------------------------------------
# maximal independent sets: which cardinalities are possible?
# --------------------------------------------------------------------------
def _mis_sizes_component(H):
    """H: connected simple nx.Graph.  Returns (set_of_sizes, exact)."""
    n = H.number_of_nodes()
    if n == 1:
        return {1}, True
    if n <= 24:
        sizes = set()
        cnt = 0
        C = nx.complement(H)
        for q in nx.find_cliques(C):
            sizes.add(len(q))
            cnt += 1
            if cnt > 300000:
                sizes = None
                break
        if sizes is not None:
            return sizes, True
    lo, hi = _mis_bounds_milp(H)
    return set(range(lo, hi + 1)), False


def _mis_bounds_milp(H):
    """[independent domination number, independence number] by MILP."""
    from scipy.optimize import milp, LinearConstraint, Bounds
    nodes = list(H.nodes())
    ix = {v: i for i, v in enumerate(nodes)}
    n = len(nodes)
    rows = []
    for (u, v) in H.edges():
        r = np.zeros(n)
        r[ix[u]] = 1
        r[ix[v]] = 1
        rows.append(r)
    A_ind = np.array(rows)
    dom = []
    for v in nodes:
        r = np.zeros(n)
        r[ix[v]] = 1
        for u in H[v]:
            r[ix[u]] = 1
        dom.append(r)
    A_dom = np.array(dom)
    ints = np.ones(n)
    b = Bounds(0, 1)
    # max independent
    res = milp(-np.ones(n), constraints=[LinearConstraint(A_ind, -np.inf, 1)],
               integrality=ints, bounds=b)
    hi = int(round(-res.fun))
    res = milp(np.ones(n), constraints=[LinearConstraint(A_ind, -np.inf, 1),
                                        LinearConstraint(A_dom, 1, np.inf)],
               integrality=ints, bounds=b)
    lo = int(round(res.fun))
    return lo, hi


def mis_sizes(g):
    """(set of cardinalities a maximal independent set of g can have, exact?)
    exact=False: a superset (interval per large component)."""
    H = nx.Graph()
    H.add_nodes_from(range(g.n))
    H.add_edges_from((u, v) for (u, v, _w) in g.edges if u != v)
    total = {0}
    exact = True
    for comp in nx.connected_components(H):
        s, ex = _mis_sizes_component(H.subgraph(comp).copy())
        exact = exact and ex
        total = {a + b for a in total for b in s}
    return total, exact


# --------------------------------------------------------------------------
# bipartite matching, max flow
# --------------------------------------------------------------------------
def matching_size(g):
    """maximum matching of the undirected graph underlying g (bipartite by
    construction: Hopcroft-Karp per networkx)."""
    H = nx.Graph()
    H.add_nodes_from(range(g.n))
    H.add_edges_from((u, v) for (u, v, _w) in g.edges)
    top = set(u for (u, _v, _w) in g.edges)
    if not top:
        return 0
    m = nx.bipartite.hopcroft_karp_matching(H, top_nodes=top)
    return len(m) // 2


def maxflow(g, s, t, unit=False):
    D = nx.DiGraph()
    D.add_nodes_from(range(g.n))
    for (u, v, w) in g.edges:
        if u == v:
            continue
        c = 1 if unit else w
        if D.has_edge(u, v):
            D[u][v]["capacity"] += c
        else:
            D.add_edge(u, v, capacity=c)
    return nx.maximum_flow_value(D, s, t)

"""Input graphs for check C20 and an independent ENCODER of the Galois binary
graph format (".gr").  Shares no code with Galois: the bytes are produced with
struct.pack from the format description in libgalois/src/FileGraph.cpp
("Graph file format:") -- version 1:

   version            uint64 LE   (1)
   sizeof(EdgeData)   uint64 LE   (0 for no edge data, 4 for uint32/int32)
   numNodes           uint64 LE
   numEdges           uint64 LE
   outIdx[numNodes]   uint64 LE   outIdx[i] = index ONE PAST the last edge of
                                  node i; node 0 starts at 0
   outs[numEdges]     uint32 LE   destinations, grouped by source
   padding            4 zero bytes if numEdges is odd (edge data 8-aligned)
   edgeData[numEdges] sizeof(EdgeData) bytes each, in outs order

A graph here is  G(name, n, edges)  with  edges = ordered list of
(src, dst, weight).  Out-edges are written sorted by (src, dst) -- several apps
(triangle counting, the symmetric-graph algorithms) document sorted adjacency
lists as what graph-convert produces, and plain enumeration of edge SETS has no
other natural order.

Weight rule (fixed, NOT all combinations): the edge between u and v (in either
direction) gets  W[(min(u,v)*n + max(u,v)) % 3]  with W = (1, 2, 7); so a
symmetric graph has equal weights in both directions, as the spanning-tree and
flow apps expect of an undirected input, and u->v / v->u of a directed graph
carry the same weight too.
"""
import struct

W = (1, 2, 7)


class G(object):
    __slots__ = ("name", "n", "edges", "family")

    def __init__(self, name, n, edges, family="enum"):
        self.name = name
        self.n = n
        self.edges = sorted(edges)
        self.family = family

    @property
    def m(self):
        return len(self.edges)

    def adj(self):
        a = [[] for _ in range(self.n)]
        for (u, v, w) in self.edges:
            a[u].append((v, w))
        return a

    def is_symmetric(self):
        s = set((u, v) for (u, v, _) in self.edges)
        return all((v, u) in s for (u, v) in s)

    def has_loop(self):
        return any(u == v for (u, v, _) in self.edges)

    def has_parallel(self):
        return len(set((u, v) for (u, v, _) in self.edges)) != self.m

    def to_json(self):
        return dict(name=self.name, n=self.n, family=self.family,
                    edges=[list(e) for e in self.edges])

    @staticmethod
    def from_json(d):
        return G(d["name"], d["n"], [tuple(e) for e in d["edges"]],
                 d.get("family", "enum"))

    def short(self):
        if self.m <= 12:
            return "%s n=%d E=%s" % (self.name, self.n, " ".join(
                "%d>%d:%d" % e for e in self.edges))
        return "%s n=%d m=%d" % (self.name, self.n, self.m)


def weight(n, u, v):
    a, b = (u, v) if u <= v else (v, u)
    return W[(a * n + b) % 3]


def encode_gr(g, edge_size=4):
    """bytes of a version-1 .gr file; edge_size 0 (no data) or 4 (uint32)."""
    n, m = g.n, g.m
    out = [struct.pack("<QQQQ", 1, edge_size, n, m)]
    deg = [0] * n
    for (u, _v, _w) in g.edges:
        deg[u] += 1
    s = 0
    idx = []
    for u in range(n):
        s += deg[u]
        idx.append(s)
    out.append(struct.pack("<%dQ" % n, *idx))
    out.append(struct.pack("<%dI" % m, *[v for (_u, v, _w) in g.edges]))
    if m % 2 == 1:
        out.append(b"\0\0\0\0")
    if edge_size == 4:
        out.append(struct.pack("<%dI" % m, *[w for (_u, _v, w) in g.edges]))
    elif edge_size != 0:
        raise ValueError("edge_size")
    return b"".join(out)


def write_gr(g, path, edge_size=4):
    with open(path, "wb") as f:
        f.write(encode_gr(g, edge_size))


# --------------------------------------------------------------------------
# exhaustive small graphs
# --------------------------------------------------------------------------
def digraphs(n, loops=False):
    """every directed graph on exactly n labelled nodes as an edge SET (no
    parallel edges); 2^(n(n-1)) of them, 2^(n*n) with self loops.  Plain
    enumeration: bit i of the index selects the i-th ordered pair."""
    pairs = [(u, v) for u in range(n) for v in range(n) if loops or u != v]
    for mask in range(1 << len(pairs)):
        e = [(u, v, weight(n, u, v)) for i, (u, v) in enumerate(pairs)
             if mask >> i & 1]
        yield G("d%d%s-%x" % (n, "L" if loops else "", mask), n, e)


def ugraphs(n, loops=False):
    """every undirected simple graph on exactly n labelled nodes, stored
    symmetrically (both directions); 2^(n(n-1)/2), with loops 2^(n(n+1)/2)
    (a self loop is stored once)."""
    pairs = [(u, v) for u in range(n) for v in range(u, n) if loops or u != v]
    for mask in range(1 << len(pairs)):
        e = []
        for i, (u, v) in enumerate(pairs):
            if mask >> i & 1:
                w = weight(n, u, v)
                e.append((u, v, w))
                if u != v:
                    e.append((v, u, w))
        yield G("u%d%s-%x" % (n, "L" if loops else "", mask), n, e)


def bigraphs(a, b):
    """every bipartite graph with sides A = 0..a-1 and B = a..a+b-1, stored
    symmetrically; 2^(a*b)."""
    n = a + b
    pairs = [(u, a + v) for u in range(a) for v in range(b)]
    for mask in range(1 << len(pairs)):
        e = []
        for i, (u, v) in enumerate(pairs):
            if mask >> i & 1:
                e.append((u, v, 1))
                e.append((v, u, 1))
        yield G("b%dx%d-%x" % (a, b, mask), n, e)


# --------------------------------------------------------------------------
# structured family (deterministic; no randomness anywhere)
# --------------------------------------------------------------------------
def _sym(n, und, name, fam="struct"):
    e = []
    for (u, v) in und:
        w = weight(n, u, v)
        e.append((u, v, w))
        if u != v:
            e.append((v, u, w))
    return G(name, n, e, fam)


def _dir(n, arcs, name, fam="struct"):
    return G(name, n, [(u, v, weight(n, u, v)) for (u, v) in arcs], fam)


def _lcg(seed):
    # fixed linear congruential sequence: the "heavy tail" graphs are one
    # fixed member of their family, not a random sample
    x = seed
    while True:
        x = (x * 1103515245 + 12345) % (1 << 31)
        yield x >> 8


def heavy_tail_pairs(n, seed=7):
    """undirected pairs of a connected graph with a heavy-tailed degree
    sequence: node i (i>=1) attaches to 1 or 2 EARLIER nodes whose ids are
    pushed towards 0 by squaring twice, so node 0 becomes a hub (degree ~n/2),
    a handful of nodes get degree 5-11 and most get 1-3.  The numbers come
    from the fixed sequence _lcg(seed): one fixed graph per (n, seed)."""
    r = _lcg(seed)
    und = set()
    for i in range(1, n):
        k = 1 + (next(r) % 2)
        for _ in range(k):
            x = next(r) % (i * i)
            t = i - 1 - int(x ** 0.5)
            t = max(0, min(i - 1, t))
            t = (t * t) // max(1, i - 1)
            und.add((t, i))
    return sorted(und)


def structured_undirected(big=True):
    """symmetric structured graphs, <= 64 nodes (+ one 600-leaf star when big:
    the only member beyond 64 nodes; it crosses the apps' 256/512-edge tile
    sizes)."""
    out = []
    for n in (2, 5, 16, 64):
        out.append(_sym(n, [(i, i + 1) for i in range(n - 1)], "path%d" % n))
    for n in (5, 64):
        out.append(_sym(n, [(0, i) for i in range(1, n)], "star%d" % n))
    for n in (4, 5, 8, 16):
        out.append(_sym(n, [(i, j) for i in range(n) for j in range(i + 1, n)],
                        "clique%d" % n))
    for n in (3, 8, 33):
        out.append(_sym(n, [(i, (i + 1) % n) for i in range(n)],
                        "cycle%d" % n))
    # two components: clique5 + path6, plus 2 isolated nodes
    und = [(i, j) for i in range(5) for j in range(i + 1, 5)]
    und += [(5 + i, 6 + i) for i in range(5)]
    out.append(_sym(13, und, "clique5+path6+2iso"))
    # two equal cliques joined by nothing
    und = [(i, j) for i in range(6) for j in range(i + 1, 6)]
    und += [(6 + i, 6 + j) for i in range(6) for j in range(i + 1, 6)]
    out.append(_sym(12, und, "2xclique6"))
    # barbell: two cliques joined by one edge
    out.append(_sym(12, und + [(5, 6)], "barbell6"))
    for (r, c) in ((3, 3), (4, 8), (8, 8)):
        und = []
        for i in range(r):
            for j in range(c):
                if j + 1 < c:
                    und.append((i * c + j, i * c + j + 1))
                if i + 1 < r:
                    und.append((i * c + j, (i + 1) * c + j))
        out.append(_sym(r * c, und, "grid%dx%d" % (r, c)))
    for n in (24, 64):
        out.append(_sym(n, heavy_tail_pairs(n), "heavytail%d" % n))
    # complete bipartite and a binary tree
    out.append(_sym(9, [(i, 4 + j) for i in range(4) for j in range(5)],
                    "K4,5"))
    out.append(_sym(31, [((i - 1) // 2, i) for i in range(1, 31)],
                    "bintree31"))
    out.append(_sym(6, [], "empty6"))
    if big:
        out.append(_sym(601, [(0, i) for i in range(1, 601)], "star601"))
    return out


def structured_directed(big=True):
    """directed structured graphs: every symmetric one (stored in both
    directions) plus genuinely directed shapes."""
    out = list(structured_undirected(big))
    for n in (5, 64):
        out.append(_dir(n, [(i, i + 1) for i in range(n - 1)], "dpath%d" % n))
        out.append(_dir(n, [(i + 1, i) for i in range(n - 1)],
                        "rpath%d" % n))
    for n in (3, 16):
        out.append(_dir(n, [(i, (i + 1) % n) for i in range(n)],
                        "dcycle%d" % n))
    out.append(_dir(64, [(0, i) for i in range(1, 64)], "outstar64"))
    out.append(_dir(64, [(i, 0) for i in range(1, 64)], "instar64"))
    # DAG: i -> j for all i<j (tournament, transitive)
    out.append(_dir(10, [(i, j) for i in range(10) for j in range(i + 1, 10)],
                    "dag10"))
    # layered DAG 4 layers of 8, complete between consecutive layers
    arcs = []
    for l in range(3):
        for i in range(8):
            for j in range(8):
                arcs.append((l * 8 + i, (l + 1) * 8 + j))
    out.append(_dir(32, arcs, "layers4x8"))
    # directed grid (right and down)
    arcs = []
    for i in range(6):
        for j in range(6):
            if j + 1 < 6:
                arcs.append((i * 6 + j, i * 6 + j + 1))
            if i + 1 < 6:
                arcs.append((i * 6 + j, (i + 1) * 6 + j))
    out.append(_dir(36, arcs, "dgrid6x6"))
    # heavy-tail, oriented from the newer node to the hub and back for odd ids
    arcs = []
    for (a, b) in heavy_tail_pairs(64, 11):
        arcs.append((a, b))
        if b % 3 != 0:
            arcs.append((b, a))
    out.append(_dir(64, arcs, "dheavytail64"))
    # shortcut trap for SSSP: long cheap path vs short expensive edge
    arcs = [(i, i + 1) for i in range(20)] + [(0, 20), (0, 10), (10, 20)]
    out.append(_dir(21, arcs, "shortcut21"))
    # self loops and a 2-cycle hanging off a path
    out.append(_dir(6, [(0, 0), (0, 1), (1, 1), (1, 2), (2, 1), (2, 3),
                        (3, 3), (4, 5), (5, 4)], "loops6"))
    return out


def with_parallel(g, name=None):
    """duplicate every second edge (parallel edges), same weight + one heavier
    copy so the minimum matters."""
    e = []
    for i, (u, v, w) in enumerate(g.edges):
        e.append((u, v, w))
        if i % 2 == 0:
            e.append((u, v, w + 3))
    return G(name or (g.name + "+par"), g.n, e, g.family)

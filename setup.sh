#!/bin/sh
# Builds what does not depend on /repo's contents being edited later: warms the
# object cache (engine runtime + Galois objects for the unchanged tree).
# Checks rebuild anything that is stale, so this is only a cache warm-up.
cd "$(dirname "$0")"
mkdir -p build/tmp evidence replays
python3 -m vlib.warm || exit 1
exit 0

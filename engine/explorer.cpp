// gsched explorer: iterative deviation-bounded exploration of schedules, one
// forked child per execution.  Compiled WITHOUT instrumentation.
// See /verif/DESIGN.md sections 2.3, 2.6, 2.7.
#ifndef _GNU_SOURCE
#define _GNU_SOURCE
#endif
#include "gsched.h"
#include "vf_internal.h"

#include <errno.h>
#include <fcntl.h>
#include <regex.h>
#include <signal.h>
#include <stdarg.h>
#include <stdio.h>
#include <stdlib.h>
#include <string.h>
#include <sys/mman.h>
#include <sys/personality.h>
#include <sys/stat.h>
#include <sys/syscall.h>
#include <sys/wait.h>
#include <time.h>
#include <ucontext.h>
#include <unistd.h>

#include <string>
#include <vector>

namespace {

struct Sched {
  uint8_t ndev;
  VfDev dev[VF_MAXDEV];
  uint32_t from_step;
};

#define QCAP (1u << 24)
#define SEEN_SLOTS (1ull << 26)
#define TRACE_SLOTS (1ull << 22)
#define OUT_SLOTS (1ull << 16)
#define MAXJOBS 32
#define MAXVIOL 16
#define MAXSAMPLES 6

struct Slot {
  VfJob job;
  pid_t pid;
  double t0;
  Sched s;
  int level;
  int purpose; // 0 explore, 1 determinism check, 2 violation replay
  VfResult* res;
  int viol_index;
};

struct Violation {
  char key[160];
  char msg[600];
  int verdict;
  Sched s;
  uint64_t trace_hash;
  int confirmed; // replay reproduced
  int count;
  char replay_path[300];
};

struct Sample {
  Sched s;
  uint64_t trace_hash;
  uint32_t nsteps;
  uint64_t nops;
  int verdict;
};

struct CaseStats {
  std::string name;
  int bound_requested = 0;
  int bound_completed = -1;
  bool exhaustive     = false;
  uint64_t executions = 0;
  uint64_t by_level[VF_MAXDEV + 1] = {0};
  uint64_t states       = 0;
  uint64_t transitions  = 0;
  uint64_t visible_ops  = 0;
  uint64_t distinct_traces = 0;
  uint64_t distinct_traces_dev = 0; // with >=1 deviation
  uint64_t distinct_outcomes = 0;
  uint64_t pruned_points = 0;
  uint32_t base_choice_points = 0;
  uint64_t base_ops = 0, base_ops_window = 0;
  uint32_t threads = 0;
  int restarts     = 0;
  int npromo       = 0;
  uint64_t unpromoted_races = 0;
  bool det_ok = true;
  bool steps_overflow = false, queue_overflow = false, deadline_hit = false;
  int nviol = 0;
  Violation viol[MAXVIOL];
  int nsamples = 0;
  Sample samples[MAXSAMPLES];
  double wall = 0;
  int engine_errors = 0;
  char engine_msg[300] = {0};
  std::vector<uintptr_t> promo;
  std::string trace_excerpt; // decoded head of the base execution's window
};

struct Opts {
  const char* tier     = "quick";
  const char* case_re  = nullptr;
  int bound_override   = -100;
  int jobs             = 15;
  double deadline      = 1e9;
  bool prune           = true;
  bool promote         = true;
  const char* out      = nullptr;
  const char* replay   = nullptr;
  const char* trace    = nullptr;
  const char* replaydir = "/verif/replays";
  bool list            = false;
  bool verbose         = false;
  double child_timeout = 60;
  uint64_t horizon_mult = 20;
} opt;

const char* g_property = "C??";
Slot slots[MAXJOBS];
uint64_t* seen_tab;
uint64_t* trace_tab;
uint64_t* out_tab;
Sched* queue[2];
uint32_t qn[2];
uintptr_t promo[VF_MAXPROMO];
int npromo;
int devnull_fd = -1;
char exe_path[512];

double now() {
  struct timespec ts;
  syscall(SYS_clock_gettime, CLOCK_MONOTONIC, &ts);
  return ts.tv_sec + ts.tv_nsec * 1e-9;
}

void* arena(size_t bytes, bool shared) {
  void* p = (void*)syscall(SYS_mmap, NULL, bytes, PROT_READ | PROT_WRITE,
                           (shared ? MAP_SHARED : MAP_PRIVATE) | MAP_ANONYMOUS |
                               MAP_NORESERVE,
                           -1, 0);
  if (p == MAP_FAILED) {
    perror("mmap arena");
    exit(2);
  }
  if (!shared)
    madvise(p, bytes, MADV_DONTFORK);
  return p;
}

// open-addressing set of nonzero 64-bit values; returns true if newly added
bool set_add(uint64_t* tab, uint64_t slots_, uint64_t v) {
  if (v == 0)
    v = 1;
  uint64_t h = v * 0x9e3779b97f4a7c15ULL;
  for (uint64_t i = 0;; ++i) {
    uint64_t* c = &tab[(h + i) & (slots_ - 1)];
    if (*c == v)
      return false;
    if (*c == 0) {
      *c = v;
      return true;
    }
  }
}
void set_clear(uint64_t* tab, uint64_t slots_) {
  // re-map to drop pages quickly
  madvise(tab, slots_ * 8, MADV_DONTNEED);
}

void fdprintf(int fd, const char* fmt, ...) {
  static char buf[1 << 16];
  va_list ap;
  va_start(ap, fmt);
  int n = vsnprintf(buf, sizeof buf, fmt, ap);
  va_end(ap);
  if (n > (int)sizeof buf)
    n = sizeof buf;
  ssize_t r = write(fd, buf, n);
  (void)r;
}

void sched_str(const Sched& s, char* buf, size_t n) {
  size_t o = 0;
  o += snprintf(buf + o, n - o, "[");
  for (int i = 0; i < s.ndev; ++i)
    o += snprintf(buf + o, n - o, "%s[%u,%u]", i ? "," : "", s.dev[i].step,
                  s.dev[i].choice);
  snprintf(buf + o, n - o, "]");
}

void json_escape(const char* in, char* out, size_t n) {
  size_t o = 0;
  for (; *in && o + 8 < n; ++in) {
    unsigned char c = *in;
    if (c == '"' || c == '\\') {
      out[o++] = '\\';
      out[o++] = c;
    } else if (c < 0x20) {
      o += snprintf(out + o, n - o, "\\u%04x", c);
    } else
      out[o++] = c;
  }
  out[o] = 0;
}

const char* verdict_name(int v) {
  static const char* n[] = {"pass",     "violation", "deadlock",
                            "livelock", "horizon",   "crash",
                            "diverged", "timeout",   "noresult"};
  return (v >= 0 && v <= 8) ? n[v] : "?";
}

// The child runs its body on a dedicated stack at a fixed address, so that
// stack-allocated runtime objects have the same addresses no matter how deep
// the parent's call stack was at fork time (hashes include addresses).
#define CHILD_STACK (64ul << 20)
char* child_stack;
ucontext_t child_ctx, back_ctx;
Slot* child_slot;
VfCase* child_case;
void child_main() {
  vf_child_begin(&child_slot->job, child_slot->res);
  child_case->body();
  vf_child_end();
}

// ---------------------------------------------------------------------------
void launch(Slot* sl, VfCase& c, const Sched& s, int level, int purpose,
            uint64_t horizon, bool branching, int trace_fd) {
  sl->s       = s;
  sl->level   = level;
  sl->purpose = purpose;
  sl->t0      = now();
  sl->job.ndev = s.ndev;
  memcpy(sl->job.dev, s.dev, sizeof s.dev);
  sl->job.trace_fd    = trace_fd;
  sl->job.branching   = branching;
  sl->job.horizon     = horizon;
  sl->job.track_races = opt.promote ? 1 : 1; // probes always need the shadow
  sl->job.npromo      = npromo;
  sl->job.promo       = promo;
  sl->res->done       = 0;
  sl->res->verdict    = VF_NORESULT;
  sl->res->nsteps     = 0;
  sl->res->nraces     = 0;
  pid_t pid           = fork();
  if (pid < 0) {
    perror("fork");
    exit(2);
  }
  if (pid == 0) {
    if (!opt.verbose) {
      dup2(devnull_fd, 1);
      dup2(devnull_fd, 2);
    }
    child_slot = sl;
    child_case = &c;
    getcontext(&child_ctx);
    child_ctx.uc_stack.ss_sp   = child_stack;
    child_ctx.uc_stack.ss_size = CHILD_STACK;
    child_ctx.uc_link          = nullptr;
    makecontext(&child_ctx, child_main, 0);
    swapcontext(&back_ctx, &child_ctx);
    _exit(3);
  }
  sl->pid = pid;
}

void write_replay(CaseStats& st, Violation& v) {
  mkdir(opt.replaydir, 0755);
  snprintf(v.replay_path, sizeof v.replay_path, "%s/%s-%016llx.json",
           opt.replaydir, g_property,
           (unsigned long long)(v.trace_hash ^ (uint64_t)v.s.ndev));
  int fd = open(v.replay_path, O_WRONLY | O_CREAT | O_TRUNC, 0644);
  if (fd < 0)
    return;
  char sb[400], kb[400], mb[1400], nb[400];
  sched_str(v.s, sb, sizeof sb);
  json_escape(v.key, kb, sizeof kb);
  json_escape(v.msg, mb, sizeof mb);
  json_escape(st.name.c_str(), nb, sizeof nb);
  fdprintf(fd,
           "{\"property\":\"%s\",\"engine\":\"gsched\",\"exe\":\"%s\","
           "\"case\":\"%s\",\"verdict\":\"%s\",\"key\":\"%s\",\"msg\":\"%s\","
           "\"deviations\":%s,\"trace_hash\":\"%016llx\",\"promoted\":[",
           g_property, exe_path, nb, verdict_name(v.verdict), kb, mb, sb,
           (unsigned long long)v.trace_hash);
  for (int i = 0; i < npromo; ++i)
    fdprintf(fd, "%s%llu", i ? "," : "", (unsigned long long)promo[i]);
  fdprintf(fd, "]}\n");
  close(fd);
}

// run one schedule synchronously (used for base runs, confirmations, replay)
void run_sync(VfCase& c, const Sched& s, uint64_t horizon, bool branching,
              int trace_fd) {
  Slot* sl = &slots[0];
  launch(sl, c, s, 0, 1, horizon, branching, trace_fd);
  int status;
  double t0 = now();
  for (;;) {
    pid_t r = waitpid(sl->pid, &status, WNOHANG);
    if (r == sl->pid)
      break;
    if (now() - t0 > opt.child_timeout * 2) {
      kill(sl->pid, SIGKILL);
      waitpid(sl->pid, &status, 0);
      sl->res->verdict = VF_TIMEOUT;
      snprintf((char*)sl->res->key, sizeof sl->res->key, "timeout");
      sl->res->done = 1;
      break;
    }
    usleep(200);
  }
  if (!sl->res->done) {
    sl->res->verdict = VF_NORESULT;
    snprintf((char*)sl->res->key, sizeof sl->res->key, "crash:no-result");
    snprintf((char*)sl->res->msg, sizeof sl->res->msg,
             "child ended without a verdict (status %x)", status);
  }
  sl->pid = 0;
}

void add_promo(uintptr_t pc, bool* grew) {
  for (int i = 0; i < npromo; ++i)
    if (promo[i] == pc)
      return;
  if (npromo >= VF_MAXPROMO)
    return;
  int i = npromo++;
  while (i > 0 && promo[i - 1] > pc) {
    promo[i] = promo[i - 1];
    --i;
  }
  promo[i] = pc;
  *grew    = true;
}

int find_or_add_violation(CaseStats& st, const VfResult* r, const Sched& s) {
  for (int i = 0; i < st.nviol; ++i)
    if (!strcmp(st.viol[i].key, (const char*)r->key)) {
      st.viol[i].count++;
      return -1;
    }
  if (st.nviol >= MAXVIOL)
    return -1;
  Violation& v = st.viol[st.nviol];
  memset(&v, 0, sizeof v);
  snprintf(v.key, sizeof v.key, "%s", (const char*)r->key);
  snprintf(v.msg, sizeof v.msg, "%s", (const char*)r->msg);
  v.verdict    = r->verdict;
  v.s          = s;
  v.trace_hash = r->trace_hash;
  v.count      = 1;
  return st.nviol++;
}

void explore_case(VfCase& c, int bound, double budget, CaseStats& st) {
  double t_start = now();
  st.name            = c.name;
  st.bound_requested = bound;
  npromo             = 0;
  const int MAX_RESTARTS = 6;
  uint64_t horizon       = 2000000; // provisional, refined after base run
  Sched base;
  memset(&base, 0, sizeof base);
  uint64_t ref_same = 0;
  bool have_same    = false;

restart:
  // ---- base run (twice: determinism) and promotion fixpoint --------------
  for (int iter = 0;; ++iter) {
    run_sync(c, base, horizon, true, -1);
    VfResult* r = slots[0].res;
    uint64_t h1 = r->trace_hash;
    uint32_t n1 = r->nsteps;
    int v1      = r->verdict;
    bool grew   = false;
    if (opt.promote)
      for (uint32_t i = 0; i < r->nraces && i < VF_MAXRACES; ++i) {
        add_promo(r->races[i].pc1, &grew);
        add_promo(r->races[i].pc2, &grew);
      }
    if (grew && iter < 12)
      continue;
    st.base_choice_points = n1;
    st.base_ops           = r->nops;
    st.base_ops_window    = r->nops_window;
    st.threads            = r->nthreads;
    if (v1 == VF_PASS || v1 == VF_VIOLATION)
      horizon = r->nops * opt.horizon_mult + 20000;
    run_sync(c, base, horizon, true, -1);
    if (r->trace_hash != h1 || r->nsteps != n1 || r->verdict != v1) {
      st.det_ok = false;
      st.engine_errors++;
      snprintf(st.engine_msg, sizeof st.engine_msg,
               "base schedule not deterministic: hash %llx/%llx steps %u/%u "
               "verdict %d/%d",
               (unsigned long long)h1, (unsigned long long)r->trace_hash, n1,
               r->nsteps, v1, r->verdict);
      st.wall = now() - t_start;
      return;
    }
    break;
  }

  set_clear(seen_tab, SEEN_SLOTS);
  set_clear(trace_tab, TRACE_SLOTS);
  set_clear(out_tab, OUT_SLOTS);
  st.executions = st.states = st.transitions = st.visible_ops = 0;
  st.distinct_traces = st.distinct_traces_dev = st.distinct_outcomes = 0;
  st.pruned_points = 0;
  memset(st.by_level, 0, sizeof st.by_level);
  st.nviol = 0;
  st.nsamples = 0;
  st.bound_completed = -1;
  st.steps_overflow = st.queue_overflow = false;
  have_same = false;

  int curq = 0;
  qn[0] = qn[1] = 0;
  queue[0][qn[0]++] = base;

  for (int level = 0; level <= bound; ++level) {
    uint32_t idx    = 0;
    int running     = 0;
    bool need_restart = false;
    int nextq       = curq ^ 1;
    qn[nextq]       = 0;
    int njobs       = opt.jobs;
    for (;;) {
      bool deadline = (now() - t_start) > budget;
      if (deadline)
        st.deadline_hit = true;
      // launch
      while (!deadline && !need_restart && idx < qn[curq] && running < njobs) {
        Slot* sl = nullptr;
        for (int j = 0; j < njobs; ++j)
          if (slots[j].pid == 0) {
            sl = &slots[j];
            break;
          }
        launch(sl, c, queue[curq][idx++], level, 0, horizon, true, -1);
        running++;
      }
      if (running == 0)
        break;
      // reap
      bool reaped = false;
      for (int j = 0; j < njobs; ++j) {
        Slot* sl = &slots[j];
        if (sl->pid == 0)
          continue;
        int status;
        pid_t rr = waitpid(sl->pid, &status, WNOHANG);
        if (rr == 0) {
          if (now() - sl->t0 > opt.child_timeout) {
            kill(sl->pid, SIGKILL);
            waitpid(sl->pid, &status, 0);
            sl->res->verdict = VF_TIMEOUT;
            snprintf((char*)sl->res->key, sizeof sl->res->key, "timeout");
            snprintf((char*)sl->res->msg, sizeof sl->res->msg,
                     "execution exceeded %.0fs wall time", opt.child_timeout);
            sl->res->done = 1;
          } else
            continue;
        }
        reaped  = true;
        sl->pid = 0;
        running--;
        VfResult* r = sl->res;
        if (!r->done) {
          r->verdict = VF_NORESULT;
          snprintf((char*)r->key, sizeof r->key, "crash:no-result");
          snprintf((char*)r->msg, sizeof r->msg,
                   "child ended without a verdict (status %x)", status);
        }
        if (need_restart)
          continue;
        st.executions++;
        st.by_level[level]++;
        st.transitions += r->nsteps;
        st.visible_ops += r->nops;
        if (r->steps_overflow)
          st.steps_overflow = true;
        if (set_add(trace_tab, TRACE_SLOTS, r->trace_hash)) {
          st.distinct_traces++;
          if (sl->s.ndev > 0)
            st.distinct_traces_dev++;
        }
        if (set_add(out_tab, OUT_SLOTS, r->outcome_hash ^ 0x5bd1e995))
          st.distinct_outcomes++;
        if (st.nsamples < MAXSAMPLES &&
            (st.nsamples < 2 || sl->s.ndev >= level)) {
          bool take = st.nsamples < 2 || (st.executions % 97 == 3);
          if (take) {
            Sample& sm    = st.samples[st.nsamples++];
            sm.s          = sl->s;
            sm.trace_hash = r->trace_hash;
            sm.nsteps     = r->nsteps;
            sm.nops       = r->nops;
            sm.verdict    = r->verdict;
          }
        }
        // new races -> promotion -> restart
        if (opt.promote && r->nraces) {
          bool grew = false;
          if (st.restarts < MAX_RESTARTS) {
            for (uint32_t i = 0; i < r->nraces && i < VF_MAXRACES; ++i) {
              add_promo(r->races[i].pc1, &grew);
              add_promo(r->races[i].pc2, &grew);
            }
            if (grew) {
              need_restart = true;
              continue;
            }
          } else {
            // count races whose pcs are not promoted
            for (uint32_t i = 0; i < r->nraces && i < VF_MAXRACES; ++i) {
              bool g1 = false;
              int save = npromo;
              add_promo(r->races[i].pc1, &g1);
              add_promo(r->races[i].pc2, &g1);
              if (g1) {
                // undo (keep set frozen)
                // (simple: rebuild without the new ones is costly; instead we
                // never add when frozen)
              }
              (void)save;
            }
          }
        }
        int v = r->verdict;
        if (v == VF_DIVERGED || v == VF_TIMEOUT || v == VF_NORESULT) {
          // engine-level trouble: never reported as a property violation
          // without confirmation
          if (v == VF_DIVERGED) {
            st.engine_errors++;
            char sb[300];
            sched_str(sl->s, sb, sizeof sb);
            snprintf(st.engine_msg, sizeof st.engine_msg, "%s %s: %s",
                     verdict_name(v), sb, (const char*)r->msg);
            continue;
          }
        }
        if (r->has_same) {
          if (!have_same) {
            have_same = true;
            ref_same  = r->same_hash;
          } else if (r->same_hash != ref_same && v == VF_PASS) {
            v = VF_VIOLATION;
            r->verdict = v;
            snprintf((char*)r->key, sizeof r->key,
                     "%s%sresult-depends-on-schedule", (const char*)r->tag,
                     r->tag[0] ? ":" : "");
            snprintf((char*)r->msg, sizeof r->msg,
                     "observable result %016llx differs from the base "
                     "schedule's %016llx",
                     (unsigned long long)r->same_hash,
                     (unsigned long long)ref_same);
          }
        }
        if (v != VF_PASS)
          find_or_add_violation(st, r, sl->s);
        // expansion
        if (level < bound) {
          for (uint32_t i = sl->s.from_step; i < r->nsteps; ++i) {
            const VfStep& sp = r->steps[i];
            bool fresh       = set_add(seen_tab, SEEN_SLOTS, sp.fp);
            if (fresh)
              st.states++;
            else if (opt.prune) {
              st.pruned_points++;
              continue;
            }
            for (int alt = 0; alt < 8; ++alt) {
              if (!((sp.mask >> alt) & 1) || alt == sp.base)
                continue;
              if (qn[nextq] >= QCAP) {
                st.queue_overflow = true;
                break;
              }
              Sched& n              = queue[nextq][qn[nextq]++];
              n                     = sl->s;
              n.dev[n.ndev].step    = i;
              n.dev[n.ndev].choice  = (uint8_t)alt;
              n.ndev++;
              n.from_step = i + 1;
            }
          }
        } else {
          for (uint32_t i = sl->s.from_step; i < r->nsteps; ++i)
            if (set_add(seen_tab, SEEN_SLOTS, r->steps[i].fp))
              st.states++;
        }
      }
      if (!reaped)
        usleep(100);
    }
    if (need_restart) {
      st.restarts++;
      goto restart;
    }
    if (st.deadline_hit && idx < qn[curq])
      break; // level not completed
    st.bound_completed = level;
    curq               = nextq;
    if (qn[curq] == 0) {
      // nothing left to deviate on: the tree is exhausted at every bound
      st.bound_completed = bound;
      break;
    }
    if (st.deadline_hit)
      break;
  }
  st.exhaustive = st.bound_completed >= bound && !st.steps_overflow &&
                  !st.queue_overflow;
  st.npromo = npromo;

  // confirm each violation by replaying it; a violation that does not
  // reproduce is an engine error, not a finding
  for (int i = 0; i < st.nviol; ++i) {
    Violation& v = st.viol[i];
    run_sync(c, v.s, horizon, true, -1);
    VfResult* r = slots[0].res;
    if (r->verdict == v.verdict && r->trace_hash == v.trace_hash &&
        !strcmp((const char*)r->key, v.key)) {
      v.confirmed = 1;
      write_replay(st, v);
    } else if (v.verdict == VF_VIOLATION &&
               strstr(v.key, "result-depends-on-schedule") &&
               r->trace_hash == v.trace_hash) {
      v.confirmed = 1;
      write_replay(st, v);
    } else {
      st.engine_errors++;
      snprintf(st.engine_msg, sizeof st.engine_msg,
               "violation '%s' did not reproduce on replay (verdict %s, "
               "hash %llx vs %llx)",
               v.key, verdict_name(r->verdict),
               (unsigned long long)r->trace_hash,
               (unsigned long long)v.trace_hash);
    }
  }
  // determinism re-check at the end (guards against parent-state drift)
  {
    run_sync(c, base, horizon, true, -1);
    VfResult* r = slots[0].res;
    if (r->nsteps != st.base_choice_points && st.restarts == 0) {
      st.det_ok = false;
      st.engine_errors++;
      snprintf(st.engine_msg, sizeof st.engine_msg,
               "base schedule drifted during exploration (%u vs %u steps)",
               r->nsteps, st.base_choice_points);
    }
  }
  // a decoded sample: the first visible operations of the base execution
  {
    mkdir("/verif/build", 0755);
    mkdir("/verif/build/tmp", 0755);
    char tp[200];
    snprintf(tp, sizeof tp, "/verif/build/tmp/trace-%d.txt", (int)getpid());
    int tfd = open(tp, O_RDWR | O_CREAT | O_TRUNC, 0644);
    if (tfd >= 0) {
      run_sync(c, base, horizon, true, tfd);
      static char buf[6000];
      lseek(tfd, 0, SEEK_SET);
      ssize_t n = read(tfd, buf, sizeof buf - 1);
      close(tfd);
      unlink(tp);
      if (n > 0) {
        buf[n] = 0;
        // keep whole lines, at most 40
        int lines = 0;
        char* q   = buf;
        while (*q && lines < 40) {
          if (*q == '\n')
            ++lines;
          ++q;
        }
        *q = 0;
        st.trace_excerpt = buf;
      }
    }
  }
  // (heap allocation in the parent only after the last fork of this case:
  // children must all start from the same heap image)
  st.promo.assign(promo, promo + npromo);
  st.wall = now() - t_start;
}

void emit_json(FILE* f, std::vector<CaseStats>& all, double wall) {
  fprintf(f, "{\"property\":\"%s\",\"tier\":\"%s\",\"wall_s\":%.2f,"
             "\"prune\":%s,\"promote\":%s,\"cases\":[\n",
          g_property, opt.tier, wall, opt.prune ? "true" : "false",
          opt.promote ? "true" : "false");
  for (size_t ci = 0; ci < all.size(); ++ci) {
    CaseStats& s = all[ci];
    char nb[400];
    json_escape(s.name.c_str(), nb, sizeof nb);
    fprintf(f,
            " {\"name\":\"%s\",\"bound_requested\":%d,\"bound_completed\":%d,"
            "\"exhaustive\":%s,\"executions\":%llu,\"states\":%llu,"
            "\"transitions\":%llu,\"visible_ops\":%llu,\"distinct_traces\":%llu,"
            "\"distinct_traces_with_deviation\":%llu,"
            "\"distinct_outcomes\":%llu,\"pruned_points\":%llu,"
            "\"base_choice_points\":%u,\"base_visible_ops\":%llu,"
            "\"base_visible_ops_window\":%llu,\"threads\":%u,\"restarts\":%d,"
            "\"promoted\":%d,\"deterministic\":%s,\"steps_overflow\":%s,"
            "\"queue_overflow\":%s,\"deadline_hit\":%s,\"engine_errors\":%d,"
            "\"engine_msg\":\"%s\",\"wall_s\":%.2f,\"by_level\":[",
            nb, s.bound_requested, s.bound_completed,
            s.exhaustive ? "true" : "false", (unsigned long long)s.executions,
            (unsigned long long)s.states, (unsigned long long)s.transitions,
            (unsigned long long)s.visible_ops,
            (unsigned long long)s.distinct_traces,
            (unsigned long long)s.distinct_traces_dev,
            (unsigned long long)s.distinct_outcomes,
            (unsigned long long)s.pruned_points, s.base_choice_points,
            (unsigned long long)s.base_ops,
            (unsigned long long)s.base_ops_window, s.threads, s.restarts,
            s.npromo, s.det_ok ? "true" : "false",
            s.steps_overflow ? "true" : "false",
            s.queue_overflow ? "true" : "false",
            s.deadline_hit ? "true" : "false", s.engine_errors, s.engine_msg,
            s.wall);
    for (int l = 0; l <= s.bound_requested && l <= VF_MAXDEV; ++l)
      fprintf(f, "%s%llu", l ? "," : "", (unsigned long long)s.by_level[l]);
    fprintf(f, "],\"promoted_pcs\":[");
    for (size_t i = 0; i < s.promo.size(); ++i)
      fprintf(f, "%s\"0x%lx\"", i ? "," : "", (unsigned long)s.promo[i]);
    fprintf(f, "],\"violations\":[");
    for (int i = 0; i < s.nviol; ++i) {
      Violation& v = s.viol[i];
      char kb[400], mb[1400], sb[400];
      json_escape(v.key, kb, sizeof kb);
      json_escape(v.msg, mb, sizeof mb);
      sched_str(v.s, sb, sizeof sb);
      fprintf(f,
              "%s{\"key\":\"%s\",\"msg\":\"%s\",\"verdict\":\"%s\","
              "\"deviations\":%s,\"confirmed\":%s,\"count\":%d,"
              "\"replay\":\"%s\"}",
              i ? "," : "", kb, mb, verdict_name(v.verdict), sb,
              v.confirmed ? "true" : "false", v.count, v.replay_path);
    }
    {
      std::string esc;
      for (unsigned char ch : s.trace_excerpt) {
        if (ch == '"' || ch == '\\') {
          esc += '\\';
          esc += ch;
        } else if (ch == '\n')
          esc += "\\n";
        else if (ch >= 0x20)
          esc += ch;
      }
      fprintf(f, "],\"base_trace_excerpt\":\"%s\",\"samples\":[", esc.c_str());
    }
    for (int i = 0; i < s.nsamples; ++i) {
      Sample& sm = s.samples[i];
      char sb[400];
      sched_str(sm.s, sb, sizeof sb);
      fprintf(f,
              "%s{\"deviations\":%s,\"trace_hash\":\"%016llx\","
              "\"choice_points\":%u,\"visible_ops\":%llu,\"verdict\":\"%s\"}",
              i ? "," : "", sb, (unsigned long long)sm.trace_hash, sm.nsteps,
              (unsigned long long)sm.nops, verdict_name(sm.verdict));
    }
    fprintf(f, "]}%s\n", ci + 1 < all.size() ? "," : "");
  }
  fprintf(f, "]}\n");
}

// minimal JSON field extraction for replay files (written by us)
bool json_str(const char* text, const char* field, char* out, size_t n) {
  char pat[64];
  snprintf(pat, sizeof pat, "\"%s\":\"", field);
  const char* p = strstr(text, pat);
  if (!p)
    return false;
  p += strlen(pat);
  size_t o = 0;
  while (*p && *p != '"' && o + 1 < n) {
    if (*p == '\\' && p[1])
      ++p;
    out[o++] = *p++;
  }
  out[o] = 0;
  return true;
}

int do_replay(std::vector<VfCase>& cases) {
  FILE* f = fopen(opt.replay, "r");
  if (!f) {
    perror(opt.replay);
    return 2;
  }
  static char text[1 << 18];
  size_t n = fread(text, 1, sizeof text - 1, f);
  text[n]  = 0;
  fclose(f);
  char cname[300], key[200];
  if (!json_str(text, "case", cname, sizeof cname)) {
    fprintf(stderr, "replay file has no case\n");
    return 2;
  }
  json_str(text, "key", key, sizeof key);
  Sched s;
  memset(&s, 0, sizeof s);
  const char* p = strstr(text, "\"deviations\":[");
  if (p) {
    p += strlen("\"deviations\":[");
    while (*p == '[' || *p == ',') {
      if (*p == ',') {
        ++p;
        continue;
      }
      unsigned a, b;
      if (sscanf(p, "[%u,%u]", &a, &b) == 2 && s.ndev < VF_MAXDEV) {
        s.dev[s.ndev].step   = a;
        s.dev[s.ndev].choice = (uint8_t)b;
        s.ndev++;
      }
      p = strchr(p, ']');
      if (!p)
        break;
      ++p;
    }
  }
  npromo = 0;
  p      = strstr(text, "\"promoted\":[");
  if (p) {
    p += strlen("\"promoted\":[");
    while (*p && *p != ']') {
      unsigned long long v = strtoull(p, (char**)&p, 10);
      if (v && npromo < VF_MAXPROMO)
        promo[npromo++] = (uintptr_t)v;
      if (*p == ',')
        ++p;
    }
  }
  for (auto& c : cases) {
    if (c.name != cname)
      continue;
    int tfd = -1;
    if (opt.trace)
      tfd = open(opt.trace, O_WRONLY | O_CREAT | O_TRUNC, 0644);
    run_sync(c, s, 50000000, true, tfd);
    VfResult* r = slots[0].res;
    printf("REPLAY case=%s verdict=%s key=%s\n  %s\n  choice_points=%u "
           "visible_ops=%llu trace_hash=%016llx\n",
           cname, verdict_name(r->verdict), (const char*)r->key,
           (const char*)r->msg, r->nsteps, (unsigned long long)r->nops,
           (unsigned long long)r->trace_hash);
    if (r->verdict == VF_PASS)
      return 0;
    if (r->verdict == VF_DIVERGED)
      return 2;
    return 1;
  }
  fprintf(stderr, "case '%s' not found in this harness\n", cname);
  return 2;
}

} // namespace

int vf_main(int argc, char** argv, const char* property,
            std::vector<VfCase>& cases) {
  g_property = property;
  {
    // identical code/heap addresses in every invocation (replay files carry
    // promoted code addresses): turn ASLR off and re-exec once
    int pers = personality(0xffffffff);
    if (pers != -1 && !(pers & ADDR_NO_RANDOMIZE) && !getenv("VF_NO_REEXEC")) {
      personality(pers | ADDR_NO_RANDOMIZE);
      setenv("VF_NO_REEXEC", "1", 1);
      execv("/proc/self/exe", argv);
    }
  }
  for (int i = 1; i < argc; ++i) {
    std::string a = argv[i];
    auto next     = [&]() -> const char* {
      if (i + 1 >= argc) {
        fprintf(stderr, "missing value for %s\n", a.c_str());
        exit(2);
      }
      return argv[++i];
    };
    if (a == "--tier")
      opt.tier = next();
    else if (a == "--case")
      opt.case_re = next();
    else if (a == "--bound")
      opt.bound_override = atoi(next());
    else if (a == "--jobs")
      opt.jobs = atoi(next());
    else if (a == "--deadline")
      opt.deadline = atof(next());
    else if (a == "--no-prune")
      opt.prune = false;
    else if (a == "--no-promote")
      opt.promote = false;
    else if (a == "--out")
      opt.out = next();
    else if (a == "--replay")
      opt.replay = next();
    else if (a == "--trace")
      opt.trace = next();
    else if (a == "--replaydir")
      opt.replaydir = next();
    else if (a == "--list")
      opt.list = true;
    else if (a == "--verbose")
      opt.verbose = true;
    else if (a == "--child-timeout")
      opt.child_timeout = atof(next());
    else {
      fprintf(stderr, "unknown option %s\n", a.c_str());
      return 2;
    }
  }
  if (opt.jobs < 1)
    opt.jobs = 1;
  if (opt.jobs > MAXJOBS)
    opt.jobs = MAXJOBS;
  ssize_t el = readlink("/proc/self/exe", exe_path, sizeof exe_path - 1);
  if (el > 0)
    exe_path[el] = 0;
  if (opt.list) {
    for (auto& c : cases)
      printf("%s quick=%d thorough=%d\n", c.name.c_str(), c.quick_bound,
             c.thorough_bound);
    return 0;
  }
  setvbuf(stdout, NULL, _IOLBF, 0);
  printf("# gsched explorer property=%s tier=%s jobs=%d\n", property, opt.tier,
         opt.jobs);
  devnull_fd = open("/dev/null", O_WRONLY);
  // all parent-side memory is reserved before the first fork so that every
  // child starts from an identical address space
  VfResult* rs = (VfResult*)arena(sizeof(VfResult) * MAXJOBS, true);
  for (int j = 0; j < MAXJOBS; ++j) {
    slots[j].res = &rs[j];
    slots[j].pid = 0;
  }
  child_stack = (char*)syscall(SYS_mmap, NULL, CHILD_STACK,
                               PROT_READ | PROT_WRITE,
                               MAP_PRIVATE | MAP_ANONYMOUS | MAP_NORESERVE, -1,
                               0);
  seen_tab  = (uint64_t*)arena(SEEN_SLOTS * 8, false);
  trace_tab = (uint64_t*)arena(TRACE_SLOTS * 8, false);
  out_tab   = (uint64_t*)arena(OUT_SLOTS * 8, false);
  queue[0]  = (Sched*)arena(sizeof(Sched) * (size_t)QCAP, false);
  queue[1]  = (Sched*)arena(sizeof(Sched) * (size_t)QCAP, false);

  if (opt.replay)
    return do_replay(cases);

  regex_t re;
  bool have_re = false;
  if (opt.case_re) {
    if (regcomp(&re, opt.case_re, REG_EXTENDED | REG_NOSUB)) {
      fprintf(stderr, "bad regex\n");
      return 2;
    }
    have_re = true;
  }
  bool thorough = !strcmp(opt.tier, "thorough");
  std::vector<int> sel;
  double wsum = 0;
  for (size_t i = 0; i < cases.size(); ++i) {
    int b = thorough ? cases[i].thorough_bound : cases[i].quick_bound;
    if (opt.bound_override != -100 && b >= 0)
      b = opt.bound_override;
    if (b < 0)
      continue;
    if (have_re && regexec(&re, cases[i].name.c_str(), 0, NULL, 0))
      continue;
    sel.push_back((int)i);
    wsum += cases[i].weight;
  }
  std::vector<CaseStats> all(sel.size());
  double t0 = now();
  double wleft = wsum;
  int engine_errors = 0, nviol = 0;
  auto run_one = [&](size_t k, double budget, const char* note) {
    VfCase& c = cases[sel[k]];
    int b     = thorough ? c.thorough_bound : c.quick_bound;
    if (opt.bound_override != -100)
      b = opt.bound_override;
    if (b > VF_MAXDEV)
      b = VF_MAXDEV;
    all[k] = CaseStats();
    explore_case(c, b, budget, all[k]);
    CaseStats& s = all[k];
    printf("CASE %s bound=%d/%d exhaustive=%d execs=%llu states=%llu "
           "trans=%llu traces=%llu outcomes=%llu cp0=%u thr=%u promo=%d "
           "restarts=%d viol=%d %.1fs%s\n",
           s.name.c_str(), s.bound_completed, s.bound_requested, s.exhaustive,
           (unsigned long long)s.executions, (unsigned long long)s.states,
           (unsigned long long)s.transitions,
           (unsigned long long)s.distinct_traces,
           (unsigned long long)s.distinct_outcomes, s.base_choice_points,
           s.threads, s.npromo, s.restarts, s.nviol, s.wall,
           s.engine_errors ? " ENGINE-ERROR" : "");
    if (note[0])
      printf("#   (%s)\n", note);
    if (s.engine_errors) {
      printf("ENGINE-ERROR case=%s %s\n", s.name.c_str(), s.engine_msg);
      engine_errors++;
    }
    for (int i = 0; i < s.nviol; ++i) {
      Violation& v = s.viol[i];
      if (!v.confirmed)
        continue;
      char sb[300];
      sched_str(v.s, sb, sizeof sb);
      printf("FOUND case=%s verdict=%s key=%s count=%d deviations=%s "
             "replay=%s\n      %s\n",
             s.name.c_str(), verdict_name(v.verdict), v.key, v.count, sb,
             v.replay_path, v.msg);
      nviol++;
    }
  };
  for (size_t k = 0; k < sel.size(); ++k) {
    VfCase& c     = cases[sel[k]];
    double left   = opt.deadline - (now() - t0);
    double budget = left > 0 ? left * c.weight / wleft : 0.5;
    wleft -= c.weight;
    run_one(k, budget, "");
  }
  // second pass: cases cut by their share of the deadline get what the others
  // left unused (a case's share is fixed when it starts, so an expensive case
  // early in the list would otherwise be cut while most of the deadline is
  // never spent)
  for (int pass = 0; pass < 2; ++pass) {
    std::vector<size_t> again;
    double w2 = 0;
    for (size_t k = 0; k < sel.size(); ++k)
      if (all[k].deadline_hit && !all[k].engine_errors && !all[k].nviol) {
        again.push_back(k);
        w2 += cases[sel[k]].weight;
      }
    for (size_t k : again) {
      VfCase& c   = cases[sel[k]];
      double left   = opt.deadline - (now() - t0);
      double budget = left > 0 ? left * c.weight / w2 : 0;
      w2 -= c.weight;
      if (budget < 2 * all[k].wall + 2) // not enough to get further than before
        continue;
      CaseStats old = all[k];
      run_one(k, budget, "re-run with the unused part of the deadline");
      // keep whichever run got further
      if (!all[k].nviol && !all[k].engine_errors && !all[k].exhaustive &&
          all[k].bound_completed <= old.bound_completed &&
          all[k].executions < old.executions)
        all[k] = old;
    }
  }
  double wall = now() - t0;
  if (opt.out) {
    FILE* f = fopen(opt.out, "w");
    if (f) {
      emit_json(f, all, wall);
      fclose(f);
    }
  }
  printf("# done: %zu cases, %d findings, %d engine errors, %.1fs\n",
         all.size(), nviol, engine_errors, wall);
  if (engine_errors)
    return 2;
  return nviol ? 1 : 0;
}

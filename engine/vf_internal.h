// shared between the child runtime (gsched.cpp) and the explorer (explorer.cpp)
#ifndef VF_INTERNAL_H
#define VF_INTERNAL_H
#include <stdint.h>
#include <stddef.h>

#define VF_MAXT 8
#define VF_MAXDEV 6
#define VF_MAXSTEPS (1 << 16)
#define VF_MAXRACES 64
#define VF_MAXPROMO 4096

enum VfVerdict {
  VF_PASS = 0,
  VF_VIOLATION = 1,
  VF_DEADLOCK = 2,
  VF_LIVELOCK = 3,
  VF_HORIZON = 4,
  VF_CRASH = 5,
  VF_DIVERGED = 6, // engine error: replayed prefix did not reproduce
  VF_TIMEOUT = 7,
  VF_NORESULT = 8
};

struct VfStep {
  uint64_t fp;    // state fingerprint before the decision
  uint8_t mask;   // enabled alternatives (bit per thread / per env answer)
  uint8_t base;   // default choice
  uint8_t chosen; // choice taken
  uint8_t kind;   // 0 = thread choice, 1 = environment choice
  uint32_t op;    // pending op kind of the running thread (decode aid)
};

struct VfDev {
  uint32_t step;
  uint8_t choice;
};

struct VfRace {
  uintptr_t pc1, pc2, addr;
  uint8_t w1, w2; // is-write
  uint8_t probe;  // index+1 of probe hit, 0 if none
};

struct VfJob {            // parent -> child
  int ndev;
  struct VfDev dev[VF_MAXDEV];
  int trace_fd;           // -1: none; else decoded trace is written here
  int branching;          // 0: never branch (pure base schedule)
  uint64_t horizon;       // max visible operations
  int track_races;        // maintain plain-access shadow in the window
  int npromo;
  const uintptr_t* promo; // promoted code addresses (sorted)
};

struct VfResult {         // child -> parent (MAP_SHARED)
  volatile int done;
  int verdict;
  char key[160];
  char msg[600];
  char tag[96];
  uint64_t trace_hash;
  uint64_t outcome_hash;
  uint64_t same_hash;
  int has_same;
  uint32_t nsteps;        // choice points recorded
  uint32_t steps_overflow;
  uint64_t nops;          // visible operations executed
  uint64_t nops_window;
  uint32_t nswitches;
  uint32_t nthreads;
  uint32_t nraces;
  uint32_t naborted_yield_disables;
  struct VfRace races[VF_MAXRACES];
  struct VfStep steps[VF_MAXSTEPS];
};

#ifdef __cplusplus
extern "C" {
#endif
// child side entry points used by the explorer
void vf_child_begin(const struct VfJob* job, struct VfResult* res);
void vf_child_end(void) __attribute__((noreturn));
#ifdef __cplusplus
}
#endif
#endif

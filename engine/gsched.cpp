// gsched child runtime: serialising scheduler, TSan compiler ABI, libc seams.
// This translation unit is compiled WITHOUT instrumentation.
// See /verif/DESIGN.md section 2.
#ifndef _GNU_SOURCE
#define _GNU_SOURCE
#endif
#include "gsched.h"
#include "vf_internal.h"

#include <dlfcn.h>
#include <errno.h>
#include <fcntl.h>
#include <linux/futex.h>
#include <pthread.h>
#include <signal.h>
#include <stdarg.h>
#include <stdio.h>
#include <stdlib.h>
#include <string.h>
#include <sys/mman.h>
#include <sys/syscall.h>
#include <sys/time.h>
#include <time.h>
#include <unistd.h>

// ---------------------------------------------------------------------------
// small helpers
// ---------------------------------------------------------------------------
static inline uint64_t mix(uint64_t a, uint64_t b) {
  uint64_t x = a ^ (b + 0x9e3779b97f4a7c15ULL + (a << 6) + (a >> 2));
  x ^= x >> 30;
  x *= 0xbf58476d1ce4e5b9ULL;
  x ^= x >> 27;
  x *= 0x94d049bb133111ebULL;
  x ^= x >> 31;
  return x;
}

static long sys_futex(volatile int* addr, int op, int val) {
  return syscall(SYS_futex, addr, op, val, NULL, NULL, 0);
}

enum OpKind {
  OP_NONE = 0,
  OP_START,
  OP_ALOAD,
  OP_ASTORE,
  OP_ARMW,
  OP_ACAS,
  OP_FENCE,
  OP_VREAD,
  OP_VWRITE,
  OP_PREAD,  // promoted plain read
  OP_PWRITE, // promoted plain write
  OP_MLOCK,
  OP_MTRYLOCK,
  OP_MUNLOCK,
  OP_CWAIT,   // enter wait: release mutex, become waiter
  OP_CWAKE,   // leave wait: needs signal + mutex
  OP_CSIGNAL,
  OP_CBCAST,
  OP_BARRIER, // pthread barrier arrive
  OP_BARRIER2, // pthread barrier depart
  OP_CREATE,
  OP_JOIN,
  OP_EXIT,
  OP_YIELD,
  OP_CHOOSE,
  OP_GUARD, // static-local guard acquire
  OP_NKINDS
};
static const char* const kOpName[] = {
    "none",   "start",  "aload",  "astore",  "armw",    "acas",   "fence",
    "vread",  "vwrite", "pread",  "pwrite",  "mlock",   "mtrylock", "munlock",
    "cwait",  "cwake",  "csignal", "cbcast", "barrier", "barrier2", "create",
    "join",   "exit",   "yield",  "choose",  "guard"};

enum ThrState { TS_FREE = 0, TS_PARKED, TS_RUNNING, TS_EXITED };

#define SEQ_CAP 4096
#define SEQ_IDX_SLOTS 8192
#define RSET_SLOTS 4096
#define RSET_MAX 2500
#define WLOG_CAP 512

struct WlogEnt {
  uintptr_t addr;
  uint64_t old;
  uint8_t size;
};

struct Thr {
  int tid;
  volatile int futex;
  int state;
  int pend; // OpKind
  uintptr_t paddr;
  int paux;
  uintptr_t ppc;
  bool yielding; // priority hint for the base scheduler
  bool ydis;     // disabled by the yield rule until its read set changes
  // condvar / barrier / join bookkeeping
  uintptr_t wait_cond;
  uintptr_t wait_mutex;
  bool signalled;
  uint32_t bar_gen;
  pthread_t pth;
  // happens-before
  uint32_t vc[VF_MAXT];
  uint32_t pendacq[VF_MAXT];
  uint32_t fencerel[VF_MAXT];
  // event hash chain
  uint64_t h;
  // loop detection
  bool looping;
  int nseq;               // events since the last reset
  uint64_t seq[SEQ_CAP];  // hashed (kind,pc,sp,addr,value) of read-like events
  uint64_t pdig;          // digest of plain reads since the previous event
  int cand_p;             // candidate period
  int match_len;          // trailing events matching at distance cand_p
  struct {
    uint64_t key;
    uint32_t gen;
    int idx;
  } seqidx[SEQ_IDX_SLOTS]; // last occurrence of an event hash
  uint32_t rgen;
  int rcount;
  bool roverflow;
  struct {
    uintptr_t key;
    uint32_t gen;
  } rset[RSET_SLOTS];
  int nwlog;
  WlogEnt wlog[WLOG_CAP];
  // thread start
  void* (*fn)(void*);
  void* arg;
  void* retval;
  volatile int registered;
};

#define SYNC_SLOTS (1 << 18)
struct SyncObj {
  uintptr_t addr;
  uint32_t vc[VF_MAXT]; // release clock
  uint64_t lw;          // hash of last write event
  uint64_t racc;        // commutative accumulator of reads since
  int owner;            // mutex owner tid+1 (0 free) / guard owner
  uint32_t bar_count, bar_arrived, bar_gen;
};

#define SHADOW_SLOTS (1 << 19)
struct Shadow {
  uintptr_t key; // addr>>3, 0 = empty
  uintptr_t wpc;
  uint32_t wclk;
  int8_t wtid;
  uint8_t rmask;  // threads with a recorded read
  uint8_t wbytes; // bytes of the granule covered by the last write
  uint8_t rbytes[VF_MAXT];
  uint32_t rclk[VF_MAXT];
  uintptr_t rpc[VF_MAXT];
};

#define LOG_CAP 4096
#define MAX_PROBES 32

static struct G {
  int on;
  const VfJob* job;
  VfResult* res;
  Thr thr[VF_MAXT];
  int nthr;
  int cur;
  int window;
  int devi;
  uint64_t nops, nops_window;
  uint32_t nswitches;
  uint64_t trace;
  uint64_t memfp;
  uint64_t outcome;
  int stall_rounds;
  uint64_t slice_start; // g.nops at the last context switch
  uint32_t loopmask; // threads with looping||ydis
  int failed;        // vf_note_fail recorded
  // ledger
  int nlog;
  vf_log_entry log[LOG_CAP];
  // probes
  int nprobes;
  struct {
    uintptr_t lo, hi;
    char name[48];
  } probes[MAX_PROBES];
  // fake topology text
  char cpuinfo[8192];
  int cpuinfo_len;
  int ncpus;
  uint64_t clock_ns;
  uint64_t clock_step;
  uint32_t rand_state;
  char tag[96];
} g;

static SyncObj* g_sync;   // SYNC_SLOTS
static Shadow* g_shadow;  // SHADOW_SLOTS
static __thread Thr* tls_me;

#define STALL_LIMIT 40
#define SLICE 3000

// ---------------------------------------------------------------------------
// real libc entry points
// ---------------------------------------------------------------------------
typedef int (*pthread_create_t)(pthread_t*, const pthread_attr_t*,
                                void* (*)(void*), void*);
typedef int (*pthread_join_t)(pthread_t, void**);
static pthread_create_t real_pthread_create;
static pthread_join_t real_pthread_join;
static int (*real_mutex_lock)(pthread_mutex_t*);
static int (*real_mutex_trylock)(pthread_mutex_t*);
static int (*real_mutex_unlock)(pthread_mutex_t*);
static int (*real_cond_wait)(pthread_cond_t*, pthread_mutex_t*);
static int (*real_cond_signal)(pthread_cond_t*);
static int (*real_cond_broadcast)(pthread_cond_t*);
static int (*real_barrier_init)(pthread_barrier_t*,
                                const pthread_barrierattr_t*, unsigned);
static int (*real_barrier_wait)(pthread_barrier_t*);
static int (*real_barrier_destroy)(pthread_barrier_t*);
static FILE* (*real_fopen64)(const char*, const char*);
static FILE* (*real_fopen)(const char*, const char*);
static int (*real_clock_gettime)(clockid_t, struct timespec*);

static void resolve_real(void) {
  if (real_pthread_create)
    return;
  real_pthread_create = (pthread_create_t)dlsym(RTLD_NEXT, "pthread_create");
  real_pthread_join   = (pthread_join_t)dlsym(RTLD_NEXT, "pthread_join");
  *(void**)&real_mutex_lock    = dlsym(RTLD_NEXT, "pthread_mutex_lock");
  *(void**)&real_mutex_trylock = dlsym(RTLD_NEXT, "pthread_mutex_trylock");
  *(void**)&real_mutex_unlock  = dlsym(RTLD_NEXT, "pthread_mutex_unlock");
  *(void**)&real_cond_wait     = dlsym(RTLD_NEXT, "pthread_cond_wait");
  *(void**)&real_cond_signal   = dlsym(RTLD_NEXT, "pthread_cond_signal");
  *(void**)&real_cond_broadcast = dlsym(RTLD_NEXT, "pthread_cond_broadcast");
  *(void**)&real_barrier_init  = dlsym(RTLD_NEXT, "pthread_barrier_init");
  *(void**)&real_barrier_wait  = dlsym(RTLD_NEXT, "pthread_barrier_wait");
  *(void**)&real_barrier_destroy = dlsym(RTLD_NEXT, "pthread_barrier_destroy");
  *(void**)&real_fopen64 = dlsym(RTLD_NEXT, "fopen64");
  *(void**)&real_fopen   = dlsym(RTLD_NEXT, "fopen");
  *(void**)&real_clock_gettime = dlsym(RTLD_NEXT, "clock_gettime");
}
__attribute__((constructor(101))) static void gsched_ctor(void) {
  resolve_real();
}

// ---------------------------------------------------------------------------
// finishing an execution
// ---------------------------------------------------------------------------
static void write_trace(const char* fmt, ...) {
  if (!g.job || g.job->trace_fd < 0)
    return;
  char buf[512];
  va_list ap;
  va_start(ap, fmt);
  int n = vsnprintf(buf, sizeof buf, fmt, ap);
  va_end(ap);
  if (n > (int)sizeof buf)
    n = sizeof buf;
  if (n > 0) {
    ssize_t r = write(g.job->trace_fd, buf, n);
    (void)r;
  }
}

__attribute__((noreturn)) static void finish(int verdict, const char* key,
                                             const char* msg) {
  VfResult* r = g.res;
  if (r && !r->done) {
    if (verdict == VF_PASS && g.failed)
      verdict = VF_VIOLATION; // key/msg already stored by vf_note_fail
    else if (verdict != VF_PASS && !(g.failed && verdict == VF_VIOLATION)) {
      if (verdict != VF_VIOLATION && g.tag[0] && key && strncmp(key, "engine:", 7))
        snprintf(r->key, sizeof r->key, "%s:%s", g.tag, key);
      else
        snprintf(r->key, sizeof r->key, "%s", key ? key : "");
      snprintf(r->msg, sizeof r->msg, "%s", msg ? msg : "");
    }
    if (verdict == VF_PASS && g.job && g.devi < g.job->ndev) {
      verdict = VF_DIVERGED;
      snprintf(r->key, sizeof r->key, "engine:diverged");
      snprintf(r->msg, sizeof r->msg,
               "deviation %d at step %u never reached (execution had %u "
               "choice points)",
               g.devi, g.job->dev[g.devi].step, r->nsteps);
    }
    r->verdict      = verdict;
    snprintf(r->tag, sizeof r->tag, "%s", g.tag);
    r->trace_hash   = g.trace;
    r->outcome_hash = g.outcome;
    r->nops         = g.nops;
    r->nops_window  = g.nops_window;
    r->nswitches    = g.nswitches;
    r->nthreads     = g.nthr;
    write_trace("# end verdict=%d key=%s msg=%s\n", verdict, r->key, r->msg);
    __atomic_store_n(&r->done, 1, __ATOMIC_SEQ_CST);
  }
  _exit(0);
}

static void on_signal(int sig) {
  char k[64];
  snprintf(k, sizeof k, "crash:signal-%d", sig);
  char m[160];
  Thr* me = tls_me;
  snprintf(m, sizeof m, "signal %d (%s) in thread %d after %llu visible ops",
           sig, strsignal(sig), me ? me->tid : -1,
           (unsigned long long)g.nops);
  finish(VF_CRASH, k, m);
}

// ---------------------------------------------------------------------------
// sync object table
// ---------------------------------------------------------------------------
static inline uint64_t sync_contrib(const SyncObj* o) {
  return mix(mix(o->addr, o->lw), o->racc + ((uint64_t)o->owner << 40));
}

static SyncObj* sync_get(uintptr_t addr) {
  uint64_t h = mix(addr, 0x51ed);
  for (unsigned i = 0; i < SYNC_SLOTS; ++i) {
    SyncObj* o = &g_sync[(h + i) & (SYNC_SLOTS - 1)];
    if (o->addr == addr)
      return o;
    if (o->addr == 0) {
      o->addr = addr;
      g.memfp += sync_contrib(o);
      return o;
    }
  }
  finish(VF_CRASH, "engine:sync-table-full", "sync object table full");
}

// ---------------------------------------------------------------------------
// loop detection (yield rule)
// ---------------------------------------------------------------------------
static inline void loop_reset(Thr* t) {
  t->looping   = false;
  t->ydis      = false;
  t->nseq      = 0;
  t->pdig      = 0;
  t->cand_p    = 0;
  t->match_len = 0;
  t->rgen++;
  t->rcount    = 0;
  t->roverflow = false;
  t->nwlog     = 0;
  g.loopmask &= ~(1u << t->tid);
}

static inline bool rset_has(Thr* t, uintptr_t key) {
  if (t->roverflow)
    return true;
  unsigned h = (unsigned)mix(key, 7) & (RSET_SLOTS - 1);
  for (;;) {
    if (t->rset[h].gen != t->rgen)
      return false;
    if (t->rset[h].key == key)
      return true;
    h = (h + 1) & (RSET_SLOTS - 1);
  }
}
static inline void rset_add(Thr* t, uintptr_t key) {
  if (t->roverflow)
    return;
  unsigned h = (unsigned)mix(key, 7) & (RSET_SLOTS - 1);
  for (;;) {
    if (t->rset[h].gen != t->rgen) {
      if (t->rcount >= RSET_MAX) {
        t->roverflow = true;
        return;
      }
      t->rset[h].gen = t->rgen;
      t->rset[h].key = key;
      t->rcount++;
      return;
    }
    if (t->rset[h].key == key)
      return;
    h = (h + 1) & (RSET_SLOTS - 1);
  }
}

// a write (by `me`) to [addr, addr+size): wake / reset loopers that read it
static inline void note_write_others(Thr* me, uintptr_t addr, int size) {
  uint32_t m = g.loopmask & ~(1u << me->tid);
  if (!m)
    return;
  uintptr_t k0 = addr >> 3, k1 = (addr + size - 1) >> 3;
  for (int u = 0; u < g.nthr; ++u) {
    if (!((m >> u) & 1))
      continue;
    Thr* t = &g.thr[u];
    if (rset_has(t, k0) || (k1 != k0 && rset_has(t, k1)))
      loop_reset(t);
  }
}

// own real change: I am not in a read-only loop
static inline void note_own_change(Thr* me) {
  if (me->looping || me->ydis)
    loop_reset(me);
  g.stall_rounds = 0;
}

// remember the value a location had before this thread's FIRST write to it
// since the last reset (net effect of a period = compare with current memory)
static void wlog_first(Thr* me, uintptr_t addr, int size, uint64_t old) {
  for (int i = 0; i < me->nwlog; ++i)
    if (me->wlog[i].addr == addr)
      return;
  if (me->nwlog >= WLOG_CAP) {
    loop_reset(me);
    g.stall_rounds = 0;
    return;
  }
  WlogEnt* e = &me->wlog[me->nwlog++];
  e->addr    = addr;
  e->size    = size > 8 ? 8 : size;
  e->old     = old;
}

static bool wlog_changed(Thr* me) {
  for (int i = 0; i < me->nwlog; ++i) {
    WlogEnt* e  = &me->wlog[i];
    uint64_t cur = 0;
    memcpy(&cur, (void*)e->addr, e->size);
    if (cur != e->old)
      return true;
  }
  return false;
}

// The thread executed a read-like event (atomic load, failed CAS, no-op RMW,
// failed trylock, explicit yield).  Returns true when the sequence of such
// events since its last own change consists of one period executed twice in a
// row with identical addresses and values and no own write in between: the
// thread is waiting (its next iteration would be identical until somebody
// else writes something it read).
static bool loop_check(Thr* me, uintptr_t pc, uintptr_t sp, uintptr_t addr,
                       uint64_t val) {
  if (me->looping && wlog_changed(me)) {
    loop_reset(me);
    g.stall_rounds = 0;
  }
  if (me->nseq >= SEQ_CAP)
    loop_reset(me);
  uint64_t h = mix(mix(mix(mix(pc, sp), addr), val), me->pdig) | 1;
  me->pdig   = 0;
  int n      = me->nseq;
  me->seq[n] = h;
  me->nseq   = n + 1;
  me->looping = true;
  g.loopmask |= 1u << me->tid;
  // previous occurrence of h
  unsigned slot = (unsigned)(h >> 7) & (SEQ_IDX_SLOTS - 1);
  int prev      = -1;
  for (;;) {
    if (me->seqidx[slot].gen != me->rgen) {
      me->seqidx[slot].gen = me->rgen;
      me->seqidx[slot].key = h;
      me->seqidx[slot].idx = n;
      break;
    }
    if (me->seqidx[slot].key == h) {
      prev                 = me->seqidx[slot].idx;
      me->seqidx[slot].idx = n;
      break;
    }
    slot = (slot + 1) & (SEQ_IDX_SLOTS - 1);
  }
  if (me->cand_p > 0 && n - me->cand_p >= 0 && me->seq[n - me->cand_p] == h) {
    me->match_len++;
  } else if (prev >= 0) {
    int p = n - prev;
    int m = 0;
    while (m < p && n - m - p >= 0 && me->seq[n - m] == me->seq[n - m - p])
      ++m;
    me->cand_p    = p;
    me->match_len = m;
  } else {
    me->cand_p    = 0;
    me->match_len = 0;
  }
  return me->cand_p > 0 && me->match_len >= me->cand_p;
}

// ---------------------------------------------------------------------------
// scheduler core
// ---------------------------------------------------------------------------
static inline bool is_enabled(Thr* t) {
  if (t->state != TS_PARKED && t->state != TS_RUNNING)
    return false;
  if (t->ydis)
    return false;
  switch (t->pend) {
  case OP_MLOCK:
  case OP_GUARD:
    return sync_get(t->paddr)->owner == 0;
  case OP_CWAKE:
    return t->signalled && sync_get(t->wait_mutex)->owner == 0;
  case OP_JOIN:
    return g.thr[t->paux].state == TS_EXITED;
  case OP_BARRIER2:
    return sync_get(t->paddr)->bar_gen != t->bar_gen;
  default:
    return true;
  }
}

static uint64_t fingerprint(Thr* me) {
  uint64_t s = g.memfp;
  for (int i = 0; i < g.nthr; ++i) {
    Thr* t = &g.thr[i];
    s += mix(mix(i + 1, t->h),
             (uint64_t)t->state | ((uint64_t)t->ydis << 8) |
                 ((uint64_t)t->pend << 16) | ((uint64_t)t->signalled << 24));
  }
  return mix(s, (uint64_t)me->tid | ((uint64_t)me->yielding << 8));
}

static void describe_blocked(char* buf, size_t n) {
  size_t o = 0;
  for (int i = 0; i < g.nthr && o + 80 < n; ++i) {
    Thr* t = &g.thr[i];
    o += snprintf(buf + o, n - o, "t%d:%s%s@%lx ", i,
                  t->state == TS_EXITED ? "exited/" : "",
                  t->ydis ? "spin/" : "", (unsigned long)t->ppc);
    o += snprintf(buf + o, n - o, "(%s) ", kOpName[t->pend]);
  }
}

static int decide(Thr* me) {
  uint32_t mask;
  for (;;) {
    mask = 0;
    for (int i = 0; i < g.nthr; ++i)
      if (is_enabled(&g.thr[i]))
        mask |= 1u << i;
    if (mask)
      break;
    bool any = false;
    for (int i = 0; i < g.nthr; ++i)
      if (g.thr[i].ydis)
        any = true;
    char buf[500];
    if (!any) {
      describe_blocked(buf, sizeof buf);
      finish(VF_DEADLOCK, "deadlock", buf);
    }
    if (++g.stall_rounds > STALL_LIMIT) {
      describe_blocked(buf, sizeof buf);
      finish(VF_LIVELOCK, "livelock", buf);
    }
    for (int i = 0; i < g.nthr; ++i)
      if (g.thr[i].ydis)
        loop_reset(&g.thr[i]);
  }
  int base;
  // fairness backstop: a thread that ran SLICE visible operations in a row
  // while others could run is treated as yielding (busy-wait loops that
  // neither pause nor look periodic would otherwise starve everybody)
  if (g.nops - g.slice_start > SLICE) {
    // ... and threads parked by the wait rule get another look: a wrongly
    // detected wait (a finite polling sequence that merely LOOKED periodic)
    // must not starve its thread while somebody else runs forever
    bool woke = false;
    for (int i = 0; i < g.nthr; ++i)
      if (g.thr[i].ydis) {
        loop_reset(&g.thr[i]);
        mask |= 1u << i;
        woke = true;
      }
    if (mask & ~(1u << me->tid))
      me->yielding = true;
    if (woke || me->yielding)
      g.slice_start = g.nops;
  }
  if (((mask >> me->tid) & 1) && !me->yielding) {
    base = me->tid;
  } else {
    base = -1;
    for (int i = 1; i <= g.nthr; ++i) {
      int c = (me->tid + i) % g.nthr;
      if ((mask >> c) & 1) {
        base = c;
        break;
      }
    }
  }
  int choice = base;
  if (g.window && g.job->branching && (mask & (mask - 1))) {
    VfResult* r   = g.res;
    uint32_t step = r->nsteps;
    if (step < VF_MAXSTEPS) {
      VfStep* s = &r->steps[step];
      s->fp     = fingerprint(me);
      s->mask   = (uint8_t)mask;
      s->base   = (uint8_t)base;
      s->kind   = 0;
      s->op     = (uint32_t)me->pend;
      if (g.devi < g.job->ndev && g.job->dev[g.devi].step == step) {
        choice = g.job->dev[g.devi].choice;
        if (!((mask >> choice) & 1) || choice == base) {
          char buf[200];
          snprintf(buf, sizeof buf,
                   "step %u: deviation to %d but enabled mask %x base %d",
                   step, choice, mask, base);
          finish(VF_DIVERGED, "engine:diverged", buf);
        }
        g.devi++;
      }
      s->chosen = (uint8_t)choice;
      r->nsteps = step + 1;
    } else {
      r->steps_overflow = 1;
    }
  }
  me->yielding = false;
  return choice;
}

static void park(Thr* me) {
  while (__atomic_load_n(&me->futex, __ATOMIC_ACQUIRE) == 0) {
    // short spin then sleep
    for (int i = 0; i < 200; ++i) {
      if (__atomic_load_n(&me->futex, __ATOMIC_ACQUIRE))
        goto out;
      __builtin_ia32_pause();
    }
    sys_futex(&me->futex, FUTEX_WAIT_PRIVATE, 0);
  }
out:
  __atomic_store_n(&me->futex, 0, __ATOMIC_RELAXED);
}

static void wake(Thr* t) {
  __atomic_store_n(&t->futex, 1, __ATOMIC_RELEASE);
  sys_futex(&t->futex, FUTEX_WAKE_PRIVATE, 1);
}

// The calling thread is about to execute a visible operation.
static void sched_point(Thr* me, int kind, uintptr_t addr, int aux,
                        uintptr_t pc) {
  me->pend  = kind;
  me->paddr = addr;
  me->paux  = aux;
  me->ppc   = pc;
  g.nops++;
  if (g.window)
    g.nops_window++;
  if (g.nops > g.job->horizon) {
    char buf[500];
    describe_blocked(buf, sizeof buf);
    finish(VF_HORIZON, "horizon", buf);
  }
  int n = decide(me);
  if (n != me->tid) {
    me->state = TS_PARKED;
    g.cur     = n;
    g.nswitches++;
    g.slice_start = g.nops;
    Thr* t   = &g.thr[n];
    t->state = TS_RUNNING;
    wake(t);
    park(me);
  }
  me->state = TS_RUNNING;
}

// record the executed event: hashes, trace
static inline void record(Thr* me, int kind, uintptr_t addr, uint64_t val,
                          bool is_write, uintptr_t pc) {
  SyncObj* o = sync_get(addr);
  g.memfp -= sync_contrib(o);
  uint64_t h = mix(mix(me->h, ((uint64_t)kind << 56) ^ addr), o->lw);
  h          = mix(h, val);
  if (is_write) {
    h       = mix(h, o->racc);
    o->lw   = h;
    o->racc = 0;
  } else {
    o->racc += mix(h, 0x7ead);
  }
  me->h = h;
  g.memfp += sync_contrib(o);
  g.trace = mix(mix(g.trace, ((uint64_t)me->tid << 56) ^
                                 ((uint64_t)kind << 48) ^ addr),
                val);
  if (g.job->trace_fd >= 0 && g.window)
    write_trace("%llu t%d %s addr=%lx val=%llx %s pc=%lx\n",
                (unsigned long long)g.nops, me->tid, kOpName[kind],
                (unsigned long)addr, (unsigned long long)val,
                is_write ? "W" : "R", (unsigned long)pc);
}

static inline void vc_join(uint32_t* a, const uint32_t* b) {
  for (int i = 0; i < VF_MAXT; ++i)
    if (b[i] > a[i])
      a[i] = b[i];
}

// ---------------------------------------------------------------------------
// plain access shadow (race detection inside the window)
// ---------------------------------------------------------------------------
static void report_race(Thr* me, uintptr_t addr, uintptr_t pc_prev, bool wprev,
                        uintptr_t pc_now, bool wnow) {
  VfResult* r = g.res;
  int probe   = 0;
  for (int i = 0; i < g.nprobes; ++i)
    if (addr >= g.probes[i].lo && addr < g.probes[i].hi)
      probe = i + 1;
  if (probe) {
    char key[120], msg[300];
    snprintf(key, sizeof key, "hb-race:%s", g.probes[probe - 1].name);
    snprintf(msg, sizeof msg,
             "probe '%s' (addr %lx): %s at pc %lx by t%d is not ordered by "
             "happens-before after %s at pc %lx",
             g.probes[probe - 1].name, (unsigned long)addr,
             wnow ? "write" : "read", (unsigned long)pc_now, me->tid,
             wprev ? "write" : "read", (unsigned long)pc_prev);
    finish(VF_VIOLATION, key, msg);
  }
  for (uint32_t i = 0; i < r->nraces && i < VF_MAXRACES; ++i)
    if (r->races[i].pc1 == pc_prev && r->races[i].pc2 == pc_now)
      return;
  if (r->nraces < VF_MAXRACES) {
    VfRace* x = &r->races[r->nraces];
    x->pc1    = pc_prev;
    x->pc2    = pc_now;
    x->addr   = addr;
    x->w1     = wprev;
    x->w2     = wnow;
    x->probe  = 0;
  }
  r->nraces++;
}

static inline void shadow_access(Thr* me, uintptr_t addr, int size,
                                 bool is_write, uintptr_t pc) {
  uintptr_t key = addr >> 3;
  unsigned off  = addr & 7;
  unsigned nb   = size > 8 - (int)off ? 8 - off : size;
  uint8_t bytes = (uint8_t)(((1u << nb) - 1) << off);
  uint64_t h    = mix(key, 0xabc);
  Shadow* s     = NULL;
  for (unsigned i = 0; i < 64; ++i) {
    Shadow* c = &g_shadow[(h + i) & (SHADOW_SLOTS - 1)];
    if (c->key == key) {
      s = c;
      break;
    }
    if (c->key == 0) {
      c->key  = key;
      c->wtid = -1;
      s       = c;
      break;
    }
  }
  if (!s)
    return; // table crowded: give up tracking this location
  int t = me->tid;
  if (s->wtid >= 0 && s->wtid != t && (s->wbytes & bytes) &&
      s->wclk > me->vc[s->wtid])
    report_race(me, addr, s->wpc, true, pc, is_write);
  if (is_write) {
    uint8_t m = s->rmask & ~(1u << t);
    while (m) {
      int u = __builtin_ctz(m);
      m &= m - 1;
      if ((s->rbytes[u] & bytes) && s->rclk[u] > me->vc[u])
        report_race(me, addr, s->rpc[u], false, pc, true);
    }
    if (s->wtid == t && s->wclk == me->vc[t])
      s->wbytes |= bytes;
    else
      s->wbytes = bytes;
    s->wtid  = (int8_t)t;
    s->wclk  = me->vc[t];
    s->wpc   = pc;
    s->rmask = 0;
  } else {
    if ((s->rmask >> t) & 1 && s->rclk[t] == me->vc[t])
      s->rbytes[t] |= bytes;
    else
      s->rbytes[t] = bytes;
    s->rclk[t] = me->vc[t];
    s->rpc[t]  = pc;
    s->rmask |= 1u << t;
  }
}

static inline bool promoted(uintptr_t pc) {
  int lo = 0, hi = g.job->npromo - 1;
  const uintptr_t* p = g.job->promo;
  while (lo <= hi) {
    int mid = (lo + hi) >> 1;
    if (p[mid] == pc)
      return true;
    if (p[mid] < pc)
      lo = mid + 1;
    else
      hi = mid - 1;
  }
  return false;
}

static inline void plain_access(uintptr_t addr, int size, bool is_write,
                                uintptr_t pc) {
  Thr* me = tls_me;
  if (!me)
    return;
  if (g.job->npromo && g.window && promoted(pc)) {
    sched_point(me, is_write ? OP_PWRITE : OP_PREAD, addr, 0, pc);
    uint64_t v = 0;
    memcpy(&v, (void*)addr, size > 8 ? 8 : size);
    record(me, is_write ? OP_PWRITE : OP_PREAD, addr & ~(uintptr_t)7, v,
           is_write, pc);
  }
  if (is_write) {
    if (me->looping) {
      uint64_t old = 0;
      memcpy(&old, (void*)addr, size > 8 ? 8 : size);
      wlog_first(me, addr, size, old);
    }
    if (g.loopmask & ~(1u << me->tid))
      note_write_others(me, addr, size);
  } else if (me->looping) {
    rset_add(me, addr >> 3);
    if (size > 8 || ((addr & 7) + size > 8))
      rset_add(me, (addr + size - 1) >> 3);
    uint64_t v = 0;
    memcpy(&v, (void*)addr, size > 8 ? 8 : size);
    me->pdig = mix(me->pdig ^ pc, addr ^ (v * 0x9e3779b97f4a7c15ULL));
  }
  if (g.window && g.job->track_races) {
    shadow_access(me, addr, size, is_write, pc);
    if ((addr & 7) + size > 8) {
      uintptr_t a2 = (addr | 7) + 1;
      shadow_access(me, a2, (int)(addr + size - a2), is_write, pc);
    }
  }
}

#define PC() ((uintptr_t)__builtin_return_address(0))
#define SP() ((uintptr_t)__builtin_frame_address(0))

extern "C" {
void __tsan_init(void) {}
void __tsan_read1(void* a) { plain_access((uintptr_t)a, 1, false, PC()); }
void __tsan_read2(void* a) { plain_access((uintptr_t)a, 2, false, PC()); }
void __tsan_read4(void* a) { plain_access((uintptr_t)a, 4, false, PC()); }
void __tsan_read8(void* a) { plain_access((uintptr_t)a, 8, false, PC()); }
void __tsan_read16(void* a) { plain_access((uintptr_t)a, 16, false, PC()); }
void __tsan_write1(void* a) { plain_access((uintptr_t)a, 1, true, PC()); }
void __tsan_write2(void* a) { plain_access((uintptr_t)a, 2, true, PC()); }
void __tsan_write4(void* a) { plain_access((uintptr_t)a, 4, true, PC()); }
void __tsan_write8(void* a) { plain_access((uintptr_t)a, 8, true, PC()); }
void __tsan_write16(void* a) { plain_access((uintptr_t)a, 16, true, PC()); }
void __tsan_unaligned_read2(void* a) { plain_access((uintptr_t)a, 2, false, PC()); }
void __tsan_unaligned_read4(void* a) { plain_access((uintptr_t)a, 4, false, PC()); }
void __tsan_unaligned_read8(void* a) { plain_access((uintptr_t)a, 8, false, PC()); }
void __tsan_unaligned_read16(void* a) { plain_access((uintptr_t)a, 16, false, PC()); }
void __tsan_unaligned_write2(void* a) { plain_access((uintptr_t)a, 2, true, PC()); }
void __tsan_unaligned_write4(void* a) { plain_access((uintptr_t)a, 4, true, PC()); }
void __tsan_unaligned_write8(void* a) { plain_access((uintptr_t)a, 8, true, PC()); }
void __tsan_unaligned_write16(void* a) { plain_access((uintptr_t)a, 16, true, PC()); }
void __tsan_read1_pc(void* a, void* pc) { plain_access((uintptr_t)a, 1, false, (uintptr_t)pc); }
void __tsan_read2_pc(void* a, void* pc) { plain_access((uintptr_t)a, 2, false, (uintptr_t)pc); }
void __tsan_read4_pc(void* a, void* pc) { plain_access((uintptr_t)a, 4, false, (uintptr_t)pc); }
void __tsan_read8_pc(void* a, void* pc) { plain_access((uintptr_t)a, 8, false, (uintptr_t)pc); }
void __tsan_write1_pc(void* a, void* pc) { plain_access((uintptr_t)a, 1, true, (uintptr_t)pc); }
void __tsan_write2_pc(void* a, void* pc) { plain_access((uintptr_t)a, 2, true, (uintptr_t)pc); }
void __tsan_write4_pc(void* a, void* pc) { plain_access((uintptr_t)a, 4, true, (uintptr_t)pc); }
void __tsan_write8_pc(void* a, void* pc) { plain_access((uintptr_t)a, 8, true, (uintptr_t)pc); }
void __tsan_vptr_update(void** a, void*) { plain_access((uintptr_t)a, 8, true, PC()); }
void __tsan_vptr_read(void** a) { plain_access((uintptr_t)a, 8, false, PC()); }
void __tsan_read_range(void* a, unsigned long n) {
  uintptr_t pc = PC();
  for (unsigned long i = 0; i < n && i < 256; i += 8)
    plain_access((uintptr_t)a + i, 8, false, pc);
}
void __tsan_write_range(void* a, unsigned long n) {
  uintptr_t pc = PC();
  for (unsigned long i = 0; i < n && i < 256; i += 8)
    plain_access((uintptr_t)a + i, 8, true, pc);
}
void __tsan_func_entry(void*) {}
void __tsan_func_exit(void) {}
void __tsan_ignore_thread_begin(void) {}
void __tsan_ignore_thread_end(void) {}
} // extern C

// ---------------------------------------------------------------------------
// atomics
// ---------------------------------------------------------------------------
enum { mo_relaxed, mo_consume, mo_acquire, mo_release, mo_acq_rel, mo_seq_cst };
static inline bool is_acq(int mo) {
  return mo == mo_consume || mo == mo_acquire || mo == mo_acq_rel ||
         mo == mo_seq_cst;
}
static inline bool is_rel(int mo) {
  return mo == mo_release || mo == mo_acq_rel || mo == mo_seq_cst;
}

static inline void hb_load(Thr* me, SyncObj* o, int mo) {
  if (is_acq(mo))
    vc_join(me->vc, o->vc);
  else
    vc_join(me->pendacq, o->vc);
}
static inline void hb_store(Thr* me, SyncObj* o, int mo) {
  if (is_rel(mo)) {
    memcpy(o->vc, me->vc, sizeof o->vc);
    me->vc[me->tid]++;
  } else {
    memcpy(o->vc, me->fencerel, sizeof o->vc);
  }
}
static inline void hb_rmw_release(Thr* me, SyncObj* o, int mo) {
  if (is_rel(mo)) {
    vc_join(o->vc, me->vc);
    me->vc[me->tid]++;
  } else {
    vc_join(o->vc, me->fencerel);
  }
}

// common tail for an atomic / volatile read-like event
static inline void after_read(Thr* me, int kind, uintptr_t addr, uint64_t val,
                              uintptr_t pc, uintptr_t sp) {
  record(me, kind, addr, val, false, pc);
  bool waiting = loop_check(me, pc ^ ((uintptr_t)kind << 56), sp, addr, val);
  rset_add(me, addr >> 3);
  if (waiting) {
    // the same read-only period twice in a row: this thread is waiting
    me->ydis = true;
    g.loopmask |= 1u << me->tid;
    sched_point(me, OP_YIELD, addr, 0, pc);
  }
}
static inline void after_write(Thr* me, int kind, uintptr_t addr, uint64_t val,
                               uint64_t old, int size, uintptr_t pc,
                               uintptr_t sp) {
  record(me, kind, addr, val, true, pc);
  note_write_others(me, addr, size);
  // An atomic write is part of the thread's event sequence.  Whether the
  // thread "changed something" is decided by the NET effect of a period
  // (lock; fail; unlock; retry restores memory): see loop_check.
  wlog_first(me, addr, size, old);
  bool waiting =
      loop_check(me, pc ^ ((uintptr_t)(kind + 64) << 56), sp, addr, val);
  if (waiting) {
    me->ydis = true;
    g.loopmask |= 1u << me->tid;
    sched_point(me, OP_YIELD, addr, 0, pc);
  }
}

#define DEF_ATOMICS(T, N, SZ)                                                  \
  extern "C" T __tsan_atomic##N##_load(const volatile T* a, int mo) {          \
    Thr* me = tls_me;                                                          \
    if (!me)                                                                   \
      return __atomic_load_n(a, __ATOMIC_SEQ_CST);                             \
    uintptr_t pc = PC(), sp = SP();                                            \
    sched_point(me, OP_ALOAD, (uintptr_t)a, mo, pc);                           \
    T v = __atomic_load_n(a, __ATOMIC_SEQ_CST);                                \
    hb_load(me, sync_get((uintptr_t)a), mo);                                   \
    after_read(me, OP_ALOAD, (uintptr_t)a, (uint64_t)v, pc, sp);               \
    return v;                                                                  \
  }                                                                            \
  extern "C" void __tsan_atomic##N##_store(volatile T* a, T v, int mo) {       \
    Thr* me = tls_me;                                                          \
    if (!me) {                                                                 \
      __atomic_store_n(a, v, __ATOMIC_SEQ_CST);                                \
      return;                                                                  \
    }                                                                          \
    uintptr_t pc = PC(), sp = SP();                                            \
    sched_point(me, OP_ASTORE, (uintptr_t)a, mo, pc);                          \
    T old = __atomic_load_n(a, __ATOMIC_SEQ_CST);                              \
    __atomic_store_n(a, v, __ATOMIC_SEQ_CST);                                  \
    hb_store(me, sync_get((uintptr_t)a), mo);                                  \
    if (old != v)                                                              \
      after_write(me, OP_ASTORE, (uintptr_t)a, (uint64_t)v, (uint64_t)old, SZ, \
                  pc, sp);                                                     \
    else                                                                       \
      record(me, OP_ASTORE, (uintptr_t)a, (uint64_t)v, true, pc);              \
  }                                                                            \
  static inline T rmw##N(volatile T* a, T v, int mo, int op, uintptr_t pc,     \
                         uintptr_t sp) {                                       \
    Thr* me = tls_me;                                                          \
    if (me)                                                                    \
      sched_point(me, OP_ARMW, (uintptr_t)a, mo, pc);                          \
    T old = __atomic_load_n(a, __ATOMIC_SEQ_CST), nv;                          \
    switch (op) {                                                              \
    case 0: nv = v; break;                                                     \
    case 1: nv = old + v; break;                                               \
    case 2: nv = old - v; break;                                               \
    case 3: nv = old & v; break;                                               \
    case 4: nv = old | v; break;                                               \
    case 5: nv = old ^ v; break;                                               \
    default: nv = ~(old & v); break;                                           \
    }                                                                          \
    __atomic_store_n(a, nv, __ATOMIC_SEQ_CST);                                 \
    if (me) {                                                                  \
      SyncObj* o = sync_get((uintptr_t)a);                                     \
      hb_load(me, o, mo);                                                      \
      hb_rmw_release(me, o, mo);                                               \
      if (nv != old)                                                           \
        after_write(me, OP_ARMW, (uintptr_t)a, (uint64_t)nv, (uint64_t)old,    \
                    SZ, pc, sp);                                               \
      else                                                                     \
        after_read(me, OP_ARMW, (uintptr_t)a, (uint64_t)old, pc, sp);          \
    }                                                                          \
    return old;                                                                \
  }                                                                            \
  extern "C" T __tsan_atomic##N##_exchange(volatile T* a, T v, int mo) {       \
    return rmw##N(a, v, mo, 0, PC(), SP());                                    \
  }                                                                            \
  extern "C" T __tsan_atomic##N##_fetch_add(volatile T* a, T v, int mo) {      \
    return rmw##N(a, v, mo, 1, PC(), SP());                                    \
  }                                                                            \
  extern "C" T __tsan_atomic##N##_fetch_sub(volatile T* a, T v, int mo) {      \
    return rmw##N(a, v, mo, 2, PC(), SP());                                    \
  }                                                                            \
  extern "C" T __tsan_atomic##N##_fetch_and(volatile T* a, T v, int mo) {      \
    return rmw##N(a, v, mo, 3, PC(), SP());                                    \
  }                                                                            \
  extern "C" T __tsan_atomic##N##_fetch_or(volatile T* a, T v, int mo) {       \
    return rmw##N(a, v, mo, 4, PC(), SP());                                    \
  }                                                                            \
  extern "C" T __tsan_atomic##N##_fetch_xor(volatile T* a, T v, int mo) {      \
    return rmw##N(a, v, mo, 5, PC(), SP());                                    \
  }                                                                            \
  extern "C" T __tsan_atomic##N##_fetch_nand(volatile T* a, T v, int mo) {     \
    return rmw##N(a, v, mo, 6, PC(), SP());                                    \
  }                                                                            \
  static inline T cas##N(volatile T* a, T c, T v, int mo, int fmo,             \
                         uintptr_t pc, uintptr_t sp) {                         \
    Thr* me = tls_me;                                                          \
    if (me)                                                                    \
      sched_point(me, OP_ACAS, (uintptr_t)a, mo, pc);                          \
    T old = __atomic_load_n(a, __ATOMIC_SEQ_CST);                              \
    if (old == c)                                                              \
      __atomic_store_n(a, v, __ATOMIC_SEQ_CST);                                \
    if (me) {                                                                  \
      SyncObj* o = sync_get((uintptr_t)a);                                     \
      if (old == c) {                                                          \
        hb_load(me, o, mo);                                                    \
        hb_rmw_release(me, o, mo);                                             \
        if (v != old)                                                          \
          after_write(me, OP_ACAS, (uintptr_t)a, (uint64_t)v, (uint64_t)old,   \
                      SZ, pc, sp);                                             \
        else                                                                   \
          after_read(me, OP_ACAS, (uintptr_t)a, (uint64_t)old, pc, sp);        \
      } else {                                                                 \
        hb_load(me, o, fmo);                                                   \
        after_read(me, OP_ACAS, (uintptr_t)a, (uint64_t)old, pc, sp);          \
      }                                                                        \
    }                                                                          \
    return old;                                                                \
  }                                                                            \
  extern "C" int __tsan_atomic##N##_compare_exchange_strong(                   \
      volatile T* a, T* c, T v, int mo, int fmo) {                             \
    T old = cas##N(a, *c, v, mo, fmo, PC(), SP());                             \
    if (old == *c)                                                             \
      return 1;                                                                \
    *c = old;                                                                  \
    return 0;                                                                  \
  }                                                                            \
  extern "C" int __tsan_atomic##N##_compare_exchange_weak(                     \
      volatile T* a, T* c, T v, int mo, int fmo) {                             \
    T old = cas##N(a, *c, v, mo, fmo, PC(), SP());                             \
    if (old == *c)                                                             \
      return 1;                                                                \
    *c = old;                                                                  \
    return 0;                                                                  \
  }                                                                            \
  extern "C" T __tsan_atomic##N##_compare_exchange_val(volatile T* a, T c,     \
                                                       T v, int mo, int fmo) { \
    return cas##N(a, c, v, mo, fmo, PC(), SP());                               \
  }                                                                            \
  extern "C" void __tsan_volatile_read##SZ(void* p) {                          \
    Thr* me = tls_me;                                                          \
    if (!me)                                                                   \
      return;                                                                  \
    uintptr_t pc = PC(), sp = SP();                                            \
    sched_point(me, OP_VREAD, (uintptr_t)p, 0, pc);                            \
    T v = *(volatile T*)p;                                                     \
    after_read(me, OP_VREAD, (uintptr_t)p, (uint64_t)v, pc, sp);               \
  }                                                                            \
  extern "C" void __tsan_volatile_write##SZ(void* p) {                         \
    Thr* me = tls_me;                                                          \
    if (!me)                                                                   \
      return;                                                                  \
    uintptr_t pc = PC();                                                       \
    sched_point(me, OP_VWRITE, (uintptr_t)p, 0, pc);                           \
    /* the value is stored after we return: log the old value like a plain */  \
    /* write; the net effect is judged at the next event */                    \
    record(me, OP_VWRITE, (uintptr_t)p, 0, true, pc);                          \
    note_write_others(me, (uintptr_t)p, SZ);                                   \
    {                                                                          \
      uint64_t oldv = 0;                                                       \
      memcpy(&oldv, p, SZ);                                                    \
      wlog_first(me, (uintptr_t)p, SZ, oldv);                                  \
    }                                                                          \
  }                                                                            \
  extern "C" void __tsan_unaligned_volatile_read##SZ(void* p) {                \
    __tsan_volatile_read##SZ(p);                                               \
  }                                                                            \
  extern "C" void __tsan_unaligned_volatile_write##SZ(void* p) {               \
    __tsan_volatile_write##SZ(p);                                              \
  }

DEF_ATOMICS(uint8_t, 8, 1)
DEF_ATOMICS(uint16_t, 16, 2)
DEF_ATOMICS(uint32_t, 32, 4)
DEF_ATOMICS(uint64_t, 64, 8)

extern "C" void __tsan_volatile_read16(void* p) { __tsan_volatile_read8(p); }
extern "C" void __tsan_volatile_write16(void* p) { __tsan_volatile_write8(p); }

static void do_yield(Thr* me, uintptr_t pc, uintptr_t sp) {
  if (loop_check(me, pc, sp, 0, 0)) {
    me->ydis = true;
    g.loopmask |= 1u << me->tid;
  }
  me->yielding = true;
  sched_point(me, OP_YIELD, 0, 0, pc);
}

extern "C" void __tsan_atomic_thread_fence(int mo) {
  Thr* me = tls_me;
  if (!me) {
    __atomic_thread_fence(__ATOMIC_SEQ_CST);
    return;
  }
  uintptr_t pc = PC(), sp = SP();
  sched_point(me, OP_FENCE, 0, mo, pc);
  if (is_acq(mo))
    vc_join(me->vc, me->pendacq);
  if (is_rel(mo)) {
    memcpy(me->fencerel, me->vc, sizeof me->vc);
    me->vc[me->tid]++;
  }
  g.trace = mix(g.trace, ((uint64_t)me->tid << 56) ^ ((uint64_t)OP_FENCE << 48));
  me->h   = mix(me->h, OP_FENCE);
  // a seq_cst fence inside a loop is the ThreadPool constructor's way of
  // waiting (no pause): treat as a yield
  if (mo == mo_seq_cst)
    do_yield(me, pc, sp);
}
extern "C" void __tsan_atomic_signal_fence(int) {}

extern "C" void galois_verif_pause(void) {
  Thr* me = tls_me;
  if (!me)
    return;
  do_yield(me, PC(), SP());
}

// ---------------------------------------------------------------------------
// threads
// ---------------------------------------------------------------------------
static void* trampoline(void* p) {
  Thr* me = (Thr*)p;
  tls_me  = me;
  __atomic_store_n(&me->registered, 1, __ATOMIC_RELEASE);
  sys_futex(&me->registered, FUTEX_WAKE_PRIVATE, 1);
  park(me); // until first scheduled
  me->state = TS_RUNNING;
  void* rv  = me->fn(me->arg);
  me->retval = rv;
  // exit is a visible operation
  sched_point(me, OP_EXIT, 0, 0, 0);
  record(me, OP_EXIT, (uintptr_t)me, 0, true, 0);
  note_own_change(me);
  me->state = TS_EXITED;
  me->pend  = OP_NONE;
  tls_me    = NULL;
  // hand over
  int n = decide(me);
  g.cur = n;
  g.nswitches++;
  g.thr[n].state = TS_RUNNING;
  wake(&g.thr[n]);
  return rv;
}

extern "C" int pthread_create(pthread_t* th, const pthread_attr_t* attr,
                              void* (*fn)(void*), void* arg) {
  resolve_real();
  Thr* me = tls_me;
  if (!me)
    return real_pthread_create(th, attr, fn, arg);
  uintptr_t pc = PC();
  sched_point(me, OP_CREATE, 0, 0, pc);
  if (g.nthr >= VF_MAXT)
    finish(VF_CRASH, "engine:too-many-threads", "more than VF_MAXT threads");
  Thr* n        = &g.thr[g.nthr];
  memset(n, 0, sizeof *n);
  n->tid        = g.nthr;
  n->state      = TS_PARKED;
  n->pend       = OP_START;
  n->fn         = fn;
  n->arg        = arg;
  n->h          = mix(0x7417, n->tid);
  n->rgen       = 1;
  memcpy(n->vc, me->vc, sizeof n->vc);
  n->vc[n->tid] = 1;
  me->vc[me->tid]++;
  g.nthr++;
  int rc = real_pthread_create(&n->pth, attr, trampoline, n);
  if (rc != 0)
    finish(VF_CRASH, "engine:pthread_create", "real pthread_create failed");
  *th = n->pth;
  while (!__atomic_load_n(&n->registered, __ATOMIC_ACQUIRE))
    sys_futex(&n->registered, FUTEX_WAIT_PRIVATE, 0);
  record(me, OP_CREATE, (uintptr_t)n, n->tid, true, pc);
  note_own_change(me);
  return 0;
}

extern "C" int pthread_join(pthread_t th, void** rv) {
  resolve_real();
  Thr* me = tls_me;
  if (!me)
    return real_pthread_join(th, rv);
  int target = -1;
  for (int i = 0; i < g.nthr; ++i)
    if (i != me->tid && g.thr[i].fn && pthread_equal(g.thr[i].pth, th))
      target = i;
  if (target < 0)
    return real_pthread_join(th, rv);
  sched_point(me, OP_JOIN, 0, target, PC());
  vc_join(me->vc, g.thr[target].vc);
  record(me, OP_JOIN, (uintptr_t)&g.thr[target], target, true, 0);
  note_own_change(me);
  return real_pthread_join(th, rv);
}

// ---------------------------------------------------------------------------
// mutex / condvar / barrier (modelled; libc objects are never used)
// ---------------------------------------------------------------------------
static void model_lock(Thr* me, SyncObj* o, int kind, uintptr_t pc) {
  o->owner = me->tid + 1;
  vc_join(me->vc, o->vc);
  record(me, kind, o->addr, me->tid, true, pc);
  note_own_change(me);
}
static void model_unlock(Thr* me, SyncObj* o, int kind, uintptr_t pc) {
  o->owner = 0;
  memcpy(o->vc, me->vc, sizeof o->vc);
  me->vc[me->tid]++;
  record(me, kind, o->addr, 0, true, pc);
  note_own_change(me);
  // a waiter blocked on this mutex reads it: wake spin-disabled readers
  note_write_others(me, o->addr, 8);
}

extern "C" int pthread_mutex_lock(pthread_mutex_t* m) {
  Thr* me = tls_me;
  if (!me) {
    resolve_real();
    return real_mutex_lock(m);
  }
  uintptr_t pc = PC();
  sched_point(me, OP_MLOCK, (uintptr_t)m, 0, pc);
  model_lock(me, sync_get((uintptr_t)m), OP_MLOCK, pc);
  return 0;
}
extern "C" int pthread_mutex_trylock(pthread_mutex_t* m) {
  Thr* me = tls_me;
  if (!me) {
    resolve_real();
    return real_mutex_trylock(m);
  }
  uintptr_t pc = PC(), sp = SP();
  sched_point(me, OP_MTRYLOCK, (uintptr_t)m, 0, pc);
  SyncObj* o = sync_get((uintptr_t)m);
  if (o->owner) {
    after_read(me, OP_MTRYLOCK, (uintptr_t)m, o->owner, pc, sp);
    return EBUSY;
  }
  model_lock(me, o, OP_MTRYLOCK, pc);
  return 0;
}
extern "C" int pthread_mutex_unlock(pthread_mutex_t* m) {
  Thr* me = tls_me;
  if (!me) {
    resolve_real();
    return real_mutex_unlock(m);
  }
  uintptr_t pc = PC();
  sched_point(me, OP_MUNLOCK, (uintptr_t)m, 0, pc);
  model_unlock(me, sync_get((uintptr_t)m), OP_MUNLOCK, pc);
  return 0;
}

extern "C" int pthread_cond_wait(pthread_cond_t* c, pthread_mutex_t* m) {
  Thr* me = tls_me;
  if (!me) {
    resolve_real();
    return real_cond_wait(c, m);
  }
  uintptr_t pc = PC();
  sched_point(me, OP_CWAIT, (uintptr_t)c, 0, pc);
  model_unlock(me, sync_get((uintptr_t)m), OP_CWAIT, pc);
  me->wait_cond  = (uintptr_t)c;
  me->wait_mutex = (uintptr_t)m;
  me->signalled  = false;
  sched_point(me, OP_CWAKE, (uintptr_t)c, 0, pc);
  me->wait_cond = 0;
  model_lock(me, sync_get((uintptr_t)m), OP_CWAKE, pc);
  return 0;
}
extern "C" int pthread_cond_timedwait(pthread_cond_t* c, pthread_mutex_t* m,
                                      const struct timespec*) {
  return pthread_cond_wait(c, m);
}
extern "C" int pthread_cond_clockwait(pthread_cond_t* c, pthread_mutex_t* m,
                                      clockid_t, const struct timespec*) {
  return pthread_cond_wait(c, m);
}

static void cond_wake(Thr* me, pthread_cond_t* c, bool all, uintptr_t pc) {
  sched_point(me, all ? OP_CBCAST : OP_CSIGNAL, (uintptr_t)c, 0, pc);
  int w[VF_MAXT], nw = 0;
  for (int i = 0; i < g.nthr; ++i)
    if (g.thr[i].wait_cond == (uintptr_t)c && !g.thr[i].signalled &&
        g.thr[i].pend == OP_CWAKE)
      w[nw++] = i;
  if (nw) {
    if (all) {
      for (int i = 0; i < nw; ++i)
        g.thr[w[i]].signalled = true;
    } else {
      int k = nw > 1 ? vf_choose(nw) : 0;
      g.thr[w[k]].signalled = true;
    }
  }
  record(me, all ? OP_CBCAST : OP_CSIGNAL, (uintptr_t)c, nw, true, pc);
  note_own_change(me);
}
extern "C" int pthread_cond_signal(pthread_cond_t* c) {
  Thr* me = tls_me;
  if (!me) {
    resolve_real();
    return real_cond_signal(c);
  }
  cond_wake(me, c, false, PC());
  return 0;
}
extern "C" int pthread_cond_broadcast(pthread_cond_t* c) {
  Thr* me = tls_me;
  if (!me) {
    resolve_real();
    return real_cond_broadcast(c);
  }
  cond_wake(me, c, true, PC());
  return 0;
}

extern "C" int pthread_barrier_init(pthread_barrier_t* b,
                                    const pthread_barrierattr_t* a,
                                    unsigned count) {
  Thr* me = tls_me;
  if (!me) {
    resolve_real();
    return real_barrier_init(b, a, count);
  }
  if (count == 0)
    return EINVAL;
  SyncObj* o     = sync_get((uintptr_t)b);
  o->bar_count   = count;
  o->bar_arrived = 0;
  return 0;
}
extern "C" int pthread_barrier_destroy(pthread_barrier_t* b) {
  Thr* me = tls_me;
  if (!me) {
    resolve_real();
    return real_barrier_destroy(b);
  }
  SyncObj* o = sync_get((uintptr_t)b);
  if (o->bar_arrived)
    return EBUSY;
  o->bar_count = 0;
  return 0;
}
extern "C" int pthread_barrier_wait(pthread_barrier_t* b) {
  Thr* me = tls_me;
  if (!me) {
    resolve_real();
    return real_barrier_wait(b);
  }
  uintptr_t pc = PC();
  sched_point(me, OP_BARRIER, (uintptr_t)b, 0, pc);
  SyncObj* o = sync_get((uintptr_t)b);
  vc_join(o->vc, me->vc);
  me->vc[me->tid]++;
  me->bar_gen = o->bar_gen;
  o->bar_arrived++;
  record(me, OP_BARRIER, (uintptr_t)b, o->bar_arrived, true, pc);
  note_own_change(me);
  int serial = 0;
  if (o->bar_arrived >= o->bar_count) {
    o->bar_arrived = 0;
    o->bar_gen++;
    serial = 1;
  } else {
    sched_point(me, OP_BARRIER2, (uintptr_t)b, 0, pc);
  }
  vc_join(me->vc, o->vc);
  record(me, OP_BARRIER2, (uintptr_t)b, serial, false, pc);
  return serial ? PTHREAD_BARRIER_SERIAL_THREAD : 0;
}

// function-local static guards: libstdc++'s implementation blocks in a raw
// futex, which the scheduler cannot see.  Model them as a mutex.
extern "C" int __cxa_guard_acquire(uint64_t* gp) {
  volatile uint8_t* gb = (volatile uint8_t*)gp;
  if (gb[0])
    return 0;
  Thr* me = tls_me;
  if (!me) {
    return 1;
  }
  uintptr_t pc = PC();
  sched_point(me, OP_GUARD, (uintptr_t)gp, 0, pc);
  SyncObj* o = sync_get((uintptr_t)gp);
  model_lock(me, o, OP_GUARD, pc);
  if (gb[0]) {
    model_unlock(me, o, OP_GUARD, pc);
    return 0;
  }
  return 1;
}
extern "C" void __cxa_guard_release(uint64_t* gp) {
  *(volatile uint8_t*)gp = 1;
  Thr* me                = tls_me;
  if (!me)
    return;
  SyncObj* o = sync_get((uintptr_t)gp);
  if (o->owner == me->tid + 1)
    model_unlock(me, o, OP_GUARD, PC());
}
extern "C" void __cxa_guard_abort(uint64_t* gp) {
  Thr* me = tls_me;
  if (!me)
    return;
  SyncObj* o = sync_get((uintptr_t)gp);
  if (o->owner == me->tid + 1)
    model_unlock(me, o, OP_GUARD, PC());
}

// ---------------------------------------------------------------------------
// environment seams: /proc files, mmap flags, clock, rand
// ---------------------------------------------------------------------------
static FILE* memfd_file(const char* text, int len) {
  int fd = (int)syscall(SYS_memfd_create, "vf", 0);
  if (fd < 0)
    return NULL;
  ssize_t r = write(fd, text, len);
  (void)r;
  lseek(fd, 0, SEEK_SET);
  return fdopen(fd, "r");
}

static FILE* fake_open(const char* path) {
  if (!g.cpuinfo_len)
    return NULL;
  if (!strcmp(path, "/proc/cpuinfo"))
    return memfd_file(g.cpuinfo, g.cpuinfo_len);
  if (!strcmp(path, "/proc/self/status")) {
    char buf[128];
    int n = snprintf(buf, sizeof buf, "Name:\tvf\nCpus_allowed_list:\t0-%d\n",
                     g.ncpus - 1);
    return memfd_file(buf, n);
  }
  return NULL;
}

extern "C" FILE* fopen64(const char* path, const char* mode) {
  resolve_real();
  FILE* f = fake_open(path);
  if (f)
    return f;
  return real_fopen64(path, mode);
}
extern "C" FILE* fopen(const char* path, const char* mode) {
  resolve_real();
  FILE* f = fake_open(path);
  if (f)
    return f;
  return real_fopen(path, mode);
}

extern "C" void* mmap(void* addr, size_t len, int prot, int flags, int fd,
                      off_t off) {
  if (g.on)
    flags &= ~(MAP_POPULATE | MAP_HUGETLB);
  return (void*)syscall(SYS_mmap, addr, len, prot, flags, fd, off);
}
extern "C" void* mmap64(void* addr, size_t len, int prot, int flags, int fd,
                        off_t off) {
  if (g.on)
    flags &= ~(MAP_POPULATE | MAP_HUGETLB);
  return (void*)syscall(SYS_mmap, addr, len, prot, flags, fd, off);
}

extern "C" int clock_gettime(clockid_t id, struct timespec* ts) {
  if (!g.on) {
    resolve_real();
    return real_clock_gettime(id, ts);
  }
  g.clock_ns += g.clock_step ? g.clock_step : 1000;
  ts->tv_sec  = 1000000 + g.clock_ns / 1000000000ULL;
  ts->tv_nsec = g.clock_ns % 1000000000ULL;
  return 0;
}
// rand(): fixed LCG under the scheduler (ParallelSTL::sort picks pivots with
// rand(); libc's version takes a lock and its state survives nothing anyway)
extern "C" int rand(void) {
  if (!g.on) {
    static unsigned long s = 12345;
    s = s * 6364136223846793005UL + 1442695040888963407UL;
    return (int)((s >> 33) & 0x7fffffff);
  }
  g.rand_state = g.rand_state * 1103515245u + 12345u;
  return (int)((g.rand_state >> 1) & 0x3fffffff);
}

extern "C" int gettimeofday(struct timeval* tv, void*) {
  if (!g.on) {
    struct timespec ts;
    resolve_real();
    real_clock_gettime(CLOCK_REALTIME, &ts);
    tv->tv_sec  = ts.tv_sec;
    tv->tv_usec = ts.tv_nsec / 1000;
    return 0;
  }
  g.clock_ns += g.clock_step ? g.clock_step : 1000;
  tv->tv_sec  = 1000000 + g.clock_ns / 1000000000ULL;
  tv->tv_usec = (g.clock_ns % 1000000000ULL) / 1000;
  return 0;
}

// ---------------------------------------------------------------------------
// harness API
// ---------------------------------------------------------------------------
extern "C" void vf_set_topology(const int* sockets, int ns) {
  int o = 0, proc = 0;
  for (int s = 0; s < ns; ++s)
    for (int c = 0; c < sockets[s]; ++c) {
      o += snprintf(g.cpuinfo + o, sizeof g.cpuinfo - o,
                    "processor\t: %d\nphysical id\t: %d\nsiblings\t: %d\n"
                    "core id\t\t: %d\ncpu cores\t: %d\n\n",
                    proc, s, sockets[s], c, sockets[s]);
      proc++;
    }
  g.cpuinfo_len = o;
  g.ncpus       = proc;
}

extern "C" int vf_active(void) { return tls_me != NULL; }
extern "C" void vf_set_clock_step(uint64_t ns) { g.clock_step = ns; }
extern "C" void vf_tag(const char* t) { snprintf(g.tag, sizeof g.tag, "%s", t); }
extern "C" int vf_tid(void) { return tls_me ? tls_me->tid : -1; }
extern "C" uint64_t vf_now(void) { return g.nops; }

extern "C" void vf_window_begin(void) {
  Thr* me = tls_me;
  if (!me)
    return;
  g.window = 1;
  write_trace("# window begin at op %llu\n", (unsigned long long)g.nops);
}
extern "C" void vf_window_end(void) {
  Thr* me = tls_me;
  if (!me)
    return;
  g.window = 0;
  write_trace("# window end at op %llu, %u choice points\n",
              (unsigned long long)g.nops, g.res->nsteps);
}

extern "C" int vf_choose(int n) {
  Thr* me = tls_me;
  if (!me || n <= 1 || !g.window || !g.job->branching)
    return 0;
  VfResult* r   = g.res;
  uint32_t step = r->nsteps;
  int choice    = 0;
  if (step < VF_MAXSTEPS) {
    if (n > 8)
      n = 8;
    VfStep* s = &r->steps[step];
    s->fp     = mix(fingerprint(me), 0xc5005e);
    s->mask   = (uint8_t)((1u << n) - 1);
    s->base   = 0;
    s->kind   = 1;
    s->op     = OP_CHOOSE;
    if (g.devi < g.job->ndev && g.job->dev[g.devi].step == step) {
      choice = g.job->dev[g.devi].choice;
      if (choice <= 0 || choice >= n)
        finish(VF_DIVERGED, "engine:diverged", "env choice out of range");
      g.devi++;
    }
    s->chosen = (uint8_t)choice;
    r->nsteps = step + 1;
  } else {
    r->steps_overflow = 1;
  }
  me->h   = mix(me->h, 0xc0 + choice);
  g.trace = mix(g.trace, 0xc0 + choice);
  write_trace("%llu t%d choose %d of %d\n", (unsigned long long)g.nops,
              me->tid, choice, n);
  return choice;
}

extern "C" void vf_fail(const char* key, const char* fmt, ...) {
  char msg[600];
  va_list ap;
  va_start(ap, fmt);
  vsnprintf(msg, sizeof msg, fmt, ap);
  va_end(ap);
  if (!g.on) {
    fprintf(stderr, "vf_fail outside child: %s: %s\n", key, msg);
    abort();
  }
  finish(VF_VIOLATION, key, msg);
}
extern "C" void vf_note_fail(const char* key, const char* fmt, ...) {
  if (g.failed || !g.on)
    return;
  va_list ap;
  va_start(ap, fmt);
  vsnprintf(g.res->msg, sizeof g.res->msg, fmt, ap);
  va_end(ap);
  snprintf(g.res->key, sizeof g.res->key, "%s", key);
  g.failed = 1;
}

extern "C" void vf_log(int kind, long a, long b) {
  if (g.nlog >= LOG_CAP)
    return;
  vf_log_entry* e = &g.log[g.nlog++];
  e->time         = g.nops;
  e->tid          = tls_me ? tls_me->tid : -1;
  e->kind         = kind;
  e->a            = a;
  e->b            = b;
  if (g.job && g.job->trace_fd >= 0)
    write_trace("%llu t%d LOG kind=%d a=%ld b=%ld\n",
                (unsigned long long)g.nops, e->tid, kind, a, b);
}
extern "C" int vf_log_count(void) { return g.nlog; }
extern "C" const vf_log_entry* vf_log_get(int i) { return &g.log[i]; }
extern "C" void vf_outcome(uint64_t v) { g.outcome = mix(g.outcome, v); }
extern "C" void vf_same_across_schedules(uint64_t v) {
  if (!g.res)
    return;
  g.res->same_hash = mix(g.res->same_hash, v);
  g.res->has_same  = 1;
}
extern "C" void vf_probe(const void* addr, size_t n, const char* name) {
  if (g.nprobes >= MAX_PROBES)
    return;
  g.probes[g.nprobes].lo = (uintptr_t)addr;
  g.probes[g.nprobes].hi = (uintptr_t)addr + n;
  snprintf(g.probes[g.nprobes].name, sizeof g.probes[0].name, "%s", name);
  g.nprobes++;
}

extern "C" void vf_child_begin(const VfJob* job, VfResult* res) {
  resolve_real();
  g.job = job;
  g.res = res;
  memset((void*)res, 0, offsetof(VfResult, races));
  g_sync = (SyncObj*)syscall(SYS_mmap, NULL, sizeof(SyncObj) * SYNC_SLOTS,
                             PROT_READ | PROT_WRITE,
                             MAP_PRIVATE | MAP_ANONYMOUS | MAP_NORESERVE, -1, 0);
  g_shadow = (Shadow*)syscall(SYS_mmap, NULL, sizeof(Shadow) * SHADOW_SLOTS,
                              PROT_READ | PROT_WRITE,
                              MAP_PRIVATE | MAP_ANONYMOUS | MAP_NORESERVE, -1, 0);
  if (g_sync == MAP_FAILED || g_shadow == MAP_FAILED)
    finish(VF_CRASH, "engine:mmap", "cannot map engine tables");
  setenv("GALOIS_DO_NOT_BIND_THREADS", "1", 1);
  struct sigaction sa;
  memset(&sa, 0, sizeof sa);
  sa.sa_handler = on_signal;
  sa.sa_flags   = SA_NODEFER;
  int sigs[]    = {SIGSEGV, SIGABRT, SIGBUS, SIGFPE, SIGILL};
  for (int s : sigs)
    sigaction(s, &sa, NULL);
  Thr* me   = &g.thr[0];
  memset(me, 0, sizeof *me);
  me->tid   = 0;
  me->state = TS_RUNNING;
  me->vc[0] = 1;
  me->h     = mix(0x7417, 0);
  me->rgen  = 1;
  g.nthr    = 1;
  g.cur     = 0;
  g.trace   = 0x1234;
  tls_me    = me;
  g.on      = 1;
}

extern "C" void vf_child_end(void) { finish(VF_PASS, "", ""); }
extern "C" void vf_finish(void) { finish(VF_PASS, "", ""); }

// gsched: controlled scheduler + schedule explorer for real Galois code.
// Public API for harness translation units.  See DESIGN.md section 2.
#ifndef VERIF_GSCHED_H
#define VERIF_GSCHED_H

#include <stddef.h>
#include <stdint.h>

#ifdef __cplusplus
#include <functional>
#include <string>
#include <vector>
extern "C" {
#endif

// ---- window: branching happens only between begin and end -----------------
void vf_window_begin(void);
void vf_window_end(void);

// environment choice with n alternatives; default answer is 0; any other
// answer costs one deviation.
int vf_choose(int n);

// report a property violation for this execution and end it.
//   key : stable, schedule-independent identification of WHAT failed
//         (component:configuration:symptom) -- used for known findings
void vf_fail(const char* key, const char* fmt, ...)
    __attribute__((format(printf, 2, 3), noreturn));
// like vf_fail but returns (keeps first failure; execution ends at case end)
void vf_note_fail(const char* key, const char* fmt, ...)
    __attribute__((format(printf, 2, 3)));

// ledger: harness-side log that is neither a visible operation nor a
// happens-before edge.  Entries get the engine's logical time (number of
// visible operations executed so far).
void vf_log(int kind, long a, long b);
int vf_log_count(void);
struct vf_log_entry {
  uint64_t time;
  int tid;
  int kind;
  long a, b;
};
const struct vf_log_entry* vf_log_get(int i);
uint64_t vf_now(void); // logical clock
int vf_tid(void);      // engine thread id of caller (creation order)

// observable outcome of this execution (for counting distinct outcomes and
// for differential oracles across schedules): harness feeds values.
void vf_outcome(uint64_t v);
// Differential oracle across executions of one case: all executions must
// report the same value under the same tag (checked in the explorer).
void vf_same_across_schedules(uint64_t v);

// happens-before probes (C06): plain memory that must never race.
void vf_probe(const void* addr, size_t n, const char* name);

// fake machine: socket sizes, e.g. {2,1} = 3 threads, sockets of 2 and 1.
void vf_set_topology(const int* sockets, int nsockets);

// prefix for keys of engine-detected verdicts (deadlock, livelock, horizon,
// crash) so that a finding names the component/configuration it is about
void vf_tag(const char* tag);

// logical clock: every clock_gettime()/gettimeofday() advances time by `ns`
// (default 1000); lets a harness make timeouts always / never fire
void vf_set_clock_step(uint64_t ns);

// end this execution now with verdict PASS (skips runtime teardown)
void vf_finish(void) __attribute__((noreturn));

// is the calling process a scheduled child?
int vf_active(void);

#ifdef __cplusplus
}

#define VF_NOINSTR __attribute__((no_sanitize("thread")))

struct VfCase {
  std::string name;          // cell name; appears in evidence and finding keys
  int quick_bound;           // deviation bound for the quick tier (-1: skip)
  int thorough_bound;        // deviation bound for the thorough tier (-1: skip)
  std::function<void()> body; // runs in the child, under the scheduler
  int weight = 1;            // relative share of the deadline
};

// Runs the explorer CLI.  Returns process exit code.
int vf_main(int argc, char** argv, const char* property,
            std::vector<VfCase>& cases);

inline void vf_topology(std::initializer_list<int> s) {
  std::vector<int> v(s);
  vf_set_topology(v.data(), (int)v.size());
}
#endif

#endif

// C04 (call granularity): explicit-state BFS over ALL interleavings of
// termination-detector calls, with k impersonated threads, explored to a
// fixpoint (the state space is finite once the number of work hand-overs is
// bounded).  Engine E2 (seqx).  DESIGN.md 2.8, 7/C04.
#include "seqx.h"

#include "impersonate.h"

#include "galois/substrate/Termination.h"

#include <sstream>

using galois::substrate::TerminationDetection;
using galois::substrate::internal::LocalTerminationDetection;
using galois::substrate::internal::TreeTerminationDetection;

static Impersonate* imp;
static void ensure_runtime() {
  static galois::SharedMemSys* G = nullptr;
  if (!G) {
    G   = new galois::SharedMemSys();
    imp = new Impersonate();
    imp->capture(4);
  }
}

// operations: for k threads (a thread cycles  work* ; poll ; report  exactly
// like for_each: run the queue until a pop fails, then report)
//   poll(i)            thread i finds its queue empty (enabled iff it is)
//   report(i)          after a poll: localTermination(did_i); did_i := false
//                      (work may have ARRIVED between poll and report)
//   work(i)            thread i finishes one unit it holds (did_i := true)
//   give(i, i+1)       thread i finishes a unit and hands a new one to i+1
//   give(i, i-1)       ... to i-1  (work returning to a thread "behind")
//   rearm              (only after termination) re-initialise with k2 threads
struct Cfg {
  std::string det; // "ring" | "tree"
  int k;           // threads in the first loop
  int k2;          // threads after re-arm (0 = no re-arm)
  int spawn;       // hand-over budget per loop
  std::vector<int> init; // initial units per thread
};

struct Sys {
  Cfg cfg;
  TerminationDetection* term = nullptr;
  LocalTerminationDetection<>* ring = nullptr;
  TreeTerminationDetection<>* tree  = nullptr;
  int k;
  int work[4] = {0, 0, 0, 0};
  bool did[4] = {false, false, false, false};
  bool polled[4] = {false, false, false, false};
  int spawned = 0;
  int loop    = 0;
  int inplace = 0;
  bool seen_term = false;

  explicit Sys(const Cfg& c) : cfg(c), k(c.k) {
    ensure_runtime();
    if (c.det == "ring") {
      ring = new LocalTerminationDetection<>();
      term = ring;
    } else {
      tree = new TreeTerminationDetection<>();
      term = tree;
    }
    arm(c.k);
    for (int i = 0; i < k; ++i)
      work[i] = i < (int)c.init.size() ? c.init[i] : 0;
  }
  ~Sys() {
    imp->restore();
    delete term;
  }
  void arm(int n) {
    k = n;
    term->init(n);
    for (int i = 0; i < n; ++i) {
      imp->as(i);
      term->initializeThread();
    }
    imp->restore();
    for (int i = 0; i < 4; ++i) {
      work[i]   = 0;
      did[i]    = false;
      polled[i] = false;
    }
    spawned   = 0;
    seen_term = false;
  }
  int total() const {
    int s = 0;
    for (int i = 0; i < k; ++i)
      s += work[i];
    return s;
  }
  bool any_did() const {
    for (int i = 0; i < k; ++i)
      if (did[i])
        return true;
    return false;
  }
  std::string tagname() const { return "term=" + cfg.det; }

  void check_sound(const char* after) {
    if (term->globalTermination()) {
      if (total() > 0 || any_did())
        sx::fail(tagname() + ":premature-termination",
                 "globalTermination() is true after %s while %d units are "
                 "held and unreported work=%d (k=%d, loop %d)",
                 after, total(), (int)any_did(), k, loop);
      seen_term = true;
    } else if (seen_term) {
      sx::fail(tagname() + ":termination-retracted",
               "globalTermination() went back to false after %s", after);
    }
  }

  // returns false if the op is not enabled in this state (treated as no-op)
  bool apply(int op) {
    const int NT = 4; // op encoding uses 4 slots per kind
    int kind = op / NT, i = op % NT;
    if (kind != 4 && i >= k)
      return false;
    bool terminated = term->globalTermination();
    switch (kind) {
    case 5: // poll: the thread's pop failed
      if (polled[i] || work[i] > 0)
        return false;
      polled[i] = true;
      return true;
    case 0: { // report
      if (!polled[i])
        return false;
      polled[i] = false;
      imp->as(i);
      term->localTermination(did[i]);
      imp->restore();
      did[i] = false;
      check_sound("report");
      return true;
    }
    case 1: // work
      if (terminated || work[i] == 0 || polled[i])
        return false;
      work[i]--;
      did[i] = true;
      return true;
    case 2:   // give to i+1
    case 3: { // give to i-1
      if (terminated || work[i] == 0 || polled[i] || spawned >= cfg.spawn ||
          k < 2)
        return false;
      int j = kind == 2 ? (i + 1) % k : (i + k - 1) % k;
      work[i]--;
      work[j]++;
      did[i] = true;
      spawned++;
      return true;
    }
    case 6: { // re-arm IN PLACE: what the executors do between rounds --
              // every thread calls initializeThread() again on the detector
              // it already holds (no init(), same thread count), then a
              // barrier; new work exists afterwards
      if (i != 0 || !terminated || inplace >= 1)
        return false;
      inplace++;
      for (int t = 0; t < k; ++t) {
        imp->as(t);
        term->initializeThread();
      }
      imp->restore();
      for (int t = 0; t < 4; ++t) {
        work[t]   = 0;
        did[t]    = false;
        polled[t] = false;
      }
      spawned   = 0;
      seen_term = false;
      work[k - 1] = 1;
      check_sound("in-place re-arm");
      return true;
    }
    default: // rearm
      if (kind != 4 || i != 0 || !terminated || cfg.k2 == 0 || loop >= 1)
        return false;
      loop++;
      arm(cfg.k2);
      work[0] = 1;
      if (cfg.k2 > 1)
        work[cfg.k2 - 1] = 1;
      check_sound("re-arm");
      return true;
    }
  }

  std::string key() {
    std::ostringstream o;
    o << "L" << loop << "i" << inplace << " k" << k << " sp" << spawned << " g"
      << term->globalTermination() << " |";
    for (int i = 0; i < k; ++i) {
      o << " w" << work[i] << (did[i] ? "d" : "-") << (polled[i] ? "p" : "-");
      if (ring) {
        auto& th = *ring->data.getRemote(i);
        o << ":" << th.tokenIsBlack.load() << th.hasToken.load()
          << th.processIsBlack << (i == 0 ? (int)th.lastWasWhite : 0);
      } else {
        auto& th = *tree->data.getRemote(i);
        o << ":" << th.down_token << "," << th.up_token[0] << ","
          << th.up_token[1] << "," << th.processIsBlack << th.hasToken
          << (i == 0 ? (int)th.lastWasWhite : 0);
      }
    }
    return o.str();
  }
};

static std::string opname(int op) {
  static const char* kinds[] = {"report", "work",  "give+1",       "give-1",
                                "rearm",  "poll",  "rearm-in-place"};
  return std::string(kinds[op / 4]) + "(" + std::to_string(op % 4) + ")";
}

// bounded liveness: from an all-idle state, round-robin idle reports must
// reach global termination within 3k+2 rounds
static void check_live(const Cfg& cfg, const std::vector<int>& hist) {
  Sys s(cfg);
  for (int op : hist)
    s.apply(op);
  if (s.total() > 0)
    return;
  int limit = (3 * s.k + 2) * s.k;
  try {
    for (int r = 0; r < limit && !s.term->globalTermination(); ++r) {
      s.apply(5 * 4 + (r % s.k)); // poll (no-op if already polled)
      s.apply(0 * 4 + (r % s.k)); // report
    }
  } catch (sx::Fail& f) {
    f.msg += " (during the round-robin poll/report calls appended after the "
             "history)";
    throw;
  }
  if (!s.term->globalTermination())
    sx::fail(s.tagname() + ":no-termination",
             "all %d threads idle but %d round-robin idle reports did not "
             "produce global termination",
             s.k, limit);
}

static sx::BfsCase make_case(Cfg cfg) {
  sx::BfsCase c;
  std::ostringstream n;
  n << "term=" << cfg.det << " k=" << cfg.k << " rearm=" << cfg.k2
    << " handovers<=" << cfg.spawn << " init=";
  for (size_t i = 0; i < cfg.init.size(); ++i)
    n << (i ? "," : "") << cfg.init[i];
  c.name   = n.str();
  c.nops   = 7 * 4;
  c.opname = opname;
  c.run    = [cfg](const std::vector<int>& hist) {
    std::string key;
    bool last_enabled = true;
    {
      Sys s(cfg);
      for (size_t i = 0; i < hist.size(); ++i)
        last_enabled = s.apply(hist[i]);
      if (!hist.empty() && !last_enabled)
        return std::string(); // op not enabled: no successor state
      key = s.key();
      if (s.loop > 0 || s.inplace > 0 || s.spawned > 0)
        sx::mark_nontrivial();
      sx::outcome(s.term->globalTermination() * 2 + (s.total() > 0));
    }
    check_live(cfg, hist);
    return key;
  };
  c.quick_depth    = 60; // explored to a fixpoint well before this
  c.thorough_depth = 200;
  return c;
}

int main(int argc, char** argv) {
  std::vector<sx::BfsCase> bfs;
  bool thorough = false;
  for (int i = 1; i < argc; ++i)
    if (std::string(argv[i]) == "thorough")
      thorough = true;
  // The detectors only touch per-thread storage and the caller's identity, so
  // the runtime can be created once here; forked workers inherit the memory
  // and impersonate the (vanished) pool threads from their single thread.
  bool listing = false;
  for (int i = 1; i < argc; ++i)
    if (std::string(argv[i]) == "--list")
      listing = true;
  if (!listing)
    ensure_runtime();
  for (const char* det : {"ring", "tree"}) {
    bfs.push_back(make_case(Cfg{det, 1, 0, 0, {1}}));
    bfs.push_back(make_case(Cfg{det, 2, 0, 2, {1, 0}}));
    bfs.push_back(make_case(Cfg{det, 2, 1, 1, {1, 1}}));
    bfs.push_back(make_case(Cfg{det, 3, 2, 2, {1, 0, 0}}));
    bfs.push_back(make_case(Cfg{det, 2, 3, 1, {0, 1}}));
    if (thorough) {
      bfs.push_back(make_case(Cfg{det, 3, 0, 3, {1, 0, 1}}));
      bfs.push_back(make_case(Cfg{det, 4, 0, 2, {1, 0, 0, 0}}));
      bfs.push_back(make_case(Cfg{det, 4, 3, 1, {0, 0, 0, 1}}));
    }
  }
  return sx::sx_main(argc, argv, "C04", bfs, {});
}

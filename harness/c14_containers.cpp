// C14: Galois sequential containers behave like their standard counterparts.
// Engine E2 (seqx): history BFS per container + input enumeration for the
// two-level iterators and range constructors.  DESIGN.md 7/C14.
//
// Every BFS case rebuilds a fresh container and a fresh std:: reference from
// the history, and after EVERY operation compares the return value, size,
// full forward and backward traversal (const and non-const) and the number of
// live element instances (c14_elem.h: registry that also reports double
// construction / double destruction / use of dead or moved-from objects).
// The dedup key is the physical layout (block chain with ring start / fill,
// array capacity ...) plus the values.
//
// Not in any alphabet, on purpose:
//  * gdeque::erase       - GALOIS_DIE("not yet implemented") in the header
//  * gdeque::operator[]  - only exists under the disabled _NEW_ITERATOR
//  * pop/front/top on an empty container where the header asserts
//  * flat_map::upper_bound / equal_range / ==, LazyArray::at,
//    optional<U> conversion, TwoLevelFwdIter::operator-> - they do not
//    compile when instantiated; reported by the "compile probe" case
#include "seqx.h"

#include "c14_assoc.h"
#include "c14_elem.h"
#include "c14_rt.h"
#include "c14_seq.h"
#include "c14_twolevel.h"

#include "galois/Galois.h"

namespace c14 {
static pid_t g_main_pid   = 0;
static bool g_replay_mode = false;

// The Galois runtime must be created inside the (forked) worker, lazily.
void need_runtime() {
  static galois::SharedMemSys* G = nullptr;
  if (!G) {
    G = new galois::SharedMemSys();
    galois::setActiveThreads(1);
  }
}
// seqx evaluates the empty history once in the parent process; cases that
// need the runtime answer that call with the (known) key of the empty state
// instead of starting threads that would not survive fork().
bool parent_root(const std::vector<int>& hist) {
  return hist.empty() && getpid() == g_main_pid && !g_replay_mode;
}
} // namespace c14

using namespace c14;

template <class F>
static sx::BfsCase mk(const std::string& name, int nops,
                      const char* const* names, F run, int qd, int td,
                      int weight = 1) {
  sx::BfsCase c;
  c.name           = name;
  c.nops           = nops;
  c.opname         = [names](int i) { return std::string(names[i]); };
  c.run            = run;
  c.quick_depth    = qd;
  c.thorough_depth = td;
  c.weight         = weight;
  return c;
}

// gdeque needs the runtime for its FixedSizeAllocator: wrap the root call
template <class T, unsigned N>
static std::string gdeque_run(const std::vector<int>& h) {
  if (parent_root(h))
    return "";
  return GDequeCase<T, N>::run(h);
}

int main(int argc, char** argv) {
  g_main_pid = getpid();
  for (int i = 1; i < argc; ++i)
    if (std::string(argv[i]) == "--replay")
      g_replay_mode = true;

  std::vector<sx::BfsCase> bfs;
  std::vector<sx::EnumCase> en;

  // Order: cheap cases first, the big state spaces (POD array, chunked
  // deque) last.  seqx hands a case `time left x weight / weight left`, so the
  // late cases inherit whatever the early ones did not use; weights are
  // proportional to the measured cost of the thorough tier.
  auto push = [&](sx::BfsCase c, int weight) {
    c.weight = weight;
    bfs.push_back(c);
  };
  // ---- fixed-size ring and bags -------------------------------------------
  push(RingCase<3>::make(5, 8), 1);
  push(RingCase<2>::make(5, 8), 1);
  push(mk("FixedSizeRing<Elem,3> const rbegin()/rend()", 4, CRING_OPS,
          cring_run, 3, 4),
       1);
  push(mk("FixedSizeBag<Elem,3> vs bounded multiset", BAG_NOPS, BAG_OPS,
          bag_run, 5, 8),
       1);
  push(mk("ConcurrentFixedSizeBag<Elem,3> used by one thread", CBAG_NOPS,
          CBAG_OPS, cbag_run, 5, 8),
       1);
  // ---- lazy storage, optional ---------------------------------------------
  push(mk("LazyArray<Elem,3> manual lifetime", LA_NOPS, LA_OPS, la_run, 4, 7),
       1);
  push(mk("LazyObject<Elem> manual lifetime", LO_NOPS, LO_OPS, lo_run, 5, 8),
       1);
  push(mk("optional<Elem> vs std::optional", OPT_NOPS, OPT_OPS, opt_run, 4, 7),
       1);
  // ---- chunked singly linked list -----------------------------------------
  push(GslistCase<2>::make(5, 10), 2);
  push(GslistCase<3>::make(5, 10), 2);
  // ---- flat map -----------------------------------------------------------
  push(mk("flat_map<int,Elem> vs std::map", FM_NOPS, FM_OPS, FlatMapCase::run,
          4, 8),
       3);
  // ---- priority queues -------------------------------------------------------
  push(PqCase<galois::MinHeap<int>, false, std::less<int>, true>::make(
           "MinHeap<int>", 5, 9),
       2);
  push(PqCase<galois::MinHeap<int, std::greater<int>>, false,
              std::greater<int>, true>::make("MinHeap<int,std::greater>", 5, 9),
       2);
  push(PqCase<galois::ThreadSafeMinHeap<int>, false, std::less<int>,
              true>::make("ThreadSafeMinHeap<int>", 5, 9),
       2);
  push(PqCase<galois::ThreadSafeOrderedSet<int>, true, std::less<int>,
              true>::make("ThreadSafeOrderedSet<int>", 5, 9),
       1);
  push(PqCase<galois::MinHeap<int>, false, std::less<int>, false>::make(
           "MinHeap<int>", 2, 3),
       1);
  push(PqCase<galois::ThreadSafeOrderedSet<int>, true, std::less<int>,
              false>::make("ThreadSafeOrderedSet<int>", 2, 3),
       1);
  // ---- insert bag -------------------------------------------------------------
  push(InsertBagCase<56>::make(4, 8), 3);
  push(InsertBagCase<64>::make(4, 8), 3);
  // ---- large array ----------------------------------------------------------
  push(mk("LargeArray<Elem> allocation x lifetime", LG_NOPS, LG_OPS, lg_run, 4,
          7),
       2);
  // ---- POD array ------------------------------------------------------------
  push(mk("PODResizeableArray<int> push_back of own element", 4, PODA_OPS,
          poda_run, 4, 8),
       1);
  push(mk("PODResizeableArray<int> vs std::vector", POD_NOPS, POD_OPS,
          PodCase::run, 4, 7),
       5);
  // ---- chunked deque ----------------------------------------------------
  {
    auto c = GDequeCase<int, 2>::make(4, 7);
    c.run  = gdeque_run<int, 2>;
    push(c, 6);
    c     = GDequeCase<Elem, 3>::make(5, 7);
    c.run = gdeque_run<Elem, 3>;
    push(c, 10);
    c     = GDequeCase<Elem, 2>::make(4, 8);
    c.run = gdeque_run<Elem, 2>;
    push(c, 24);
  }

  // ---- enumerations -----------------------------------------------------------
  {
    sx::EnumCase c;
    c.name     = "TwoLevelIteratorA / TwoLevelIterator over all small shapes";
    c.count    = [](bool th) { return tl_nshapes(th) * TL_NVAR; };
    c.run      = tl_run;
    c.describe = tl_describe;
    en.push_back(c);
  }
  {
    sx::EnumCase c;
    c.name     = "flat_map(first,last) vs std::map(first,last)";
    c.count    = FlatMapRange::count;
    c.run      = FlatMapRange::run;
    c.describe = FlatMapRange::describe;
    en.push_back(c);
  }
  {
    sx::EnumCase c;
    c.name     = "priority queue range constructors";
    c.count    = PqRange::count;
    c.run      = PqRange::run;
    c.describe = PqRange::describe;
    en.push_back(c);
  }
  {
    sx::EnumCase c;
    c.name     = "Pair / TupleOfThree vs std::pair / std::tuple";
    c.count    = [](bool) { return (uint64_t)27; };
    c.run      = tuple_run;
    c.describe = [](uint64_t i, bool) {
      return "values " + std::to_string(i % 3) + "," +
             std::to_string((i / 3) % 3) + "," + std::to_string((i / 9) % 3);
    };
    en.push_back(c);
  }
  {
    sx::EnumCase c;
    c.name     = "public members instantiate (compile probe)";
    c.count    = [](bool) { return (uint64_t)NPROBES; };
    c.run      = probe_run;
    c.describe = [](uint64_t i, bool) { return std::string(PROBES[i].what); };
    // A member that does not compile cannot occur in "a sequence of
    // operations": compile probes are outside C14's statement.  They are kept
    // as an opt-in diagnostic only.
    if (getenv("VERIF_COMPILE_PROBES"))
      en.push_back(c);
  }
  // Watchdog: a history on which the library spins forever (it happens:
  // ThreadSafeOrderedSet::remove on an empty set) must end as a crash verdict
  // for that history instead of hanging the level.  Only armed in workers.
  for (auto& c : bfs) {
    auto inner = c.run;
    c.run      = [inner](const std::vector<int>& h) -> std::string {
      bool arm = getpid() != g_main_pid || g_replay_mode;
      if (arm)
        alarm(30);
      try {
        std::string k = inner(h);
        if (arm)
          alarm(0);
        return k;
      } catch (...) {
        if (arm)
          alarm(0);
        throw;
      }
    };
  }
  return sx::sx_main(argc, argv, "C14", bfs, en);
}

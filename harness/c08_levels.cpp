// C08: level-synchronous schedulers run strictly level by level.
// Engine E1 (gsched).  DESIGN.md 7/C08.
#include "fe_common.h"

#include <map>

FeState fe;

using namespace galois::worklists;

static std::string g_tag;

// creation round of every item of a program: initial = 0, child = parent + 1
static std::vector<int> rounds_of(const Program& P) {
  std::vector<int> r(P.items.size(), -1);
  for (int i = 0; i < P.ninit; ++i)
    r[i] = 0;
  bool ch = true;
  while (ch) {
    ch = false;
    for (size_t i = 0; i < P.items.size(); ++i) {
      if (r[i] < 0)
        continue;
      for (auto* l : {&P.items[i].pre, &P.items[i].post})
        for (int c : *l)
          if (r[c] < 0) {
            r[c] = r[i] + 1;
            ch   = true;
          }
    }
  }
  return r;
}
static std::vector<int> parents_of(const Program& P) {
  std::vector<int> p(P.items.size(), -1);
  for (size_t i = 0; i < P.items.size(); ++i)
    for (auto* l : {&P.items[i].pre, &P.items[i].post})
      for (int c : *l)
        p[c] = (int)i;
  return p;
}

// (a) bulk-synchronous: no item created during round r starts before every
// item of round r has committed
VF_NOINSTR static void check_rounds(const Program& P) {
  std::vector<int> R = rounds_of(P);
  int n              = vf_log_count();
  std::vector<int> commit_at(P.items.size(), -1);
  for (int i = 0; i < n; ++i) {
    const vf_log_entry* e = vf_log_get(i);
    if (e->kind == K_COMMIT && commit_at[e->a] < 0)
      commit_at[e->a] = i;
  }
  for (int i = 0; i < n; ++i) {
    const vf_log_entry* e = vf_log_get(i);
    if (e->kind != K_ATTEMPT)
      continue;
    int x = (int)e->a;
    for (size_t y = 0; y < P.items.size(); ++y)
      if (R[y] >= 0 && R[y] < R[x] && (commit_at[y] < 0 || commit_at[y] > i))
        vf_fail((g_tag + ":round-overtaken").c_str(),
                "program %s: item %d (round %d) started (ledger #%d) before "
                "item %zu of round %d committed (ledger #%d)",
                P.name.c_str(), x, R[x], i, y, R[y], commit_at[y]);
  }
}

// (b) priority scheduling with barrier: no item starts while an existing item
// of strictly higher urgency is uncommitted
VF_NOINSTR static void check_priorities(const Program& P, bool descending) {
  std::vector<int> par = parents_of(P);
  int n                = vf_log_count();
  std::vector<int> commit_at(P.items.size(), -1);
  for (int i = 0; i < n; ++i) {
    const vf_log_entry* e = vf_log_get(i);
    if (e->kind == K_COMMIT && commit_at[e->a] < 0)
      commit_at[e->a] = i;
  }
  for (int i = 0; i < n; ++i) {
    const vf_log_entry* e = vf_log_get(i);
    if (e->kind != K_ATTEMPT)
      continue;
    int x = (int)e->a;
    for (size_t y = 0; y < P.items.size(); ++y) {
      bool more_urgent = descending ? P.items[y].prio > P.items[x].prio
                                    : P.items[y].prio < P.items[x].prio;
      if (!more_urgent)
        continue;
      bool exists = par[y] < 0 || (commit_at[par[y]] >= 0 && commit_at[par[y]] < i);
      bool committed = commit_at[y] >= 0 && commit_at[y] < i;
      if (exists && !committed)
        vf_fail((g_tag + ":priority-inversion").c_str(),
                "program %s: item %d (priority %d) started (ledger #%d) while "
                "item %zu (priority %d) existed and was uncommitted",
                P.name.c_str(), x, P.items[x].prio, i, y, P.items[y].prio);
    }
  }
}

typedef std::function<void(const Program&, bool)> Runner;
template <typename WL>
static Runner R() {
  return [](const Program& p, bool cd) { fe_run<WL>(p, cd); };
}

static void level_case(Runner run, std::string wl, int mode, Program prog,
                       bool cd, std::vector<int> topo, int T) {
  vf_set_topology(topo.data(), (int)topo.size());
  g_tag = "wl=" + wl + ":cd=" + (cd ? "on" : "off");
  vf_tag(g_tag.c_str());
  galois::SharedMemSys G;
  galois::setActiveThreads(T);
  fe_reset(prog);
  vf_window_begin();
  run(prog, cd);
  vf_window_end();
  fe_check_conservation(g_tag);
  if (mode == 0)
    check_rounds(prog);
  else
    check_priorities(prog, mode == 2);
  uint64_t o = 0;
  for (int i = 0; i < vf_log_count(); ++i)
    if (vf_log_get(i)->kind == K_COMMIT)
      o = o * 11 + vf_log_get(i)->a;
  vf_outcome(o);
  vf_finish();
}

static std::vector<Program> level_programs() {
  std::vector<Program> v;
  for (auto& p : fe_programs())
    if (!p.needs_cd())
      v.push_back(p);
  // sparse priorities and a deeper monotone tree
  auto item = [](std::vector<int> acq, std::vector<int> post, int prio) {
    ItemProg p;
    p.acq  = acq;
    p.post = post;
    p.prio = prio;
    return p;
  };
  {
    Program p;
    p.name  = "sparse";
    p.ninit = 3;
    p.items = {item({0}, {3}, 0), item({1}, {4}, 7), item({}, {}, 21),
               item({1}, {}, 7), item({0}, {5}, 7), item({}, {}, 21)};
    v.push_back(p);
  }
  {
    Program p;
    p.name  = "same-level-push"; // children at the parent's own level
    p.ninit = 2;
    p.items = {item({0}, {2}, 1), item({0}, {3}, 1), item({}, {4}, 1),
               item({}, {}, 2), item({}, {}, 2)};
    v.push_back(p);
  }
  {
    // three threads on one socket each start with one item: two of a LATE
    // level and one of the earliest, which fans out at its own level; the
    // helpers (who last popped at the late level) then create work of a level
    // in between.  That work sits in the helper's private chunk: only its
    // creator can announce it at the next level switch
    Program p;
    p.name  = "help-mid";
    p.ninit = 3;
    p.items = {item({}, {}, 2),  item({}, {}, 2), item({}, {3, 4, 5}, 0),
               item({}, {6}, 0), item({}, {}, 0), item({}, {}, 0),
               item({}, {}, 1)};
    v.push_back(p);
    // ... and with two such items (the second one publishes the first)
    p.name  = "help-mid2";
    p.items = {item({}, {}, 2),        item({}, {}, 2),  item({}, {3, 4, 5}, 0),
               item({}, {6}, 0),       item({}, {7}, 0), item({}, {}, 0),
               item({}, {}, 1),        item({}, {}, 1)};
    v.push_back(p);
  }
  return v;
}

static Program negate_prio(Program p) {
  for (auto& i : p.items)
    i.prio = 30 - i.prio;
  p.name += "-desc";
  return p;
}

int main(int argc, char** argv) {
  std::vector<VfCase> cases;
  std::map<std::string, Program> P;
  for (auto& p : level_programs())
    P[p.name] = p;
  auto add = [&](std::string wl, Runner r, int mode, const Program& p, bool cd,
                 std::vector<int> topo, int T, int qb, int tb, int w = 1) {
    VfCase c;
    c.name = "levels wl=" + wl + " cd=" + (cd ? "on" : "off") +
             " prog=" + p.name + " topo=" + fe_topo_str(topo) +
             " T=" + std::to_string(T);
    c.quick_bound    = qb;
    c.thorough_bound = tb;
    c.weight         = w;
    c.body = [=]() { level_case(r, wl, mode, p, cd, topo, T); };
    cases.push_back(c);
  };
  typedef PerSocketChunkFIFO<1> C1;
  // (a) bulk-synchronous
  for (bool cd : {false, true}) {
    add("BulkSynchronous", R<BulkSynchronous<C1>>(), 0, P["fan"], cd, {2}, 2, 1,
        2, 4);
    add("BulkSynchronous", R<BulkSynchronous<C1>>(), 0, P["tree"], cd, {1, 1},
        2, 1, 2, 4);
    add("BulkSynchronous", R<BulkSynchronous<C1>>(), 0, P["chain"], cd, {2}, 2,
        -1, 2, 4);
    add("BulkSynchronous", R<BulkSynchronous<C1>>(), 0, P["side-chain"], cd,
        {2}, 2, 1, 2, 4);
    add("BulkSynchronous", R<BulkSynchronous<C1>>(), 0, P["side-chain"], cd,
        {1, 1}, 2, -1, 2, 4);
    add("BulkSynchronous", R<BulkSynchronous<C1>>(), 0, P["side-chain"], cd,
        {3}, 3, -1, 1, 3);
    add("BulkSynchronous", R<BulkSynchronous<C1>>(), 0, P["tree"], cd, {2, 1},
        3, 1, 1, 3);
    add("BulkSynchronous", R<BulkSynchronous<C1>>(), 0, P["fan"], cd, {3}, 3,
        -1, 1, 3);
    add("BulkSynchronous<ChunkLIFO<2>>", R<BulkSynchronous<ChunkLIFO<2>>>(), 0,
        P["tree"], cd, {2}, 2, -1, 2, 4);
  }
  // (b) OBIM with barrier
  typedef OrderedByIntegerMetric<FeIndexer, C1>::with_barrier<true>::type OB;
  typedef OB::with_monotonic<true>::type OBM;
  typedef OB::with_back_scan_prevention<false>::type OBN;
  typedef OB::with_descending<true>::type OBD;
  typedef OBM::with_descending<true>::type OBMD;
  for (bool cd : {false, true}) {
    add("OBIM-barrier", R<OB>(), 1, P["fan"], cd, {2}, 2, 1, 2, 4);
    add("OBIM-barrier", R<OB>(), 1, P["sparse"], cd, {1, 1}, 2, 1, 2, 4);
    add("OBIM-barrier", R<OB>(), 1, P["same-level-push"], cd, {2}, 2, -1, 2, 4);
    add("OBIM-barrier", R<OB>(), 1, P["tree"], cd, {2, 1}, 3, 1, 1, 3);
    add("OBIM-barrier", R<OB>(), 1, P["sparse"], cd, {3}, 3, -1, 1, 3);
    add("OBIM-barrier", R<OB>(), 1, P["help-mid"], cd, {3}, 3, cd ? -1 : 1, 1,
        3);
    add("OBIM-barrier", R<OB>(), 1, P["help-mid2"], cd, {3}, 3, -1, 1, 3);
    add("OBIM-barrier-mono", R<OBM>(), 1, P["help-mid"], cd, {3}, 3, -1, 1, 3);
    add("OBIM-barrier-mono", R<OBM>(), 1, P["chain"], cd, {2}, 2, 1, 2, 4);
    add("OBIM-barrier", R<OB>(), 1, P["side-chain"], cd, {2}, 2, -1, 2, 4);
    add("OBIM-barrier-mono", R<OBM>(), 1, P["fan"], cd, {1, 1}, 2, -1, 2, 4);
    add("OBIM-barrier-nobsp", R<OBN>(), 1, P["sparse"], cd, {2}, 2, 1, 2, 4);
    add("OBIM-barrier-nobsp", R<OBN>(), 1, P["tree"], cd, {2, 1}, 3, -1, 1, 3);
    add("OBIM-barrier-desc", R<OBD>(), 2, negate_prio(P["sparse"]), cd, {2}, 2,
        1, 2, 4);
    add("OBIM-barrier-desc", R<OBD>(), 2, negate_prio(P["tree"]), cd, {1, 1}, 2,
        -1, 2, 4);
    add("OBIM-barrier-mono-desc", R<OBMD>(), 2, negate_prio(P["chain"]), cd,
        {2}, 2, -1, 2, 4);
  }
  return vf_main(argc, argv, "C08", cases);
}

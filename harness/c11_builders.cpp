// C11 (schedule half): the parallel graph builders -- per-thread construction
// from vectors, in-place transpose() and constructIncomingEdges() (atomic
// counter based slot claiming) -- under the schedule explorer.
// Engine E1 (gsched).  DESIGN.md 7/C11 (E1 bullet).
#include "gsched.h"

#include "galois/Galois.h"
#include "galois/graphs/LC_CSR_CSC_Graph.h"
#include "galois/graphs/LC_CSR_Graph.h"

#include <algorithm>
#include <set>
#include <string>
#include <vector>

struct In {
  std::string name;
  uint32_t n;
  std::vector<std::pair<uint32_t, uint32_t>> edges; // ordered
};

static std::vector<In> inputs() {
  return {
      {"tri+parallel+loop", 3, {{0, 1}, {0, 1}, {1, 2}, {2, 0}, {1, 1}}},
      {"star-in", 3, {{0, 2}, {1, 2}, {2, 2}, {0, 2}}},
      {"last-node-empty", 4, {{0, 1}, {1, 0}, {0, 2}}},
  };
}

typedef std::multiset<std::pair<uint32_t, int>> Adj; // (dst, data)

template <typename G>
VF_NOINSTR static std::vector<Adj> out_view(G& g) {
  std::vector<Adj> v(g.size());
  for (auto n : g)
    for (auto e : g.edges(n, galois::MethodFlag::UNPROTECTED))
      v[n].insert({(uint32_t)g.getEdgeDst(e), (int)g.getEdgeData(e)});
  return v;
}

static std::string g_tag;
VF_NOINSTR static void expect(const std::vector<Adj>& got,
                              const std::vector<Adj>& want, const char* what,
                              const In& in) {
  if (got.size() != want.size())
    vf_fail((g_tag + ":" + what + ":node-count").c_str(), "%s: %zu vs %zu nodes",
            in.name.c_str(), got.size(), want.size());
  for (size_t i = 0; i < got.size(); ++i)
    if (got[i] != want[i])
      vf_fail((g_tag + ":" + what + ":edges-differ").c_str(),
              "input %s: node %zu has %zu edges, expected %zu (multisets of "
              "(dst,data) differ)",
              in.name.c_str(), i, got[i].size(), want[i].size());
}

template <typename G>
static void fill(G& g, const In& in) {
  std::vector<uint64_t> prefix(in.n, 0);
  std::vector<std::vector<uint32_t>> ids(in.n);
  std::vector<std::vector<int>> data(in.n);
  for (size_t k = 0; k < in.edges.size(); ++k) {
    ids[in.edges[k].first].push_back(in.edges[k].second);
    data[in.edges[k].first].push_back(100 + (int)k);
  }
  uint64_t s = 0;
  for (uint32_t i = 0; i < in.n; ++i) {
    s += ids[i].size();
    prefix[i] = s;
  }
  g.constructFrom(in.n, in.edges.size(), prefix, ids, data);
}

static std::vector<Adj> ref_out(const In& in, bool transposed) {
  std::vector<Adj> v(in.n);
  for (size_t k = 0; k < in.edges.size(); ++k) {
    uint32_t a = in.edges[k].first, b = in.edges[k].second;
    if (transposed)
      v[b].insert({a, 100 + (int)k});
    else
      v[a].insert({b, 100 + (int)k});
  }
  return v;
}

static void build_case(In in, std::string what, std::vector<int> topo,
                       unsigned T) {
  vf_set_topology(topo.data(), (int)topo.size());
  g_tag = "graph=LC_CSR";
  vf_tag(g_tag.c_str());
  galois::SharedMemSys G;
  galois::setActiveThreads(T);
  if (what == "constructFrom") {
    galois::graphs::LC_CSR_Graph<int, int> g;
    vf_window_begin();
    fill(g, in);
    vf_window_end();
    expect(out_view(g), ref_out(in, false), "constructFrom", in);
  } else if (what == "transpose") {
    galois::graphs::LC_CSR_Graph<int, int> g;
    fill(g, in);
    vf_window_begin();
    g.transpose();
    vf_window_end();
    expect(out_view(g), ref_out(in, true), "transpose", in);
  } else if (what == "transpose-twice") {
    galois::graphs::LC_CSR_Graph<int, int> g;
    fill(g, in);
    g.transpose();
    vf_window_begin();
    g.transpose();
    vf_window_end();
    expect(out_view(g), ref_out(in, false), "transpose-twice", in);
  } else { // incoming edges of the CSR+CSC graph
    galois::graphs::LC_CSR_CSC_Graph<int, int> g;
    fill(g, in);
    vf_window_begin();
    g.constructIncomingEdges();
    vf_window_end();
    expect(out_view(g), ref_out(in, false), "in-edges:out-view-changed", in);
    std::vector<Adj> inv(g.size());
    for (auto n : g)
      for (auto e : g.in_edges(n, galois::MethodFlag::UNPROTECTED))
        inv[n].insert({(uint32_t)g.getInEdgeDst(e), (int)g.getInEdgeData(e)});
    expect(inv, ref_out(in, true), "in-edges", in);
  }
  vf_finish();
}

int main(int argc, char** argv) {
  std::vector<VfCase> cases;
  auto add = [&](const In& in, std::string what, std::vector<int> topo,
                 unsigned T, int qb, int tb) {
    VfCase c;
    c.name = "builder=" + what + " input=" + in.name + " T=" + std::to_string(T) +
             " sockets=" + std::to_string(topo.size());
    c.quick_bound    = qb;
    c.thorough_bound = tb;
    c.body           = [=]() { build_case(in, what, topo, T); };
    cases.push_back(c);
  };
  auto ins = inputs();
  for (size_t i = 0; i < ins.size(); ++i) {
    bool first = i == 0;
    add(ins[i], "constructFrom", {2}, 2, first ? 2 : 1, 3);
    add(ins[i], "transpose", {2}, 2, first ? 2 : 1, 3);
    add(ins[i], "transpose", {1, 1}, 2, -1, 2);
    add(ins[i], "transpose-twice", {2}, 2, -1, 2);
    add(ins[i], "in-edges", {2}, 2, first ? 2 : 1, 3);
    add(ins[i], "transpose", {3}, 3, first ? 1 : -1, 2);
    add(ins[i], "in-edges", {2, 1}, 3, -1, 2);
  }
  return vf_main(argc, argv, "C11", cases);
}

// C14 helpers: element type with a live-instance registry and a moved-from
// flag, small formatting helpers, a counting block heap for gslist.
#ifndef VERIF_C14_ELEM_H
#define VERIF_C14_ELEM_H

#include "seqx.h"

#include <csetjmp>
#include <csignal>
#include <cstdlib>
#include <cstring>
#include <set>
#include <sstream>
#include <string>
#include <vector>

namespace c14 {

// ---------------------------------------------------------------------------
// Lifetime registry.  Every Elem constructor registers `this`, every
// destructor unregisters it.  Anything that is not "construct exactly once on
// dead storage, destroy exactly once" is recorded as a sticky error that the
// harness turns into a violation after the operation that caused it (we never
// throw from a constructor/destructor).
// ---------------------------------------------------------------------------
struct Registry {
  std::set<const void*> live;
  std::string err_key, err_msg; // first error only
  long ctors = 0, dtors = 0;
  void reset() {
    live.clear();
    err_key.clear();
    err_msg.clear();
    ctors = dtors = 0;
  }
  void error(const char* key, const char* what, const void*) {
    if (err_key.empty()) {
      err_key = key;
      err_msg = what;
    }
  }
  bool is_live(const void* p) const { return live.count(p) != 0; }
};
inline Registry& reg() {
  static Registry r;
  return r;
}

struct Elem {
  int v;
  bool moved;

  void born() {
    Registry& r = reg();
    r.ctors++;
    if (!r.live.insert(this).second)
      r.error("construct-over-live-object",
              "an element was constructed on storage that already holds a "
              "live element (previous one never destroyed)",
              this);
  }
  static void src_check(const Elem& o) {
    if (!reg().is_live(&o))
      reg().error("read-of-dead-object",
                  "copy/move/assign reads an element that is not alive "
                  "(never constructed or already destroyed)",
                  &o);
  }

  Elem() : v(-1), moved(false) { born(); }
  Elem(int x) : v(x), moved(false) { born(); }
  Elem(const Elem& o) : v(-5), moved(false) {
    src_check(o);
    if (reg().is_live(&o)) {
      v     = o.v;
      moved = o.moved;
    }
    born();
  }
  Elem(Elem&& o) : v(-5), moved(false) {
    src_check(o);
    if (reg().is_live(&o)) {
      v       = o.v;
      moved   = o.moved;
      o.moved = true;
    }
    born();
  }
  Elem& operator=(const Elem& o) {
    src_check(o);
    if (!reg().is_live(this)) {
      reg().error("assign-to-dead-object",
                  "assignment to an element that is not alive", this);
      return *this;
    }
    if (reg().is_live(&o)) {
      v     = o.v;
      moved = o.moved;
    }
    return *this;
  }
  Elem& operator=(Elem&& o) {
    src_check(o);
    if (!reg().is_live(this)) {
      reg().error("assign-to-dead-object",
                  "assignment to an element that is not alive", this);
      return *this;
    }
    if (reg().is_live(&o) && &o != this) {
      v       = o.v;
      moved   = o.moved;
      o.moved = true;
    }
    return *this;
  }
  ~Elem() {
    Registry& r = reg();
    r.dtors++;
    auto it = r.live.find(this);
    if (it == r.live.end()) {
      // do NOT write to the storage: it may not be ours
      r.error("destroy-of-dead-object",
              "destructor ran on storage that holds no live element (double "
              "destroy, or destroy of a never-constructed slot)",
              this);
      return;
    }
    r.live.erase(it);
    v     = -77;
    moved = true;
  }
  bool operator==(const Elem& o) const { return v == o.v; }
  bool operator<(const Elem& o) const { return v < o.v; }
};

inline long live_count() { return (long)reg().live.size(); }

// value / sanity accessors that also work for plain int elements
inline int val_of(const Elem& e) { return e.v; }
inline int val_of(int e) { return e; }
inline const char* bad_obj(const Elem& e) {
  if (!reg().is_live(&e))
    return "dead-object-visible";
  if (e.moved)
    return "moved-from-object-visible";
  return nullptr;
}
inline const char* bad_obj(const int&) { return nullptr; }

template <class T>
struct is_counted {
  static const bool value = false;
};
template <>
struct is_counted<Elem> {
  static const bool value = true;
};

// after every operation
inline void check_registry(const std::string& comp, const char* after) {
  Registry& r = reg();
  if (!r.err_key.empty())
    sx::fail(comp + ":" + r.err_key, "after %s: %s", after, r.err_msg.c_str());
}
inline void check_live(const std::string& comp, const char* after,
                       long expected) {
  check_registry(comp, after);
  if (live_count() != expected)
    sx::fail(comp + ":live-instance-count",
             "after %s: %ld live elements, model holds %ld (constructed %ld, "
             "destroyed %ld)",
             after, live_count(), expected, reg().ctors, reg().dtors);
}

template <class V>
inline std::string vstr(const V& v) {
  std::ostringstream o;
  o << "[";
  bool first = true;
  for (auto& x : v) {
    o << (first ? "" : ",") << x;
    first = false;
  }
  o << "]";
  return o.str();
}

template <class A, class B>
inline void expect_seq(const std::string& key, const char* after,
                       const char* what, const A& got, const B& want) {
  std::vector<int> g(got.begin(), got.end()), w(want.begin(), want.end());
  if (g != w)
    sx::fail(key, "after %s: %s is %s, reference %s", after, what,
             vstr(g).c_str(), vstr(w).c_str());
}

// Bounded traversal of [b,e): collects values, checks each visited object.
// A traversal longer than `bound` is reported instead of running away.
template <class It>
inline std::vector<int> walk(const std::string& comp, const char* after,
                             const char* what, It b, It e, size_t bound) {
  std::vector<int> out;
  size_t n = 0;
  for (; !(b == e); ++b) {
    if (n++ > bound)
      sx::fail(comp + ":" + what + "-overruns",
               "after %s: %s visited more than %zu positions without reaching "
               "end() (so far %s)",
               after, what, bound, vstr(out).c_str());
    auto& ref = *b;
    if (const char* bad = bad_obj(ref))
      sx::fail(comp + ":" + what + "-" + bad,
               "after %s: %s reaches, at position %zu, an object that is %s "
               "(values so far %s)",
               after, what, n - 1,
               std::string(bad) == "dead-object-visible"
                   ? "not alive (destroyed or never constructed)"
                   : "moved-from",
               vstr(out).c_str());
    out.push_back(val_of(ref));
  }
  return out;
}

// ---------------------------------------------------------------------------
// Block heap handed to gslist: malloc-backed (so ASan sees block misuse) and
// counting.
// ---------------------------------------------------------------------------
struct CountingHeap {
  std::set<void*> out;
  long allocs = 0, frees = 0;
  bool bad_free = false;
  void* allocate(size_t n) {
    void* p = malloc(n);
    out.insert(p);
    allocs++;
    return p;
  }
  void deallocate(void* p) {
    frees++;
    if (!out.erase(p)) {
      bad_free = true;
      return;
    }
    free(p);
  }
  ~CountingHeap() {
    for (void* p : out)
      free(p);
  }
};

// ---------------------------------------------------------------------------
// Runs f(); returns false if it raised SIGABRT (a failed assert), SIGSEGV, or
// - when secs > 0 - did not return within secs seconds.  Used only at the few
// places where the unchanged library is known to die or spin, so that the
// verdict carries a precise key, the worker survives, and the very same check
// passes once the library is repaired.
// ---------------------------------------------------------------------------
inline sigjmp_buf& survive_jb() {
  static sigjmp_buf jb;
  return jb;
}
inline volatile int& survive_sig() {
  static volatile int s = 0;
  return s;
}
inline void survive_handler(int sig) {
  survive_sig() = sig;
  siglongjmp(survive_jb(), 1);
}
template <class F>
inline bool survives(F f, int secs = 0, int rearm = 0) {
  struct sigaction sa, o1, o2, o3;
  memset(&sa, 0, sizeof sa);
  sa.sa_handler = survive_handler;
  sigemptyset(&sa.sa_mask);
  sa.sa_flags = SA_NODEFER;
  sigaction(SIGABRT, &sa, &o1);
  sigaction(SIGSEGV, &sa, &o2);
  if (secs)
    sigaction(SIGALRM, &sa, &o3);
  bool ok       = false;
  survive_sig() = 0;
  if (sigsetjmp(survive_jb(), 1) == 0) {
    if (secs)
      alarm(secs);
    f();
    ok = true;
  }
  sigaction(SIGABRT, &o1, nullptr);
  sigaction(SIGSEGV, &o2, nullptr);
  if (secs) {
    sigaction(SIGALRM, &o3, nullptr);
    alarm(rearm);
  }
  return ok;
}

} // namespace c14
#endif

// C07: deterministic scheduling: results independent of schedule and thread
// count.  Engine E1 (gsched), differential across schedules AND against the
// one-thread run.  DESIGN.md 7/C07.
#include "fe_common.h"

#include <map>
#include <sstream>

FeState fe;

using namespace galois::worklists;

static std::string g_tag;
static int g_break_after = 1 << 30; // det_parallel_break: stop when obj2 grows

struct LS {
  long magic;
  int item;
};

template <bool UseLS, typename Ctx>
static void det_operator(int item, Ctx& ctx) {
  const ItemProg& p = fe.prog->items[item];
  int att           = fe_next_attempt(item);
  vf_log(K_ATTEMPT, item, att);
  for (int o : p.acq)
    galois::runtime::acquire(&fe.obj[o], galois::MethodFlag::WRITE);
  if (UseLS) {
    if (ctx.isFirstPass()) {
      LS* ls    = ctx.template createLocalState<LS>();
      ls->magic = 0x5ca1ab1e + item;
      ls->item  = item;
    }
  }
  ctx.cautiousPoint();
  if (UseLS) {
    LS* ls = ctx.template getLocalState<LS>();
    if (ls->magic != 0x5ca1ab1e + item || ls->item != item)
      vf_note_fail((g_tag + ":local-state-lost").c_str(),
                   "item %d resumed with local state of item %d", item,
                   ls->item);
  }
  vf_log(K_COMMIT, item, att);
  for (int o : p.acq) {
    fe.obj[o].stamp = item;
    fe.obj[o].value = fe.obj[o].value * 3 + item; // order-revealing
  }
  for (int c : p.post)
    ctx.push(c);
  for (int o : p.acq)
    if (fe.obj[o].stamp != item)
      vf_note_fail((g_tag + ":double-owner").c_str(),
                   "item %d owns object %d but found stamp %d", item, o,
                   fe.obj[o].stamp);
}

static std::vector<int> initial(const Program& p) {
  std::vector<int> init;
  for (int i = 0; i < p.ninit; ++i)
    init.push_back(i);
  return init;
}

static void run_variant(const std::string& variant, const Program& p) {
  auto init = initial(p);
  typedef Deterministic<> DWL;
  auto detid = [](const int& x) { return (uintptr_t)x; };
  if (variant == "plain") {
    galois::for_each(
        galois::iterate(init),
        [](int i, auto& ctx) { det_operator<false>(i, ctx); },
        galois::wl<DWL>(), galois::loopname("det"));
  } else if (variant == "det_id") {
    galois::for_each(
        galois::iterate(init),
        [](int i, auto& ctx) { det_operator<false>(i, ctx); },
        galois::wl<DWL>(), galois::det_id<decltype(detid)>(detid),
        galois::loopname("det"));
  } else if (variant == "fixed_neighborhood") {
    galois::for_each(
        galois::iterate(init),
        [](int i, auto& ctx) { det_operator<false>(i, ctx); },
        galois::wl<DWL>(), galois::fixed_neighborhood(),
        galois::det_id<decltype(detid)>(detid), galois::loopname("det"));
  } else if (variant == "local_state") {
    galois::for_each(
        galois::iterate(init),
        [](int i, auto& ctx) { det_operator<true>(i, ctx); }, galois::wl<DWL>(),
        galois::local_state<LS>(), galois::loopname("det"));
  } else { // det_parallel_break
    auto brk = []() { return fe.obj[2].value > g_break_after; };
    galois::for_each(
        galois::iterate(init),
        [](int i, auto& ctx) { det_operator<false>(i, ctx); },
        galois::wl<DWL>(), galois::det_parallel_break<decltype(brk)>(brk),
        galois::loopname("det"));
  }
}

// observable result of one loop: final object values, per-object commit
// sequences, set of committed items
VF_NOINSTR static std::string observe(const Program& P, int from) {
  std::ostringstream o;
  for (int k = 0; k < FE_MAXOBJ; ++k)
    o << "v" << k << "=" << fe.obj[k].value << " ";
  std::vector<std::vector<int>> seq(FE_MAXOBJ);
  std::vector<int> committed(P.items.size(), 0);
  for (int i = from; i < vf_log_count(); ++i) {
    const vf_log_entry* e = vf_log_get(i);
    if (e->kind != K_COMMIT)
      continue;
    committed[e->a]++;
    for (int ob : P.items[e->a].acq)
      seq[ob].push_back((int)e->a);
  }
  for (int k = 0; k < FE_MAXOBJ; ++k) {
    o << "| o" << k << ":";
    for (int x : seq[k])
      o << x << ",";
  }
  o << "| committed:";
  for (size_t i = 0; i < committed.size(); ++i)
    o << committed[i];
  return o.str();
}

VF_NOINSTR static uint64_t hstr(const std::string& s) {
  uint64_t h = 1469598103934665603ull;
  for (unsigned char c : s)
    h = (h ^ c) * 1099511628211ull;
  return h;
}

static void det_case(std::string variant, Program prog, std::vector<int> topo,
                     int T) {
  vf_set_topology(topo.data(), (int)topo.size());
  g_tag = "det:" + variant;
  vf_tag(g_tag.c_str());
  galois::SharedMemSys G;
  if (variant == "det_parallel_break")
    g_break_after = 20;
  // ---- reference: the same loop on ONE thread (no nondeterminism) --------
  galois::setActiveThreads(1);
  fe_reset(prog);
  run_variant(variant, prog);
  std::string ref = observe(prog, 0);
  int mark        = vf_log_count();
  // ---- the run under exploration -------------------------------------------
  for (int k = 0; k < FE_MAXOBJ; ++k) {
    fe.obj[k].value = 1;
    fe.obj[k].stamp = -1;
  }
  fe_reset(prog);
  galois::setActiveThreads(T);
  vf_window_begin();
  run_variant(variant, prog);
  vf_window_end();
  std::string got = observe(prog, mark);
  if (got != ref)
    vf_fail((g_tag + ":differs-from-one-thread-run").c_str(),
            "program %s with %d threads gave [%s], one thread gives [%s]",
            prog.name.c_str(), T, got.c_str(), ref.c_str());
  vf_same_across_schedules(hstr(got));
  if (variant != "det_parallel_break") {
    // conservation (C01) on the explored run only
    int commits[FE_MAXITEMS] = {0};
    for (int i = mark; i < vf_log_count(); ++i)
      if (vf_log_get(i)->kind == K_COMMIT)
        commits[vf_log_get(i)->a]++;
    for (size_t it = 0; it < prog.items.size(); ++it)
      if (commits[it] != 1)
        vf_fail((g_tag + (commits[it] ? ":duplicate-work" : ":lost-work")).c_str(),
                "program %s: item %zu committed %d times", prog.name.c_str(),
                it, commits[it]);
  }
  for (int k = 0; k < FE_MAXOBJ; ++k)
    if (galois::runtime::LockManagerBase::getOwner(&fe.obj[k]) != nullptr)
      vf_fail((g_tag + ":object-left-owned").c_str(), "object %d still owned",
              k);
  vf_outcome(hstr(got));
  vf_finish();
}

static std::vector<Program> det_programs() {
  std::vector<Program> v;
  auto item = [](std::vector<int> acq, std::vector<int> post) {
    ItemProg p;
    p.acq  = acq;
    p.post = post;
    return p;
  };
  {
    Program p;
    p.name  = "triangle+push";
    p.ninit = 3;
    p.items = {item({0, 1}, {3}), item({1, 2}, {}), item({2, 0}, {4}),
               item({1}, {}), item({0, 2}, {})};
    v.push_back(p);
  }
  {
    Program p;
    p.name  = "hot-object";
    p.ninit = 4;
    p.items = {item({2}, {}), item({2}, {4}), item({2}, {}), item({2, 0}, {}),
               item({2}, {})};
    v.push_back(p);
  }
  {
    Program p;
    p.name  = "chain-conflict";
    p.ninit = 2;
    p.items = {item({0}, {2}), item({0, 1}, {3}), item({1}, {}),
               item({0}, {})};
    v.push_back(p);
  }
  return v;
}

int main(int argc, char** argv) {
  std::vector<VfCase> cases;
  std::map<std::string, Program> P;
  for (auto& p : det_programs())
    P[p.name] = p;
  auto add = [&](std::string variant, const Program& p, std::vector<int> topo,
                 int T, int qb, int tb, int w = 1) {
    VfCase c;
    c.name = "det variant=" + variant + " prog=" + p.name +
             " topo=" + fe_topo_str(topo) + " T=" + std::to_string(T);
    c.quick_bound    = qb;
    c.thorough_bound = tb;
    c.weight         = w;
    c.body = [=]() { det_case(variant, p, topo, T); };
    cases.push_back(c);
  };
  for (const char* vv : {"plain", "det_id", "fixed_neighborhood", "local_state",
                         "det_parallel_break"}) {
    std::string v = vv;
    bool main_v   = v == "plain";
    add(v, P["triangle+push"], {2}, 2, main_v ? 2 : 1, 2, 4);
    add(v, P["hot-object"], {1, 1}, 2, main_v ? 1 : -1, 2, 3);
    // thorough: three deviations on the plain variant (gets what the other
    // cases leave of the deadline in the explorer's second pass)
    add(v, P["chain-conflict"], {2}, 2, main_v ? 1 : -1, main_v ? 3 : 2, 4);
    add(v, P["triangle+push"], {3}, 3, main_v ? 1 : -1, 1, 3);
    add(v, P["hot-object"], {2, 1}, 3, -1, 1, 3);
  }
  return vf_main(argc, argv, "C07", cases);
}

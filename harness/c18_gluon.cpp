// C18 -- Gluon synchronisation makes every readable proxy agree with the
// reduced value.  Engine E4 (DESIGN.md section 5, e4_common.h).
//
// One `mpirun -np h` session; for every case of the session file (input graph
// x CuSP policy class x CSR/CSC ...):
//   partition with the real cuspPartitionGraph, gather the partition, build
//   the global PROXY TABLE on rank 0 (all proxies of all nodes on all hosts,
//   sorted by (global id, host); proxy #i writes the distinct value 1+i) and
//   broadcast it; then
//   for every DataCommMode M the substrate can be told to enforce
//       (auto, bitsetData, offsetsData, gidsData, onlyData -- the constructor
//       argument _enforcedDataMode, i.e. the apps' -metadata switch)
//     for reduction in {min, add, set} on a uint32_t field
//     for (write location, read location) in {src,dst,any}^2
//     for update bitset on / off (off only with M=auto: without a bitset the
//         code has a single encoding)
//     for EVERY subset S of the proxies that are eligible for the write
//         location (all 2^E subsets when E <= capbits, otherwise the
//         bounded family |S| <= 2 or |S| >= E-1)
//       initialise all proxies, write the proxies in S (and mark them in the
//       bitset), record the pre-sync values, call the real
//       GluonSubstrate::sync<write, read, Reduce_x_f, Bitset_f>(), record the
//       post-sync values;
//     gather (pre, post) of every proxy of every host and compare on rank 0
//     with the reduction computed from the gathered PRE-sync values.
//
// Eligibility (locations are those of the LOCAL graph the operator iterates,
// i.e. after CuSP's in-memory transpose, exactly how the pull-style apps use
// writeSource = "the node whose edge list I iterate"):
//   source      : the proxy has >= 1 outgoing local edge
//   destination : the proxy has >= 1 incoming local edge
//   any         : every proxy
//   the MASTER proxy is always eligible, for writing and for reading: the
//   property counts "the master's previous value" into every reduction and
//   the master holds the canonical value after every sync.
// Only eligible proxies are written, only readable proxies are compared.
//
// State model per reduction (what an application has at a sync point):
//   min : every proxy holds BASE=1000 (> every written value), a written
//         proxy holds 1+i;  expect min(master, written eligible mirrors)
//   add : mirrors hold the identity 0 (Gluon resets them after each reduce),
//         unwritten masters 0, written proxies their contribution 1+i;
//         expect master + sum(written eligible mirrors)
//   set : every proxy holds BASE, written proxies 1+i.  "set" lets a mirror's
//         value overwrite the master's, so with several writers the winner
//         depends on arrival order: expect  (a) no eligible mirror written ->
//         the master's pre-sync value exactly, (b) else one of the values
//         written at eligible mirrors, and ALL readable proxies agree.
//         Without a bitset (or with onlyData enforced) Gluon ships every
//         mirror, so any proxy's pre-sync value may win; agreement is still
//         demanded.
//
// Chosen wire encodings are observed at the call site: GluonSubstrate.h calls
// get_data_mode<T>() once per outgoing message on the bitset path; the name is
// redirected to a counting wrapper around the real function for this TU.
//
// usage: mpirun -np h c18_gluon SESSION_FILE RESULT_FILE [threads]
#include "e4_pace.h" // timing-only shim, must precede every Galois header

#include <cstddef>
#include <cstdint>
#include "galois/runtime/DataCommMode.h"
static unsigned long g_mode_calls[8];
template <typename T>
DataCommMode verif_logged_get_data_mode(size_t sel, size_t tot) {
  DataCommMode m = get_data_mode<T>(sel, tot);
  g_mode_calls[(unsigned)m < 8 ? (unsigned)m : 7]++;
  return m;
}
#include "e4_common.h"
#include <ctime>
#include <unistd.h>
#define get_data_mode verif_logged_get_data_mode
#include "galois/graphs/GluonSubstrate.h"
#undef get_data_mode
#include "galois/runtime/SyncStructures.h"
#define E4_PACE_IMPL
#include "e4_pace.h"

#include <atomic>
#include <ctime>

struct NodeData {
  std::atomic<uint32_t> fmin;
  std::atomic<uint32_t> fadd;
  std::atomic<uint32_t> fset;
};
galois::DynamicBitSet bitset_fmin, bitset_fadd, bitset_fset;

GALOIS_SYNC_STRUCTURE_REDUCE_MIN(fmin, uint32_t);
GALOIS_SYNC_STRUCTURE_REDUCE_ADD(fadd, uint32_t);
GALOIS_SYNC_STRUCTURE_REDUCE_SET(fset, uint32_t);
GALOIS_SYNC_STRUCTURE_BITSET(fmin);
GALOIS_SYNC_STRUCTURE_BITSET(fadd);
GALOIS_SYNC_STRUCTURE_BITSET(fset);

typedef galois::graphs::DistGraph<NodeData, void> Graph;
typedef galois::graphs::GluonSubstrate<Graph> Sub;
typedef void (*SyncFn)(Sub&);

template <WriteLocation W, ReadLocation R, typename Fn, typename Bs>
static void do_sync(Sub& s) {
  s.sync<W, R, Fn, Bs>("e4");
}
template <typename Fn, typename Bs>
static void fill(SyncFn t[3][3]) {
  t[0][0] = do_sync<writeSource, readSource, Fn, Bs>;
  t[0][1] = do_sync<writeSource, readDestination, Fn, Bs>;
  t[0][2] = do_sync<writeSource, readAny, Fn, Bs>;
  t[1][0] = do_sync<writeDestination, readSource, Fn, Bs>;
  t[1][1] = do_sync<writeDestination, readDestination, Fn, Bs>;
  t[1][2] = do_sync<writeDestination, readAny, Fn, Bs>;
  t[2][0] = do_sync<writeAny, readSource, Fn, Bs>;
  t[2][1] = do_sync<writeAny, readDestination, Fn, Bs>;
  t[2][2] = do_sync<writeAny, readAny, Fn, Bs>;
}
// [reduction][bitset on][write][read]
static SyncFn g_sync[3][2][3][3];
static void init_table() {
  fill<Reduce_min_fmin, galois::InvalidBitsetFnTy>(g_sync[0][0]);
  fill<Reduce_min_fmin, Bitset_fmin>(g_sync[0][1]);
  fill<Reduce_add_fadd, galois::InvalidBitsetFnTy>(g_sync[1][0]);
  fill<Reduce_add_fadd, Bitset_fadd>(g_sync[1][1]);
  fill<Reduce_set_fset, galois::InvalidBitsetFnTy>(g_sync[2][0]);
  fill<Reduce_set_fset, Bitset_fset>(g_sync[2][1]);
}

static const char* RED[3]  = {"min", "add", "set"};
static const char* LOC[3]  = {"src", "dst", "any"};
static const char* MODE[5] = {"auto", "bitset", "offsets", "gids", "only"};
static const DataCommMode MODEV[5] = {noData, bitsetData, offsetsData, gidsData,
                                      onlyData};
static const uint32_t BASE = 1000;

struct Proxy {
  uint32_t host, lid;
  uint64_t gid;
  bool master, hasOut, hasIn;
};

static bool eligible(const Proxy& p, int loc) {
  if (p.master || loc == 2)
    return true;
  return loc == 0 ? p.hasOut : p.hasIn;
}

static std::atomic<uint32_t>& field(Graph& g, uint32_t lid, int red) {
  NodeData& d = g.getData(lid);
  return red == 0 ? d.fmin : red == 1 ? d.fadd : d.fset;
}
static galois::DynamicBitSet& bitset_of(int red) {
  return red == 0 ? bitset_fmin : red == 1 ? bitset_fadd : bitset_fset;
}

// deterministic subset family over E eligible proxies
static std::vector<uint64_t> mask_family(unsigned E, unsigned capbits) {
  std::vector<uint64_t> m;
  if (E <= capbits) {
    for (uint64_t x = 0; x < (1ull << E); ++x)
      m.push_back(x);
    return m;
  }
  uint64_t full = E >= 64 ? ~0ull : ((1ull << E) - 1);
  std::set<uint64_t> s;
  s.insert(0);
  s.insert(full);
  for (unsigned i = 0; i < E; ++i) {
    s.insert(1ull << i);
    s.insert(full & ~(1ull << i));
    for (unsigned j = i + 1; j < E; ++j)
      s.insert((1ull << i) | (1ull << j));
  }
  m.assign(s.begin(), s.end());
  return m;
}

static int idx_of(const char* const* names, int n, const std::string& v) {
  for (int i = 0; i < n; ++i)
    if (v == names[i])
      return i;
  return -1;
}

static std::string proxies_str(const std::vector<Proxy>& P) {
  std::ostringstream o;
  for (size_t i = 0; i < P.size(); ++i)
    o << (i ? " " : "") << "#" << i << "=node" << P[i].gid << "@h" << P[i].host
      << (P[i].master ? "M" : "m") << (P[i].hasOut ? "o" : "")
      << (P[i].hasIn ? "i" : "");
  return o.str();
}

static void run_case(const e4::Case& c, e4::Comm& comm, FILE* out) {
  auto& net = galois::runtime::getSystemNetworkInterface();
  const unsigned me = net.ID, nh = net.Num;
  std::unique_ptr<Graph> g = e4::partition<NodeData, void>(c);
  e4::HostDump d;
  e4::dump_graph(*g, c.n, nh, d);
  auto all = comm.gather(d.pack());

  // ---- rank 0: partition sanity + proxy table ------------------------------
  e4::Report r;
  std::vector<uint64_t> table; // [ok, count, (host,lid,gid,flags)*]
  std::vector<e4::HostDump> H;
  std::string comp = "gluon:" + c.policy + ":" + c.in + "->" + c.out +
                     (c.sym ? ":sym" : "");
  bool partitionOk = true;
  if (comm.rank == 0) {
    H.resize(all.size());
    for (size_t h = 0; h < all.size(); ++h)
      if (!H[h].unpack(all[h]))
        partitionOk = false;
    if (partitionOk) {
      e4::Report pr;
      e4::check_partition(c, H, "cusp", pr, false);
      // a partition that breaks what Gluon builds on is C19's finding, not
      // C18's: skip the syncs (phantom / missing edges alone do not matter
      // here, eligibility follows the edges the hosts really hold)
      for (auto& v : pr.viol)
        if (v.key.find("edge-multiset") == std::string::npos &&
            v.key.find("edge-data") == std::string::npos &&
            v.key.find("global-size") == std::string::npos &&
            v.key.find("nodes-with-edges-range") == std::string::npos)
          partitionOk = false;
    }
    table.push_back(partitionOk);
    if (partitionOk) {
      struct Row {
        uint64_t gid, host, lid, flags;
      };
      std::vector<Row> rows;
      for (unsigned h = 0; h < nh; ++h) {
        std::vector<int> od(H[h].numNodes, 0), id(H[h].numNodes, 0);
        for (auto& e : H[h].edges) {
          od[e.ls]++;
          id[e.ld]++;
        }
        for (uint64_t l = 0; l < H[h].numNodes; ++l)
          rows.push_back(Row{H[h].l2g[l], h, l,
                             (uint64_t)((l < H[h].numOwned ? 1 : 0) |
                                        (od[l] ? 2 : 0) | (id[l] ? 4 : 0))});
      }
      std::sort(rows.begin(), rows.end(), [](const Row& a, const Row& b) {
        return a.gid != b.gid ? a.gid < b.gid : a.host < b.host;
      });
      table.push_back(rows.size());
      for (auto& x : rows) {
        table.push_back(x.host);
        table.push_back(x.lid);
        table.push_back(x.gid);
        table.push_back(x.flags);
      }
    }
  }
  comm.bcast(table);
  // every host is through the partitioning stage: tell the driver, so that a
  // crash before this marker is attributed to CuSP (property C19), not Gluon
  if (comm.rank == 0) {
    fprintf(out, "{\"stage\":%ld}\n", c.id);
    fflush(out);
  }
  unsigned long syncs = 0, nontrivial = 0, compared = 0;
  time_t lastTick = time(nullptr);
  std::set<uint64_t> outcomes;
  unsigned long modeCalls0[8];
  memcpy(modeCalls0, g_mode_calls, sizeof modeCalls0);
  unsigned long nobitsetSyncs = 0;
  std::vector<Proxy> P;
  if (table[0]) {
    size_t np = table[1];
    for (size_t i = 0; i < np; ++i) {
      Proxy p;
      p.host   = table[2 + 4 * i];
      p.lid    = table[3 + 4 * i];
      p.gid    = table[4 + 4 * i];
      p.master = table[5 + 4 * i] & 1;
      p.hasOut = table[5 + 4 * i] & 2;
      p.hasIn  = table[5 + 4 * i] & 4;
      P.push_back(p);
    }
    // proxies of each node (indices into P); P is sorted by gid
    std::map<uint64_t, std::vector<int>> byNode;
    for (size_t i = 0; i < P.size(); ++i)
      byNode[P[i].gid].push_back(i);
    std::vector<int> mine; // my proxies, in table order
    for (size_t i = 0; i < P.size(); ++i)
      if (P[i].host == me)
        mine.push_back(i);
    // index of (host, position in that host's `mine`) for rank 0
    std::vector<std::vector<int>> perHost(nh);
    for (size_t i = 0; i < P.size(); ++i)
      perHost[P[i].host].push_back(i);

    bitset_fmin.resize(g->size());
    bitset_fadd.resize(g->size());
    bitset_fset.resize(g->size());

    unsigned capbits = 6;
    if (c.opt.count("capbits"))
      capbits = atoi(c.opt.at("capbits").c_str());
    std::string modes = c.opt.count("modes") ? c.opt.at("modes") : "auto";
    // forced modes on every (write, read) pair ("all") or only on
    // (any,any), (src,dst), (dst,src) ("diag")
    bool forcedAll = !c.opt.count("forced") || c.opt.at("forced") == "all";
    int onlyMode = c.opt.count("only_mode")
                       ? idx_of(MODE, 5, c.opt.at("only_mode"))
                       : -1;
    int onlyRed  = c.opt.count("only_red") ? idx_of(RED, 3, c.opt.at("only_red"))
                                           : -1;
    int onlyWl   = c.opt.count("only_wl") ? idx_of(LOC, 3, c.opt.at("only_wl"))
                                          : -1;
    int onlyRl   = c.opt.count("only_rl") ? idx_of(LOC, 3, c.opt.at("only_rl"))
                                          : -1;
    int onlyBs   = c.opt.count("only_bs") ? atoi(c.opt.at("only_bs").c_str())
                                          : -1;
    long long onlyMask = c.opt.count("only_mask")
                             ? strtoll(c.opt.at("only_mask").c_str(), 0, 10)
                             : -1;

    // the substrate converts the graph's mirror lists from global to local
    // ids IN PLACE; a fresh substrate (needed to enforce another data mode
    // through the constructor, the only switch the code offers) wants them
    // in global ids again
    std::vector<std::vector<size_t>> savedMirrors = g->getMirrorNodes();

    for (int M = 0; M < 5; ++M) {
      if (modes.find(MODE[M]) == std::string::npos)
        continue;
      if (onlyMode >= 0 && M != onlyMode)
        continue;
      g->getMirrorNodes() = savedMirrors;
      {
        Sub sub(*g, me, nh, g->isTransposed(), g->cartesianGrid(), false,
                MODEV[M]);
        for (int red = 0; red < 3; ++red) {
          if (onlyRed >= 0 && red != onlyRed)
            continue;
          for (int wl = 0; wl < 3; ++wl) {
            if (onlyWl >= 0 && wl != onlyWl)
              continue;
            std::vector<int> elig;
            for (size_t i = 0; i < P.size(); ++i)
              if (eligible(P[i], wl))
                elig.push_back(i);
            std::vector<uint64_t> masks = mask_family(elig.size(), capbits);
            if (onlyMask >= 0)
              masks.assign(1, (uint64_t)onlyMask);
            for (int rl = 0; rl < 3; ++rl) {
              if (onlyRl >= 0 && rl != onlyRl)
                continue;
              if (M != 0 && !forcedAll && onlyMode < 0 &&
                  !((wl == 2 && rl == 2) || (wl == 0 && rl == 1) ||
                    (wl == 1 && rl == 0)))
                continue;
              for (int bs = 1; bs >= 0; --bs) {
                if (onlyBs >= 0 && bs != onlyBs)
                  continue;
                if (!bs && M != 0)
                  continue; // no bitset => single code path, mode not consulted
                SyncFn fn                 = g_sync[red][bs][wl][rl];
                galois::DynamicBitSet& bt = bitset_of(red);
                std::vector<uint64_t> buf;
                buf.reserve(masks.size() * mine.size());
                for (uint64_t mask : masks) {
                  // initialise + write
                  bt.reset();
                  for (int i : mine)
                    field(*g, P[i].lid, red)
                        .store(red == 1 ? 0u : BASE, std::memory_order_relaxed);
                  for (size_t k = 0; k < elig.size(); ++k)
                    if ((mask >> k) & 1) {
                      const Proxy& p = P[elig[k]];
                      if (p.host != me)
                        continue;
                      field(*g, p.lid, red)
                          .store(1 + elig[k], std::memory_order_relaxed);
                      if (bs)
                        bt.set(p.lid);
                    }
                  size_t at = buf.size();
                  for (int i : mine)
                    buf.push_back((uint64_t)field(*g, P[i].lid, red).load());
                  fn(sub);
                  for (size_t k = 0; k < mine.size(); ++k)
                    buf[at + k] |=
                        (uint64_t)field(*g, P[mine[k]].lid, red).load() << 32;
                  ++syncs;
                  if (!bs)
                    ++nobitsetSyncs;
                  // heartbeat: a case is tens of thousands of syncs; the
                  // driver tells "slow" from "hung" by these lines
                  if ((syncs & 127) == 0 && comm.rank == 0) {
                    time_t now = time(nullptr);
                    if (now - lastTick >= 2) {
                      lastTick = now;
                      fprintf(out, "{\"tick\":%lu}\n", syncs);
                      fflush(out);
                    }
                  }
                }
                auto gathered = comm.gather(buf);
                if (comm.rank != 0)
                  continue;
                // ---- oracle ------------------------------------------------
                const bool allSent = !bs || M == 4;
                for (size_t mi = 0; mi < masks.size(); ++mi) {
                  uint64_t mask = masks[mi];
                  std::vector<uint32_t> pre(P.size()), post(P.size());
                  bool short_ = false;
                  for (unsigned h = 0; h < nh; ++h) {
                    size_t k = perHost[h].size();
                    if (gathered[h].size() != masks.size() * k) {
                      short_ = true;
                      break;
                    }
                    for (size_t j = 0; j < k; ++j) {
                      uint64_t v           = gathered[h][mi * k + j];
                      pre[perHost[h][j]]   = (uint32_t)v;
                      post[perHost[h][j]]  = (uint32_t)(v >> 32);
                    }
                  }
                  if (short_) {
                    r.fail(comp + ":harness-gather-corrupt", "short gather");
                    break;
                  }
                  std::vector<char> written(P.size(), 0);
                  for (size_t k = 0; k < elig.size(); ++k)
                    if ((mask >> k) & 1)
                      written[elig[k]] = 1;
                  uint64_t oh  = 1469598103934665603ull;
                  bool nontriv = false;
                  for (auto& kv : byNode) {
                    const std::vector<int>& px = kv.second;
                    int Mi = -1;
                    for (int i : px)
                      if (P[i].master)
                        Mi = i;
                    if (Mi < 0)
                      continue;
                    bool anyWritten = false;
                    for (int i : px)
                      anyWritten |= written[i] != 0;
                    if (anyWritten && px.size() > 1)
                      nontriv = true;
                    // expected value(s)
                    std::set<uint32_t> cand;
                    if (red == 0) {
                      uint32_t e = pre[Mi];
                      for (int i : px)
                        if (!P[i].master && written[i])
                          e = std::min(e, pre[i]);
                      cand.insert(e);
                    } else if (red == 1) {
                      uint32_t e = pre[Mi];
                      for (int i : px)
                        if (!P[i].master && written[i])
                          e += pre[i];
                      cand.insert(e);
                    } else {
                      if (allSent) {
                        for (int i : px)
                          cand.insert(pre[i]);
                      } else {
                        for (int i : px)
                          if (!P[i].master && written[i])
                            cand.insert(pre[i]);
                        if (cand.empty())
                          cand.insert(pre[Mi]);
                      }
                    }
                    for (int i : px) {
                      bool readable = eligible(P[i], rl);
                      if (!readable)
                        continue;
                      ++compared;
                      oh = (oh ^ post[i]) * 1099511628211ull;
                      bool bad      = !cand.count(post[i]);
                      bool disagree = post[i] != post[Mi];
                      if (!bad && !disagree)
                        continue;
                      std::ostringstream pv, cs;
                      for (int j : px)
                        pv << " #" << j << "(h" << P[j].host
                           << (P[j].master ? ",master" : ",mirror")
                           << (written[j] ? ",written" : "") << ") " << pre[j]
                           << "->" << post[j];
                      for (uint32_t x : cand)
                        cs << (cs.tellp() ? "|" : "") << x;
                      const char* sym =
                          bad ? (P[i].master ? "master-wrong-value"
                                             : "mirror-wrong-value")
                              : "readable-proxies-disagree";
                      char key[300];
                      // key: component x (reduction, write, read) x symptom;
                      // bitset / enforced mode are in the message (the
                      // driver lists all combinations that fail per key)
                      snprintf(key, sizeof key, "%s:%s:w=%s:r=%s:%s",
                               comp.c_str(), RED[red], LOC[wl], LOC[rl], sym);
                      char at[200];
                      snprintf(at, sizeof at,
                               "only_mode=%s only_red=%s only_wl=%s "
                               "only_rl=%s only_bs=%d only_mask=%llu",
                               MODE[M], RED[red], LOC[wl], LOC[rl], bs,
                               (unsigned long long)mask);
                      size_t before = r.viol.size();
                      r.fail(
                          key,
                          "after sync<write=%s,read=%s,%s,%s> (enforced mode "
                          "%s) node %llu proxy #%d on host %u (readable at "
                          "%s) holds %u, expected %s%s; proxies of the node "
                          "pre->post:%s; written subset mask=%llu over "
                          "eligible proxies; graph n=%llu %s hosts=%u %s; "
                          "proxy table: %s",
                          LOC[wl], LOC[rl], RED[red],
                          bs ? "bitset" : "no bitset", MODE[M],
                          (unsigned long long)kv.first, i, P[i].host, LOC[rl],
                          post[i], cs.str().c_str(),
                          disagree && !bad ? " (a legal value, but the master "
                                             "holds another one)"
                                           : "",
                          pv.str().c_str(), (unsigned long long)mask,
                          (unsigned long long)c.n,
                          e4::edges_str(c.edges).c_str(), nh, c.label().c_str(),
                          proxies_str(P).c_str());
                      if (r.viol.size() > before)
                        r.viol.back().at = at;
                    }
                  }
                  outcomes.insert(oh);
                  if (nontriv)
                    ++nontrivial;
                }
              }
            }
          }
        }
      } // substrate destroyed
    }
    g->getMirrorNodes() = savedMirrors;
  }
  // sum the encoding counters of all hosts
  unsigned long long enc[8], encAll[8];
  for (int i = 0; i < 8; ++i)
    enc[i] = g_mode_calls[i] - modeCalls0[i];
  MPI_Reduce(enc, encAll, 8, MPI_UNSIGNED_LONG_LONG, MPI_SUM, 0, comm.comm);
  if (comm.rank != 0)
    return;
  std::ostringstream st;
  st << "{\"syncs\":" << syncs << ",\"nontrivial\":" << nontrivial
     << ",\"compared\":" << compared << ",\"proxies\":" << P.size()
     << ",\"outcomes_n\":" << outcomes.size()
     << ",\"partition_ok\":" << (table[0] ? 1 : 0)
     << ",\"nobitset_syncs\":" << nobitsetSyncs << ",\"encodings\":{"
     << "\"noData\":" << encAll[noData] << ",\"bitsetData\":"
     << encAll[bitsetData] << ",\"offsetsData\":" << encAll[offsetsData]
     << ",\"gidsData\":" << encAll[gidsData] << ",\"onlyData\":"
     << encAll[onlyData] << "}}";
  e4::emit_result(out, c.id, r, st.str());
}

int main(int argc, char** argv) {
  if (argc < 3) {
    fprintf(stderr, "usage: c18_gluon SESSION RESULT [threads]\n");
    return 2;
  }
  e4::redirect_output(argv[2]);
  // idle polls nap (e4_pace.h) for the whole C18 session: 10^5-10^6 tiny syncs
  // per session are only feasible that way on a shared machine.  The driver
  // keeps the one configuration away from paced sessions in which paced
  // back-to-back partitions were seen to lose step (asynchronous master
  // assignment of Ginger/Fennel/Sugar): C18 partitions those with
  // cuspAsync=false; property C19 covers the asynchronous assignment, unpaced.
  e4::pace_on(true);
  galois::DistMemSys G;
  galois::setActiveThreads(argc > 3 ? atoi(argv[3]) : 1);
  auto& net = galois::runtime::getSystemNetworkInterface();
  (void)net;
  init_table();
  e4::Comm comm;
  comm.init();
  std::vector<e4::Case> cases = e4::read_session(argv[1]);
  FILE* out = nullptr;
  if (comm.rank == 0) {
    out = fopen(argv[2], "a");
    if (!out) {
      perror(argv[2]);
      MPI_Abort(MPI_COMM_WORLD, 2);
    }
  }
  fprintf(stderr, "E4-RANK %d: pid %d t=%ld %zu cases in %s\n", comm.rank,
          (int)getpid(), (long)time(nullptr), cases.size(), argv[1]);
  for (auto& c : cases) {
    if (comm.rank == 0)
      e4::emit_begin(out, c.id);
    comm.barrier();
    // position of every rank, for the diagnosis of a stalled session
    fprintf(stderr, "E4-RANK %d: pid %d t=%ld in case %ld\n", comm.rank,
            (int)getpid(), (long)time(nullptr), c.id);
    run_case(c, comm, out);
  }
  fprintf(stderr, "E4-RANK %d: pid %d t=%ld all cases done, final barrier\n",
          comm.rank, (int)getpid(), (long)time(nullptr));
  comm.barrier();
  fprintf(stderr, "E4-RANK %d: pid %d t=%ld leaving main\n", comm.rank,
          (int)getpid(), (long)time(nullptr));
  if (comm.rank == 0) {
    fprintf(out, "{\"done\":true}\n");
    fclose(out);
  }
  return 0;
}

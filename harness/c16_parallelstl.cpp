// C16: the galois::ParallelSTL algorithms (sort, partition, count_if, find_if,
// accumulate, map_reduce, partial_sum, destroy) return what their std::
// counterparts return.  Engine E2 (seqx input enumeration), DESIGN.md 7/C16,
// the "E2" half: every input of a structured family x thread count T in
// {1,2,3,4}, on the REAL library with T real (unscheduled) Galois threads.
//
// Thread interleavings are NOT controlled by this engine: every (input,
// variant, T) is run exactly once, with whatever interleaving the OS produces.
// The property has to hold for every interleaving, so a failure seen here is a
// genuine counterexample; a pass at T >= 2 only says that the one interleaving
// that happened was fine (schedule coverage is the job of the E1 half).  Runs
// at T = 1 are deterministic.
//
// Input family (built around the 1024-element serial cut-off that sort,
// partition and partial_sum have, and the 1024-element block partition claims):
//   * EVERY sequence of length <= 6 (thorough: <= 7) over the 3 keys
//     {1 (pred true), 600 (pred false), 2 (pred true)}: 1093 (3280) inputs,
//     covering sizes 0, 1, 2, ...
//   * sizes {1023, 1024, 1025, 2047, 2048, 2049, 3072, 3*1024+1, 4096}, the
//     sequence cut into 1024-blocks (last one partial), each block drawn from
//     the alphabet {all-true, all-false, alternating, sorted, reversed,
//     all-equal} (w.r.t. the predicate key < 512 / the sort key): ALL
//     combinations for <= 4 blocks (thorough); quick: ALL combinations for
//     <= 3 blocks, and for 3*1024+1 all combinations of the three full blocks
//     with the 1-element tail in {all-true, all-false};
//   * for each of those sizes four whole-sequence shapes: ascending,
//     descending (already sorted / reversed / already partitioned across
//     block borders), all-true-except-the-first, all-false-except-the-last.
// Each kernel additionally has a few variants (comparator, predicate,
// operator, in-place); see the V_* tables.  Index order is input-major
// (simplest input first), then variant, then T.
//
// Oracles demand only what the property / the header promise:
//   sort        key sequence equals std::sort's, result is a permutation
//   partition   returned point p in [first,last], [first,p) all satisfy,
//               [p,last) none satisfy, result is a permutation (NOT: the same
//               arrangement as std::partition)
//   find_if     `last` iff no element satisfies, otherwise ANY satisfying
//               element (a parallel find does not promise the first one)
//   count_if / accumulate / map_reduce / partial_sum   equal to std::
//               (accumulate's third argument is documented as the *identity*
//               of the operator, so only identities are passed, and only
//               associative+commutative operators are used)
//   destroy     every element destroyed exactly once
//
// Violation keys: <algorithm>:<T=1|T>1>:<symptom>.  T=1 findings are
// deterministic; T>1 findings depend on the interleaving.
//
// Non-trivial rule (sx::mark_nontrivial): the run used T >= 2 threads AND the
// input takes the parallel code path with more than one unit of work, i.e.
// n > 1024 for sort/partition, n >= 1024 for partial_sum, n >= 2 for the
// do_all/for_each based kernels (count_if, find_if, accumulate, map_reduce,
// destroy have no serial cut-off).
//
// partition's predicate is range-checked: on the unchanged tree partition()
// ends, for some inputs, in std::partition(last, first) and walks out of the
// array.  The predicate throws (before touching the element) as soon as it is
// applied to an address outside [first,last); the exception leaves
// partition() through the caller's thread and is reported as the ordinary
// violation `partition:<T>:predicate-called-outside-range` instead of an ASan
// abort that would kill the worker and hide the other partition findings.
// With a plain predicate thread 0 has partitioned all 4096 elements before the
// second thread has even woken up, i.e. nearly every run is effectively serial.
// Two partition variants therefore add a bounded wait (at most 300 us) that
// does not change any value the algorithm sees:
//   * "rendezvous at the first predicate call": each thread waits at its
//     FIRST predicate call until the other threads that can own blocks have
//     made theirs, so every thread holds its first low/high block pair at the
//     same time - the situation the left-over logic exists for;
//   * "iterator type with a rendezvous": a hand-written random-access iterator
//     whose default constructor does the same wait.  partition's per-thread
//     functor default-constructs its block cursors first thing, so all threads
//     reach takeLow()/takeHigh() together and the claims interleave (low, low,
//     high, high instead of low, high, low, high).
// Nothing else about the schedule is steered.  Because partition's
// interesting behaviour needs >= 4 blocks and its runs are cheap, partition
// also gets all 4-block combinations of size 4096 in the quick tier.
//
// Quick runs a prefix of each kernel's variant table (struct Kernel), thorough
// all of it.
//
// All kernels share one galois::SharedMemSys per worker process (per-thread
// storage is recycled across thousands of calls, as in an application).
// Galois' barriers and termination detection spin without yielding, so a
// parallel loop gets ~100x slower as soon as more threads are runnable than
// there are cpus; the 16 worker processes therefore take T "cpu tokens" from
// a shared pool of <#cpus> tokens around every library call (tokens of dead
// workers are reclaimed).  This only limits how many runs are in flight; it
// does not touch the code under test.
#include "seqx.h"

#include "galois/Galois.h"
#include "galois/ParallelSTL.h"
#include "galois/gstl.h"

#include <climits>
#include <numeric>
#include <sstream>

using sx::fail;
namespace pstl = galois::ParallelSTL;

// ---------------------------------------------------------------------------
// runtime
// ---------------------------------------------------------------------------
static const unsigned MAXT = 4;

static void runtime(unsigned T) {
  // created inside the worker (threads do not survive fork), once
  static galois::SharedMemSys* G = new galois::SharedMemSys();
  (void)G;
  unsigned got = galois::setActiveThreads(T);
  if (got != T)
    fail("harness:setActiveThreads", "asked for %u threads, got %u", T, got);
}

static std::string tk(unsigned T) { return T == 1 ? "T=1" : "T>1"; }

// ---------------------------------------------------------------------------
// inputs
// ---------------------------------------------------------------------------
struct Elem {
  int key;
  int id; // original position: makes elements distinguishable
};
static bool P(const Elem& e) { return e.key < 512; }

enum Pat { AT, AF, ALT, SORTED, REVERSED, EQ, NPAT };
static const char* PATNAME[] = {"all-true", "all-false", "alternating",
                                "sorted",   "reversed",  "all-equal"};
static const int SEQKEY[3]   = {1, 600, 2};
static const int BLOCK       = 1024;
static const int BSIZES[]    = {1023, 1024, 1025, 2047, 2048,
                                2049, 3072, 3073, 4096};

// key of element j of a block of length L
static int pat_key(int pat, int j, int L) {
  switch (pat) {
  case AT:
    return (j * 7) % 512; // distinct-ish, unsorted, all < 512
  case AF:
    return 512 + (j * 7) % 512;
  case ALT:
    return (j & 1) ? 512 + (j / 2) % 512 : (j / 2) % 512; // T F T F ...
  case SORTED:
    return (int)((long)j * 1024 / L); // ascending: trues then falses
  case REVERSED:
    return 1023 - (int)((long)j * 1024 / L); // descending: falses then trues
  default:
    return 511; // one value (the largest "true" key)
  }
}

static const char* WHOLE[] = {
    "whole sequence ascending (keys i*1024/n)",
    "whole sequence descending (keys 1023-i*1024/n)",
    "all true (key 100) except the FIRST element (key 900)",
    "all false (key 900) except the LAST element (key 100)"};
struct Input {
  int n    = 0;
  int kind = 0;          // 0 explicit sequence, 1 block patterns, 2 whole shape
  std::vector<int> code; // 0: symbols 0..2; 1: Pat per block; 2: {WHOLE index}
  std::vector<Elem> make() const {
    std::vector<Elem> v(n);
    for (int i = 0; i < n; ++i) {
      int k;
      if (kind == 0)
        k = SEQKEY[code[i]];
      else if (kind == 1) {
        int b = i / BLOCK, L = std::min(BLOCK, n - b * BLOCK);
        k = pat_key(code[b], i - b * BLOCK, L);
      } else
        switch (code[0]) {
        case 0:
          k = (int)((long)i * 1024 / n);
          break;
        case 1:
          k = 1023 - (int)((long)i * 1024 / n);
          break;
        case 2:
          k = i == 0 ? 900 : 100;
          break;
        default:
          k = i == n - 1 ? 100 : 900;
        }
      v[i] = Elem{k, i};
    }
    return v;
  }
  std::string str() const {
    std::ostringstream o;
    o << "n=" << n;
    if (kind == 0) {
      o << " keys=[";
      for (int i = 0; i < n; ++i)
        o << (i ? "," : "") << SEQKEY[code[i]];
      o << "]";
    } else if (kind == 1) {
      o << " blocks=[";
      for (size_t b = 0; b < code.size(); ++b) {
        int L = std::min(BLOCK, n - (int)b * BLOCK);
        o << (b ? "," : "") << PATNAME[code[b]];
        if (L != BLOCK)
          o << "(" << L << ")";
      }
      o << "]";
    } else
      o << " " << WHOLE[code[0]];
    return o.str();
  }
};

// level 0: quick; 1: quick + every 4-block combination of size 4096 (used by
// partition in the quick tier); 2: thorough
static std::vector<Input> build_inputs(int level) {
  std::vector<Input> out;
  bool thorough = level == 2;
  int maxlen    = thorough ? 7 : 6;
  for (int len = 0; len <= maxlen; ++len) {
    long cnt = 1;
    for (int i = 0; i < len; ++i)
      cnt *= 3;
    for (long c = 0; c < cnt; ++c) {
      Input in;
      in.n    = len;
      in.kind = 0;
      long x  = c;
      in.code.assign(len, 0);
      for (int i = len - 1; i >= 0; --i) { // lexicographic, simplest first
        in.code[i] = x % 3;
        x /= 3;
      }
      out.push_back(in);
    }
  }
  for (int n : BSIZES) {
    int nb = (n + BLOCK - 1) / BLOCK;
    std::vector<int> radix(nb, (int)NPAT);
    if (nb > 3 && !thorough) {
      if (n == 3 * BLOCK + 1)
        radix[3] = 2; // quick: 1-element tail in {all-true, all-false}
      else if (level == 0)
        continue;
    }
    for (int d = 0; d < 4; ++d) {
      Input in;
      in.n    = n;
      in.kind = 2;
      in.code = {d};
      out.push_back(in);
    }
    long cnt = 1;
    for (int r : radix)
      cnt *= r;
    for (long c = 0; c < cnt; ++c) {
      Input in;
      in.n    = n;
      in.kind = 1;
      in.code.assign(nb, 0);
      long x = c;
      for (int b = nb - 1; b >= 0; --b) {
        in.code[b] = x % radix[b];
        x /= radix[b];
      }
      out.push_back(in);
    }
  }
  return out;
}
static const std::vector<Input>& inputs(int level) {
  static std::vector<Input> tab[3] = {build_inputs(0), build_inputs(1),
                                      build_inputs(2)};
  return tab[level];
}

// is `got` a rearrangement of `orig` (orig[i].id == i)?
static bool is_permutation_of(const std::vector<Elem>& got,
                              const std::vector<Elem>& orig,
                              std::string& why) {
  size_t n = orig.size();
  if (got.size() != n) {
    why = "size changed";
    return false;
  }
  std::vector<char> seen(n, 0);
  for (size_t i = 0; i < n; ++i) {
    int id = got[i].id;
    char b[160];
    if (id < 0 || (size_t)id >= n) {
      snprintf(b, sizeof b, "position %zu holds an element (key %d, id %d) "
                            "that was never in the input",
               i, got[i].key, id);
      why = b;
      return false;
    }
    if (seen[id]) {
      snprintf(b, sizeof b, "input element #%d (key %d) occurs twice "
                            "(second time at position %zu)",
               id, orig[id].key, i);
      why = b;
      return false;
    }
    seen[id] = 1;
    if (got[i].key != orig[id].key) {
      snprintf(b, sizeof b, "input element #%d changed key %d -> %d", id,
               orig[id].key, got[i].key);
      why = b;
      return false;
    }
  }
  return true;
}

static uint64_t hash_keys(const std::vector<Elem>& v) {
  uint64_t h = v.size();
  for (auto& e : v)
    h = sx::mix(h, (uint64_t)e.key);
  return h;
}

// ---------------------------------------------------------------------------
// kernels.  body(input, T, variant) throws sx::Fail
// ---------------------------------------------------------------------------
struct ByKeyLess {
  bool operator()(const Elem& a, const Elem& b) const { return a.key < b.key; }
};
struct ByKeyGreater {
  bool operator()(const Elem& a, const Elem& b) const { return a.key > b.key; }
};

static const char* V_SORT[] = {"comp=less(key)", "comp=greater(key)",
                               "sort(first,last) on plain ints"};
static void body_sort(const Input& in, unsigned T, int var) {
  std::string K = "sort:" + tk(T) + ":";
  runtime(T);
  if (in.n > BLOCK && T >= 2)
    sx::mark_nontrivial();
  std::vector<Elem> orig = in.make();
  if (var == 2) {
    std::vector<int> v(in.n), ref;
    for (int i = 0; i < in.n; ++i)
      v[i] = orig[i].key;
    ref = v;
    pstl::sort(v.begin(), v.end());
    std::sort(ref.begin(), ref.end());
    for (int i = 0; i < in.n; ++i)
      if (v[i] != ref[i])
        fail(K + "differs-from-std-sort",
             "T=%u %s: position %d holds %d, std::sort gives %d", T,
             V_SORT[var], i, v[i], ref[i]);
    uint64_t h = in.n;
    for (int x : v)
      h = sx::mix(h, (uint64_t)x);
    sx::outcome(h);
    return;
  }
  std::vector<Elem> v = orig, ref = orig;
  if (var == 0) {
    pstl::sort(v.begin(), v.end(), ByKeyLess());
    std::sort(ref.begin(), ref.end(), ByKeyLess());
  } else {
    pstl::sort(v.begin(), v.end(), ByKeyGreater());
    std::sort(ref.begin(), ref.end(), ByKeyGreater());
  }
  std::string why;
  if (!is_permutation_of(v, orig, why))
    fail(K + "not-a-permutation", "T=%u %s: %s", T, V_SORT[var], why.c_str());
  for (int i = 0; i < in.n; ++i)
    if (v[i].key != ref[i].key)
      fail(K + "differs-from-std-sort",
           "T=%u %s: position %d holds key %d, std::sort gives key %d", T,
           V_SORT[var], i, v[i].key, ref[i].key);
  sx::outcome(hash_keys(v));
}

static const char* V_PRED[] = {"pred=key<512", "pred=key>=512"};
static const char* V_PART[] = {
    "pred=key<512",
    "pred=key<512 + rendezvous of the threads at their first predicate call",
    "pred=key<512, iterator type with a rendezvous of the threads at their "
    "first default-constructed cursor",
    "pred=key>=512"};
// bounded rendezvous (see the header comment); mode 0 off, 1 predicate,
// 2 iterator
static std::atomic<int> g_epoch{0}, g_arrived{0};
static int g_expect, g_rv_mode;
static thread_local int t_epoch = -1;
static void rendezvous() {
  int e = g_epoch.load(std::memory_order_relaxed);
  if (t_epoch == e)
    return;
  t_epoch = e;
  if (g_arrived.fetch_add(1) + 1 >= g_expect)
    return;
  double t0 = sx::now();
  while (g_arrived.load() < g_expect && sx::now() - t0 < 300e-6)
    galois::substrate::asmPause();
}
struct OutOfRange {
  long off;
};
struct PartPred { // range-checked, see the header comment
  uintptr_t lo, hi;
  int var;
  bool operator()(const Elem& e) const {
    uintptr_t a = (uintptr_t)&e;
    if (a < lo || a >= hi)
      throw OutOfRange{((long)a - (long)lo) / (long)sizeof(Elem)};
    if (g_rv_mode == 1)
      rendezvous();
    return var == 3 ? !P(e) : P(e);
  }
};
// a plain random-access iterator over Elem[]; only the default constructor is
// special
struct SyncIt {
  using iterator_category = std::random_access_iterator_tag;
  using value_type        = Elem;
  using difference_type   = std::ptrdiff_t;
  using pointer           = Elem*;
  using reference         = Elem&;
  Elem* p;
  SyncIt() : p(nullptr) {
    if (g_rv_mode == 2)
      rendezvous();
  }
  explicit SyncIt(Elem* q) : p(q) {}
  reference operator*() const { return *p; }
  pointer operator->() const { return p; }
  reference operator[](difference_type d) const { return p[d]; }
  SyncIt& operator++() { return ++p, *this; }
  SyncIt& operator--() { return --p, *this; }
  SyncIt operator++(int) { return SyncIt(p++); }
  SyncIt operator--(int) { return SyncIt(p--); }
  SyncIt& operator+=(difference_type d) { return p += d, *this; }
  SyncIt& operator-=(difference_type d) { return p -= d, *this; }
  friend SyncIt operator+(SyncIt a, difference_type d) { return SyncIt(a.p + d); }
  friend SyncIt operator+(difference_type d, SyncIt a) { return SyncIt(a.p + d); }
  friend SyncIt operator-(SyncIt a, difference_type d) { return SyncIt(a.p - d); }
  friend difference_type operator-(SyncIt a, SyncIt b) { return a.p - b.p; }
  friend bool operator==(SyncIt a, SyncIt b) { return a.p == b.p; }
  friend bool operator!=(SyncIt a, SyncIt b) { return a.p != b.p; }
  friend bool operator<(SyncIt a, SyncIt b) { return a.p < b.p; }
  friend bool operator>(SyncIt a, SyncIt b) { return a.p > b.p; }
  friend bool operator<=(SyncIt a, SyncIt b) { return a.p <= b.p; }
  friend bool operator>=(SyncIt a, SyncIt b) { return a.p >= b.p; }
};

static void body_partition(const Input& in, unsigned T, int var) {
  std::string K = "partition:" + tk(T) + ":";
  runtime(T);
  if (in.n > BLOCK && T >= 2)
    sx::mark_nontrivial();
  std::vector<Elem> orig = in.make(), v = orig;
  PartPred pred{(uintptr_t)v.data(), (uintptr_t)(v.data() + v.size()), var};
  long n = in.n, r;
  g_rv_mode = var == 1 ? 1 : var == 2 ? 2 : 0;
  if (g_rv_mode == 1) {
    // threads that own a block when each claims one low and one high block
    int chunks = in.n > BLOCK ? (in.n + BLOCK - 1) / BLOCK : 1;
    g_expect   = std::min<int>(T, (chunks + 1) / 2);
  } else
    g_expect = in.n > BLOCK ? T : 1; // on_each runs the functor on all T
  g_arrived.store(0);
  g_epoch.fetch_add(1);
  try {
    if (var == 2)
      r = pstl::partition(SyncIt(v.data()), SyncIt(v.data() + n), pred).p -
          v.data();
    else
      r = pstl::partition(v.begin(), v.end(), pred) - v.begin();
  } catch (const OutOfRange& o) {
    g_rv_mode = 0;
    fail(K + "predicate-called-outside-range",
         "T=%u %s: partition applied the predicate to first%+ld, outside "
         "[first,last) (n=%ld)",
         T, V_PART[var], o.off, n);
  }
  g_rv_mode = 0;
  if (r < 0 || r > n)
    fail(K + "point-out-of-range",
         "T=%u %s: returned first%+ld, outside [first,last] (n=%ld)", T,
         V_PART[var], r, n);
  std::string why;
  if (!is_permutation_of(v, orig, why))
    fail(K + "not-a-permutation", "T=%u %s: %s", T, V_PART[var], why.c_str());
  auto sat   = [var](const Elem& e) { return var == 3 ? !P(e) : P(e); };
  long ntrue = std::count_if(orig.begin(), orig.end(), sat);
  long ff    = std::find_if_not(v.begin(), v.end(), sat) - v.begin();
  for (long i = ff; i < n; ++i)
    if (sat(v[i]))
      fail(K + "range-not-partitioned",
           "T=%u %s: returned first+%ld (%ld elements satisfy); position %ld "
           "does not satisfy the predicate but the later position %ld does",
           T, V_PART[var], r, ntrue, ff, i);
  if (r != ntrue) {
    if (r > ntrue)
      fail(K + "wrong-partition-point",
           "T=%u %s: returned first+%ld but only %ld elements satisfy: "
           "[first,ret) contains the non-satisfying position %ld (the range "
           "itself is partitioned at %ld)",
           T, V_PART[var], r, ntrue, ntrue, ntrue);
    fail(K + "wrong-partition-point",
         "T=%u %s: returned first+%ld but %ld elements satisfy: [ret,last) "
         "contains the satisfying position %ld (the range itself is "
         "partitioned at %ld)",
         T, V_PART[var], r, ntrue, r, ntrue);
  }
  sx::outcome(sx::mix(hash_keys(v), (uint64_t)r));
}

static void body_count_if(const Input& in, unsigned T, int var) {
  std::string K = "count_if:" + tk(T) + ":";
  runtime(T);
  if (in.n >= 2 && T >= 2)
    sx::mark_nontrivial();
  std::vector<Elem> v = in.make();
  auto pred = [var](const Elem& e) { return var == 0 ? P(e) : !P(e); };
  size_t got  = pstl::count_if(v.begin(), v.end(), pred);
  size_t want = std::count_if(v.begin(), v.end(), pred);
  if (got != want)
    fail(K + "differs-from-std-count_if", "T=%u %s: returned %zu, expected %zu",
         T, V_PRED[var], got, want);
  sx::outcome(got);
}

static const char* V_FIND[] = {"pred=key<512", "pred=id==n-1",
                               "pred=key>=512", "pred=id==0", "pred=id==n/2"};
static void body_find_if(const Input& in, unsigned T, int var) {
  std::string K = "find_if:" + tk(T) + ":";
  runtime(T);
  if (in.n >= 2 && T >= 2)
    sx::mark_nontrivial();
  std::vector<Elem> v = in.make();
  int n               = in.n;
  auto pred           = [var, n](const Elem& e) {
    switch (var) {
    case 0:
      return P(e);
    case 1:
      return e.id == n - 1;
    case 2:
      return !P(e);
    case 3:
      return e.id == 0;
    default:
      return e.id == n / 2;
    }
  };
  auto ret    = pstl::find_if(v.begin(), v.end(), pred);
  long r      = ret - v.begin();
  long first  = std::find_if(v.begin(), v.end(), pred) - v.begin();
  long nmatch = std::count_if(v.begin(), v.end(), pred);
  if (r < 0 || r > n)
    fail(K + "returned-out-of-range", "T=%u %s: returned first%+ld (n=%d)", T,
         V_FIND[var], r, n);
  if (nmatch == 0) {
    if (r != n)
      fail(K + "returned-element-although-none-matches",
           "T=%u %s: nothing satisfies the predicate but first+%ld was "
           "returned instead of last",
           T, V_FIND[var], r);
  } else {
    if (r == n)
      fail(K + "returned-last-although-match-exists",
           "T=%u %s: returned last, but %ld element(s) satisfy the predicate "
           "(the first at position %ld)",
           T, V_FIND[var], nmatch, first);
    if (!pred(v[r]))
      fail(K + "returned-non-matching-element",
           "T=%u %s: returned first+%ld (key %d) which does not satisfy the "
           "predicate; %ld element(s) do",
           T, V_FIND[var], r, v[r].key, nmatch);
  }
  sx::outcome(sx::mix((uint64_t)r, (uint64_t)n));
}

// NOTE: the 3-argument overload accumulate(first, last, identity) cannot be
// exercised: its body calls `accumulate(first, last, identity, std::plus<T>())`
// unqualified, std::plus<T> makes namespace std associated, and the call is
// ambiguous with std::accumulate for EVERY iterator/value type (hard compile
// error inside the template, ParallelSTL.h:282).  Reported as a finding; the
// 4-argument overload is what is enumerated here.
static const char* V_ACC[] = {"op=std::plus identity=0",
                              "op=gmax identity=LONG_MIN",
                              "op=bit_xor identity=0"};
static void body_accumulate(const Input& in, unsigned T, int var) {
  std::string K = "accumulate:" + tk(T) + ":";
  runtime(T);
  if (in.n >= 2 && T >= 2)
    sx::mark_nontrivial();
  std::vector<Elem> e = in.make();
  std::vector<long> v(in.n);
  for (int i = 0; i < in.n; ++i)
    v[i] = (long)e[i].key * 1000003L + i; // large, distinct
  long got, want;
  if (var == 0) {
    got  = pstl::accumulate(v.begin(), v.end(), 0L, std::plus<long>());
    want = std::accumulate(v.begin(), v.end(), 0L);
  } else if (var == 1) {
    got  = pstl::accumulate(v.begin(), v.end(), LONG_MIN, galois::gmax<long>());
    want = std::accumulate(v.begin(), v.end(), LONG_MIN,
                           [](long a, long b) { return std::max(a, b); });
  } else {
    got  = pstl::accumulate(v.begin(), v.end(), 0L, std::bit_xor<long>());
    want = std::accumulate(v.begin(), v.end(), 0L, std::bit_xor<long>());
  }
  if (got != want)
    fail(K + "differs-from-std-accumulate", "T=%u %s: returned %ld, expected %ld",
         T, V_ACC[var], got, want);
  sx::outcome((uint64_t)got);
}

static const char* V_MR[] = {"map=key*key+1 reduce=plus",
                             "map=(key<512) reduce=plus",
                             "map=key*31+id reduce=gmax identity=LONG_MIN"};
static void body_map_reduce(const Input& in, unsigned T, int var) {
  std::string K = "map_reduce:" + tk(T) + ":";
  runtime(T);
  if (in.n >= 2 && T >= 2)
    sx::mark_nontrivial();
  std::vector<Elem> v = in.make();
  long got, want;
  if (var == 0) {
    auto m = [](const Elem& e) { return (long)e.key * e.key + 1; };
    got    = pstl::map_reduce(v.begin(), v.end(), m, std::plus<long>(), 0L);
    want   = 0;
    for (auto& e : v)
      want = want + m(e);
  } else if (var == 1) {
    auto m = [](const Elem& e) { return P(e) ? 1L : 0L; };
    got    = pstl::map_reduce(v.begin(), v.end(), m, std::plus<long>(), 0L);
    want   = 0;
    for (auto& e : v)
      want = want + m(e);
  } else {
    auto m = [](const Elem& e) { return (long)e.key * 31 + e.id; };
    got  = pstl::map_reduce(v.begin(), v.end(), m, galois::gmax<long>(), LONG_MIN);
    want = LONG_MIN;
    for (auto& e : v)
      want = std::max(want, m(e));
  }
  if (got != want)
    fail(K + "differs-from-std-transform_reduce",
         "T=%u %s: returned %ld, expected %ld", T, V_MR[var], got, want);
  sx::outcome((uint64_t)got);
}

static const char* V_PS[] = {"out-of-place", "in-place (d_first == first)"};
static void body_partial_sum(const Input& in, unsigned T, int var) {
  std::string K = "partial_sum:" + tk(T) + ":";
  runtime(T);
  if (in.n >= BLOCK && T >= 2)
    sx::mark_nontrivial();
  std::vector<Elem> e = in.make();
  std::vector<long> src(in.n), ref(in.n);
  for (int i = 0; i < in.n; ++i)
    src[i] = (long)e[i].key - 300; // mixed signs
  std::partial_sum(src.begin(), src.end(), ref.begin());
  std::vector<long> a = src, out(in.n, -777);
  long rpos;
  std::vector<long>* res;
  if (var == 0) {
    auto ret = pstl::partial_sum(a.begin(), a.end(), out.begin());
    rpos     = ret - out.begin();
    res      = &out;
    if (a != src)
      fail(K + "input-modified", "T=%u %s: the input range was written", T,
           V_PS[var]);
  } else {
    auto ret = pstl::partial_sum(a.begin(), a.end(), a.begin());
    rpos     = ret - a.begin();
    res      = &a;
  }
  for (int i = 0; i < in.n; ++i)
    if ((*res)[i] != ref[i])
      fail(K + "differs-from-std-partial_sum",
           "T=%u %s: output[%d] = %ld, std::partial_sum gives %ld", T,
           V_PS[var], i, (*res)[i], ref[i]);
  if (rpos != in.n)
    fail(K + "wrong-return-iterator",
         "T=%u %s: returned d_first%+ld, expected d_first+%d", T, V_PS[var],
         rpos, in.n);
  sx::outcome(in.n ? (uint64_t)ref[in.n - 1] * 31 + in.n : 0);
}

// destroy: only the size matters
static int* g_destroyed;
struct Tracked {
  int slot;
  long payload;
  explicit Tracked(int s) : slot(s), payload(s * 3L) {}
  ~Tracked() { __atomic_fetch_add(&g_destroyed[slot], 1, __ATOMIC_RELAXED); }
};
static const int DSIZES[] = {0,    1,    2,    3,    4,    5,    6,   1023,
                             1024, 1025, 2047, 2048, 2049, 3072, 3073, 4096};
static const char* V_DESTROY[] = {"class type (counting destructor)",
                                  "scalar type (documented no-op)"};
static void body_destroy(int n, unsigned T, int var) {
  std::string K = "destroy:" + tk(T) + ":";
  runtime(T);
  if (n >= 2 && T >= 2)
    sx::mark_nontrivial();
  if (var == 1) {
    std::vector<int> v(n);
    for (int i = 0; i < n; ++i)
      v[i] = i * 5 + 1;
    pstl::destroy(v.data(), v.data() + n);
    for (int i = 0; i < n; ++i)
      if (v[i] != i * 5 + 1)
        fail(K + "scalar-modified", "T=%u n=%d: element %d changed", T, n, i);
    sx::outcome(n);
    return;
  }
  std::vector<int> counts(n, 0);
  g_destroyed  = counts.data();
  Tracked* buf = static_cast<Tracked*>(::operator new(sizeof(Tracked) * n + 1));
  for (int i = 0; i < n; ++i)
    new (buf + i) Tracked(i);
  pstl::destroy(buf, buf + n);
  for (int i = 0; i < n; ++i)
    if (counts[i] != 1) {
      int c = counts[i];
      ::operator delete(buf);
      fail(K + (c == 0 ? "element-not-destroyed" : "element-destroyed-twice"),
           "T=%u n=%d: element %d was destroyed %d times", T, n, i, c);
    }
  ::operator delete(buf);
  sx::outcome(n * 7 + 1);
}

// ---------------------------------------------------------------------------
// cpu tokens (see the header comment)
// ---------------------------------------------------------------------------
static const int HANG_SECONDS = 300;
struct Tokens {
  int n;
  std::atomic<int> owner[256]; // pid or 0
  // violation keys already handed to the driver (see report_to_driver)
  std::atomic<uint64_t> key[128];
  std::atomic<int> keycount[128];
};
static Tokens* g_tok;

static void tokens_init() {
  g_tok = (Tokens*)mmap(nullptr, sizeof(Tokens), PROT_READ | PROT_WRITE,
                        MAP_SHARED | MAP_ANONYMOUS, -1, 0);
  if (g_tok == MAP_FAILED) {
    g_tok = nullptr;
    return;
  }
  cpu_set_t set;
  int n = 16;
  if (sched_getaffinity(0, sizeof set, &set) == 0)
    n = CPU_COUNT(&set);
  if (const char* e = getenv("C16_TOKENS"))
    n = atoi(e);
  g_tok->n = std::min(256, std::max<int>(MAXT, n));
}

struct TokenHold {
  int held[MAXT];
  unsigned got = 0;
  explicit TokenHold(unsigned T) {
    if (!g_tok)
      return;
    int me = getpid();
    for (unsigned spins = 1;; ++spins) {
      for (int i = 0; i < g_tok->n && got < T; ++i) {
        int exp = 0;
        if (g_tok->owner[i].load(std::memory_order_relaxed) == 0 &&
            g_tok->owner[i].compare_exchange_strong(exp, me))
          held[got++] = i;
      }
      if (got == T)
        return;
      release();
      if (spins % 512 == 0) // reclaim the tokens of workers that died
        for (int i = 0; i < g_tok->n; ++i) {
          int o = g_tok->owner[i].load();
          if (o != 0 && kill(o, 0) != 0 && errno == ESRCH)
            g_tok->owner[i].compare_exchange_strong(o, 0);
        }
      usleep(40 + (me * 7 + spins * 13) % 80);
    }
  }
  void release() {
    for (unsigned j = 0; j < got; ++j)
      g_tok->owner[held[j]].store(0);
    got = 0;
  }
  ~TokenHold() {
    if (g_tok)
      release();
  }
};

// ---------------------------------------------------------------------------
// cases
// ---------------------------------------------------------------------------
struct Kernel {
  const char* name;
  int nvar_quick, nvar_thorough; // quick uses the first nvar_quick variants
  bool blocks4_in_quick;         // quick also gets all 4-block combinations
  const char* const* varnames;
  void (*body)(const Input&, unsigned, int);
  int weight; // share of the time budget (--deadline)
  int nvar(bool th) const { return th ? nvar_thorough : nvar_quick; }
  const std::vector<Input>& table(bool th) const {
    return inputs(th ? 2 : blocks4_in_quick ? 1 : 0);
  }
};
// sort and find_if are built on for_each, whose per-call cost (~0.3 ms on an
// idle machine, 50-100 ms when the machine is oversubscribed by other jobs)
// dominates the run time: quick gives each of them only its first variant
// (find_if: the unique-match-at-the-end situation is still in the quick tier
// through the "all false except the LAST element" inputs).
// (cheap kernels first: the driver hands unused time budget to later cases)
static const Kernel KERNELS[] = {
    {"count_if", 2, 2, false, V_PRED, body_count_if, 2},
    {"accumulate", 3, 3, false, V_ACC, body_accumulate, 3},
    {"map_reduce", 3, 3, false, V_MR, body_map_reduce, 3},
    {"partial_sum", 2, 2, false, V_PS, body_partial_sum, 2},
    {"partition", 3, 4, true, V_PART, body_partition, 4},
    {"sort", 1, 3, false, V_SORT, body_sort, 10},
    {"find_if", 1, 5, false, V_FIND, body_find_if, 20},
};

// idx = (input * nvar + variant) * MAXT + (T-1): inputs simplest first, and
// for one input all variants and thread counts before the next input
struct Decoded {
  uint64_t input;
  int var;
  unsigned T;
};
static Decoded decode(uint64_t idx, int nvar) {
  Decoded d;
  d.T = 1 + idx % MAXT;
  idx /= MAXT;
  d.var = idx % nvar;
  idx /= nvar;
  d.input = idx;
  return d;
}

// The driver keeps the first 64 failing runs of a case and then one per key;
// one flooding key (partition's out-of-range walk fails ~5000 runs) would push
// every other key out.  Only the first 2 failing runs of each key (across all
// workers) are therefore passed on; the others are still in C16_FAILLOG.
static bool report_to_driver(const std::string& key) {
  if (!g_tok)
    return true;
  uint64_t h = sx::hash_str(key) | 1;
  for (int i = 0; i < 128; ++i) {
    uint64_t cur = g_tok->key[i].load();
    if (cur == 0 && g_tok->key[i].compare_exchange_strong(cur, h))
      cur = h;
    if (cur == h)
      return g_tok->keycount[i].fetch_add(1) < 2;
  }
  return true;
}

// optional log of EVERY failing run (the driver keeps one per key):
// C16_FAILLOG=<file>
static void faillog(const std::string& cname, uint64_t idx,
                    const std::string& desc, const sx::Fail& f) {
  const char* path = getenv("C16_FAILLOG");
  if (!path)
    return;
  int fd = open(path, O_WRONLY | O_CREAT | O_APPEND, 0644);
  if (fd < 0)
    return;
  std::string line = cname + "\t" + std::to_string(idx) + "\t" + f.key + "\t" +
                     desc + "\t" + f.msg + "\n";
  (void)!write(fd, line.data(), line.size());
  close(fd);
}

static void guarded(unsigned T, const std::function<void()>& run) {
  TokenHold hold(T);
  alarm(HANG_SECONDS); // a livelock kills the worker: reported as <case>:crash
  try {
    run();
  } catch (...) {
    alarm(0);
    throw;
  }
  alarm(0);
}

int main(int argc, char** argv) {
  // Galois pins thread i of EVERY process to cpu i; with 16 worker processes
  // using <= 4 threads each that would put all of them on cpus 0-3.
  setenv("GALOIS_DO_NOT_BIND_THREADS", "1", 0);
  tokens_init(); // before the driver forks its workers

  std::vector<sx::EnumCase> en;
  for (const Kernel& k : KERNELS) {
    sx::EnumCase c;
    const Kernel* kp = &k;
    c.name = std::string("ParallelSTL::") + k.name +
             " x T=1..4 (all short sequences + all block combinations)";
    c.count = [kp](bool th) {
      return (uint64_t)kp->table(th).size() * kp->nvar(th) * MAXT;
    };
    c.describe = [kp](uint64_t idx, bool th) {
      Decoded d = decode(idx, kp->nvar(th));
      return "T=" + std::to_string(d.T) + " " + kp->varnames[d.var] + " " +
             kp->table(th)[d.input].str();
    };
    std::string cname = c.name;
    auto describe     = c.describe;
    c.run = [kp, cname, describe](uint64_t idx, bool th) {
      Decoded d       = decode(idx, kp->nvar(th));
      const Input& in = kp->table(th)[d.input];
      try {
        guarded(d.T, [&] { kp->body(in, d.T, d.var); });
      } catch (const sx::Fail& f) {
        faillog(cname, idx, describe(idx, th), f);
        if (report_to_driver(f.key))
          throw;
      }
    };
    c.weight = k.weight;
    en.push_back(c);
  }
  {
    sx::EnumCase c;
    const int ND = sizeof DSIZES / sizeof DSIZES[0];
    c.name  = "ParallelSTL::destroy x T=1..4 (sizes 0..6 and around the block size)";
    c.count = [](bool) { return (uint64_t)ND * 2 * MAXT; };
    c.describe = [](uint64_t idx, bool) {
      Decoded d = decode(idx, 2);
      return "T=" + std::to_string(d.T) + " " + V_DESTROY[d.var] +
             " n=" + std::to_string(DSIZES[d.input]);
    };
    auto describe = c.describe;
    std::string cname = c.name;
    c.run = [cname, describe](uint64_t idx, bool th) {
      Decoded d = decode(idx, 2);
      try {
        guarded(d.T, [&] { body_destroy(DSIZES[d.input], d.T, d.var); });
      } catch (const sx::Fail& f) {
        faillog(cname, idx, describe(idx, th), f);
        throw;
      }
    };
    en.insert(en.begin(), c); // cheapest case first
  }
  return sx::sx_main(argc, argv, "C16", {}, en);
}

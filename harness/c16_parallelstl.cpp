// C16: the galois::ParallelSTL algorithms (sort, partition, count_if, find_if,
// accumulate, map_reduce, partial_sum, destroy) return what their std::
// counterparts return.  Engine E2 (seqx input enumeration), DESIGN.md 7/C16,
// the "E2" half: every input of a structured family x thread count T in
// {1,2,3,4}, on the REAL library with T real (unscheduled) Galois threads.
//
// Thread interleavings are NOT controlled by this engine: every (input,
// variant, T) is run exactly once, with whatever interleaving the OS produces.
// The property has to hold for every interleaving, so a failure seen here is a
// genuine counterexample; a pass at T >= 2 only says that the one interleaving
// that happened was fine (schedule coverage is the job of the E1 half).  Runs
// at T = 1 are deterministic.
//
// Input family (built around the 1024-element serial cut-off that sort,
// partition and partial_sum have, and the 1024-element block partition claims):
//   * EVERY sequence of length <= 6 (thorough: <= 7) over the 3 keys
//     {1 (pred true), 600 (pred false), 2 (pred true)}: 1093 (3280) inputs,
//     covering sizes 0, 1, 2, ...
//   * sizes {1023, 1024, 1025, 2047, 2048, 2049, 3072, 3*1024+1, 4096}, the
//     sequence cut into 1024-blocks (last one partial), each block drawn from
//     the alphabet {all-true, all-false, alternating, sorted, reversed,
//     all-equal} (w.r.t. the predicate key < 512 / the sort key): ALL
//     combinations for <= 4 blocks (thorough); quick: ALL combinations for
//     <= 3 blocks, and for 3*1024+1 all combinations of the three full blocks
//     with the 1-element tail in {all-true, all-false};
//   * for each of those sizes the whole sequence ascending and descending
//     (already sorted / reversed / already partitioned across block borders).
// Each kernel additionally has a few variants (comparator, predicate,
// operator, in-place); see the V_* tables.
//
// Oracles demand only what the property / the header promise:
//   sort        key sequence equals std::sort's, result is a permutation
//   partition   returned point p in [first,last], [first,p) all satisfy,
//               [p,last) none satisfy, result is a permutation (NOT: the same
//               arrangement as std::partition)
//   find_if     `last` iff no element satisfies, otherwise ANY satisfying
//               element (a parallel find does not promise the first one)
//   count_if / accumulate / map_reduce / partial_sum   equal to std::
//               (accumulate's third argument is documented as the *identity*
//               of the operator, so only identities are passed, and only
//               associative+commutative operators are used)
//   destroy     every element destroyed exactly once
//
// Violation keys: <algorithm>:<T=1|T>1>:<symptom>.  T=1 findings are
// deterministic; T>1 findings depend on the interleaving.
//
// Non-trivial rule (sx::mark_nontrivial): the run used T >= 2 threads AND the
// input takes the parallel code path with more than one unit of work, i.e.
// n > 1024 for sort/partition, n >= 1024 for partial_sum, n >= 2 for the
// do_all/for_each based kernels (count_if, find_if, accumulate, map_reduce,
// destroy have no serial cut-off).
//
// partition is run in a forked child per (input, T) ("isolated"): on the
// unchanged tree it walks out of the array for some inputs (ASan abort), and a
// dead worker would hide the other partition findings and make the case
// non-exhaustive.  A crash/hang of the child is reported as an ordinary
// violation `partition:<T>:crash` / `:hang`.  All other kernels share one
// galois::SharedMemSys per worker process (so per-thread storage is recycled
// across thousands of calls, as in an application).
#include "seqx.h"

#include "galois/Galois.h"
#include "galois/ParallelSTL.h"
#include "galois/gstl.h"

#include <climits>
#include <numeric>
#include <sstream>

using sx::fail;
namespace pstl = galois::ParallelSTL;

// ---------------------------------------------------------------------------
// runtime
// ---------------------------------------------------------------------------
static const unsigned MAXT = 4;

static void runtime(unsigned T) {
  // created inside the worker (threads do not survive fork), once
  static galois::SharedMemSys* G = new galois::SharedMemSys();
  (void)G;
  unsigned got = galois::setActiveThreads(T);
  if (got != T)
    fail("harness:setActiveThreads", "asked for %u threads, got %u", T, got);
}

static std::string tk(unsigned T) { return T == 1 ? "T=1" : "T>1"; }

// ---------------------------------------------------------------------------
// inputs
// ---------------------------------------------------------------------------
struct Elem {
  int key;
  int id; // original position: makes elements distinguishable
};
static bool P(const Elem& e) { return e.key < 512; }

enum Pat { AT, AF, ALT, SORTED, REVERSED, EQ, NPAT };
static const char* PATNAME[] = {"all-true", "all-false", "alternating",
                                "sorted",   "reversed",  "all-equal"};
static const int SEQKEY[3]   = {1, 600, 2};
static const int BLOCK       = 1024;
static const int BSIZES[]    = {1023, 1024, 1025, 2047, 2048,
                                2049, 3072, 3073, 4096};

// key of element j of a block of length L
static int pat_key(int pat, int j, int L) {
  switch (pat) {
  case AT:
    return (j * 7) % 512; // distinct-ish, unsorted, all < 512
  case AF:
    return 512 + (j * 7) % 512;
  case ALT:
    return (j & 1) ? 512 + (j / 2) % 512 : (j / 2) % 512; // T F T F ...
  case SORTED:
    return (int)((long)j * 1024 / L); // ascending: trues then falses
  case REVERSED:
    return 1023 - (int)((long)j * 1024 / L); // descending: falses then trues
  default:
    return 511; // one value (the largest "true" key)
  }
}

struct Input {
  int n    = 0;
  int kind = 0;          // 0 explicit sequence, 1 block patterns, 2 whole ramp
  std::vector<int> code; // 0: symbols 0..2; 1: Pat per block; 2: {0 asc|1 desc}
  std::vector<Elem> make() const {
    std::vector<Elem> v(n);
    for (int i = 0; i < n; ++i) {
      int k;
      if (kind == 0)
        k = SEQKEY[code[i]];
      else if (kind == 1) {
        int b = i / BLOCK, L = std::min(BLOCK, n - b * BLOCK);
        k = pat_key(code[b], i - b * BLOCK, L);
      } else
        k = code[0] == 0 ? (int)((long)i * 1024 / n)
                         : 1023 - (int)((long)i * 1024 / n);
      v[i] = Elem{k, i};
    }
    return v;
  }
  std::string str() const {
    std::ostringstream o;
    o << "n=" << n;
    if (kind == 0) {
      o << " keys=[";
      for (int i = 0; i < n; ++i)
        o << (i ? "," : "") << SEQKEY[code[i]];
      o << "]";
    } else if (kind == 1) {
      o << " blocks=[";
      for (size_t b = 0; b < code.size(); ++b) {
        int L = std::min(BLOCK, n - (int)b * BLOCK);
        o << (b ? "," : "") << PATNAME[code[b]];
        if (L != BLOCK)
          o << "(" << L << ")";
      }
      o << "]";
    } else
      o << (code[0] == 0 ? " whole sequence ascending (keys i*1024/n)"
                         : " whole sequence descending (keys 1023-i*1024/n)");
    return o.str();
  }
};

static std::vector<Input> build_inputs(bool thorough) {
  std::vector<Input> out;
  int maxlen = thorough ? 7 : 6;
  for (int len = 0; len <= maxlen; ++len) {
    long cnt = 1;
    for (int i = 0; i < len; ++i)
      cnt *= 3;
    for (long c = 0; c < cnt; ++c) {
      Input in;
      in.n    = len;
      in.kind = 0;
      long x  = c;
      in.code.assign(len, 0);
      for (int i = len - 1; i >= 0; --i) { // lexicographic, simplest first
        in.code[i] = x % 3;
        x /= 3;
      }
      out.push_back(in);
    }
  }
  for (int n : BSIZES) {
    int nb = (n + BLOCK - 1) / BLOCK;
    std::vector<int> radix(nb, (int)NPAT);
    if (nb > 3) {
      if (!thorough && n == 3 * BLOCK + 1)
        radix[3] = 2; // quick: 1-element tail in {all-true, all-false}
      else if (!thorough)
        continue;
    }
    long cnt = 1;
    for (int r : radix)
      cnt *= r;
    for (long c = 0; c < cnt; ++c) {
      Input in;
      in.n    = n;
      in.kind = 1;
      in.code.assign(nb, 0);
      long x = c;
      for (int b = nb - 1; b >= 0; --b) {
        in.code[b] = x % radix[b];
        x /= radix[b];
      }
      out.push_back(in);
    }
    for (int d = 0; d < 2; ++d) {
      Input in;
      in.n    = n;
      in.kind = 2;
      in.code = {d};
      out.push_back(in);
    }
  }
  return out;
}
static const std::vector<Input>& inputs(bool thorough) {
  static std::vector<Input> q = build_inputs(false), t = build_inputs(true);
  return thorough ? t : q;
}

// is `got` a rearrangement of `orig` (orig[i].id == i)?
static bool is_permutation_of(const std::vector<Elem>& got,
                              const std::vector<Elem>& orig,
                              std::string& why) {
  size_t n = orig.size();
  if (got.size() != n) {
    why = "size changed";
    return false;
  }
  std::vector<char> seen(n, 0);
  for (size_t i = 0; i < n; ++i) {
    int id = got[i].id;
    char b[160];
    if (id < 0 || (size_t)id >= n) {
      snprintf(b, sizeof b, "position %zu holds an element (key %d, id %d) "
                            "that was never in the input",
               i, got[i].key, id);
      why = b;
      return false;
    }
    if (seen[id]) {
      snprintf(b, sizeof b, "input element #%d (key %d) occurs twice "
                            "(second time at position %zu)",
               id, orig[id].key, i);
      why = b;
      return false;
    }
    seen[id] = 1;
    if (got[i].key != orig[id].key) {
      snprintf(b, sizeof b, "input element #%d changed key %d -> %d", id,
               orig[id].key, got[i].key);
      why = b;
      return false;
    }
  }
  return true;
}

static uint64_t hash_keys(const std::vector<Elem>& v) {
  uint64_t h = v.size();
  for (auto& e : v)
    h = sx::mix(h, (uint64_t)e.key);
  return h;
}

// ---------------------------------------------------------------------------
// kernels.  body(input, T, variant) throws sx::Fail
// ---------------------------------------------------------------------------
struct ByKeyLess {
  bool operator()(const Elem& a, const Elem& b) const { return a.key < b.key; }
};
struct ByKeyGreater {
  bool operator()(const Elem& a, const Elem& b) const { return a.key > b.key; }
};

static const char* V_SORT[] = {"comp=less(key)", "comp=greater(key)",
                               "sort(first,last) on plain ints"};
static void body_sort(const Input& in, unsigned T, int var) {
  std::string K = "sort:" + tk(T) + ":";
  runtime(T);
  if (in.n > BLOCK && T >= 2)
    sx::mark_nontrivial();
  std::vector<Elem> orig = in.make();
  if (var == 2) {
    std::vector<int> v(in.n), ref;
    for (int i = 0; i < in.n; ++i)
      v[i] = orig[i].key;
    ref = v;
    pstl::sort(v.begin(), v.end());
    std::sort(ref.begin(), ref.end());
    for (int i = 0; i < in.n; ++i)
      if (v[i] != ref[i])
        fail(K + "differs-from-std-sort",
             "T=%u %s: position %d holds %d, std::sort gives %d", T,
             V_SORT[var], i, v[i], ref[i]);
    uint64_t h = in.n;
    for (int x : v)
      h = sx::mix(h, (uint64_t)x);
    sx::outcome(h);
    return;
  }
  std::vector<Elem> v = orig, ref = orig;
  if (var == 0) {
    pstl::sort(v.begin(), v.end(), ByKeyLess());
    std::sort(ref.begin(), ref.end(), ByKeyLess());
  } else {
    pstl::sort(v.begin(), v.end(), ByKeyGreater());
    std::sort(ref.begin(), ref.end(), ByKeyGreater());
  }
  std::string why;
  if (!is_permutation_of(v, orig, why))
    fail(K + "not-a-permutation", "T=%u %s: %s", T, V_SORT[var], why.c_str());
  for (int i = 0; i < in.n; ++i)
    if (v[i].key != ref[i].key)
      fail(K + "differs-from-std-sort",
           "T=%u %s: position %d holds key %d, std::sort gives key %d", T,
           V_SORT[var], i, v[i].key, ref[i].key);
  sx::outcome(hash_keys(v));
}

static const char* V_PRED[] = {"pred=key<512", "pred=key>=512"};
static void body_partition(const Input& in, unsigned T, int var) {
  std::string K = "partition:" + tk(T) + ":";
  runtime(T);
  if (in.n > BLOCK && T >= 2)
    sx::mark_nontrivial();
  std::vector<Elem> orig = in.make(), v = orig;
  auto pred = [var](const Elem& e) { return var == 0 ? P(e) : !P(e); };
  auto ret  = pstl::partition(v.begin(), v.end(), pred);
  long n = in.n, r = ret - v.begin();
  if (r < 0 || r > n)
    fail(K + "point-out-of-range",
         "T=%u %s: returned first%+ld, outside [first,last] (n=%ld)", T,
         V_PRED[var], r, n);
  std::string why;
  if (!is_permutation_of(v, orig, why))
    fail(K + "not-a-permutation", "T=%u %s: %s", T, V_PRED[var], why.c_str());
  long ntrue = std::count_if(orig.begin(), orig.end(), pred);
  long ff    = std::find_if_not(v.begin(), v.end(), pred) - v.begin();
  for (long i = ff; i < n; ++i)
    if (pred(v[i]))
      fail(K + "range-not-partitioned",
           "T=%u %s: returned first+%ld (%ld elements satisfy); position %ld "
           "does not satisfy the predicate but the later position %ld does",
           T, V_PRED[var], r, ntrue, ff, i);
  if (r != ntrue) {
    if (r > ntrue)
      fail(K + "wrong-partition-point",
           "T=%u %s: returned first+%ld but only %ld elements satisfy: "
           "[first,ret) contains the non-satisfying position %ld (the range "
           "itself is partitioned at %ld)",
           T, V_PRED[var], r, ntrue, ntrue, ntrue);
    fail(K + "wrong-partition-point",
         "T=%u %s: returned first+%ld but %ld elements satisfy: [ret,last) "
         "contains the satisfying position %ld (the range itself is "
         "partitioned at %ld)",
         T, V_PRED[var], r, ntrue, r, ntrue);
  }
  sx::outcome(sx::mix(hash_keys(v), (uint64_t)r));
}

static void body_count_if(const Input& in, unsigned T, int var) {
  std::string K = "count_if:" + tk(T) + ":";
  runtime(T);
  if (in.n >= 2 && T >= 2)
    sx::mark_nontrivial();
  std::vector<Elem> v = in.make();
  auto pred = [var](const Elem& e) { return var == 0 ? P(e) : !P(e); };
  size_t got  = pstl::count_if(v.begin(), v.end(), pred);
  size_t want = std::count_if(v.begin(), v.end(), pred);
  if (got != want)
    fail(K + "differs-from-std-count_if", "T=%u %s: returned %zu, expected %zu",
         T, V_PRED[var], got, want);
  sx::outcome(got);
}

static const char* V_FIND[] = {"pred=key<512", "pred=key>=512", "pred=id==0",
                               "pred=id==n-1", "pred=id==n/2"};
static void body_find_if(const Input& in, unsigned T, int var) {
  std::string K = "find_if:" + tk(T) + ":";
  runtime(T);
  if (in.n >= 2 && T >= 2)
    sx::mark_nontrivial();
  std::vector<Elem> v = in.make();
  int n               = in.n;
  auto pred           = [var, n](const Elem& e) {
    switch (var) {
    case 0:
      return P(e);
    case 1:
      return !P(e);
    case 2:
      return e.id == 0;
    case 3:
      return e.id == n - 1;
    default:
      return e.id == n / 2;
    }
  };
  auto ret    = pstl::find_if(v.begin(), v.end(), pred);
  long r      = ret - v.begin();
  long first  = std::find_if(v.begin(), v.end(), pred) - v.begin();
  long nmatch = std::count_if(v.begin(), v.end(), pred);
  if (r < 0 || r > n)
    fail(K + "returned-out-of-range", "T=%u %s: returned first%+ld (n=%d)", T,
         V_FIND[var], r, n);
  if (nmatch == 0) {
    if (r != n)
      fail(K + "returned-element-although-none-matches",
           "T=%u %s: nothing satisfies the predicate but first+%ld was "
           "returned instead of last",
           T, V_FIND[var], r);
  } else {
    if (r == n)
      fail(K + "returned-last-although-match-exists",
           "T=%u %s: returned last, but %ld element(s) satisfy the predicate "
           "(the first at position %ld)",
           T, V_FIND[var], nmatch, first);
    if (!pred(v[r]))
      fail(K + "returned-non-matching-element",
           "T=%u %s: returned first+%ld (key %d) which does not satisfy the "
           "predicate; %ld element(s) do",
           T, V_FIND[var], r, v[r].key, nmatch);
  }
  sx::outcome(sx::mix((uint64_t)r, (uint64_t)n));
}

// NOTE: the 3-argument overload accumulate(first, last, identity) cannot be
// exercised: its body calls `accumulate(first, last, identity, std::plus<T>())`
// unqualified, std::plus<T> makes namespace std associated, and the call is
// ambiguous with std::accumulate for EVERY iterator/value type (hard compile
// error inside the template, ParallelSTL.h:282).  Reported as a finding; the
// 4-argument overload is what is enumerated here.
static const char* V_ACC[] = {"op=std::plus identity=0",
                              "op=gmax identity=LONG_MIN",
                              "op=bit_xor identity=0"};
static void body_accumulate(const Input& in, unsigned T, int var) {
  std::string K = "accumulate:" + tk(T) + ":";
  runtime(T);
  if (in.n >= 2 && T >= 2)
    sx::mark_nontrivial();
  std::vector<Elem> e = in.make();
  std::vector<long> v(in.n);
  for (int i = 0; i < in.n; ++i)
    v[i] = (long)e[i].key * 1000003L + i; // large, distinct
  long got, want;
  if (var == 0) {
    got  = pstl::accumulate(v.begin(), v.end(), 0L, std::plus<long>());
    want = std::accumulate(v.begin(), v.end(), 0L);
  } else if (var == 1) {
    got  = pstl::accumulate(v.begin(), v.end(), LONG_MIN, galois::gmax<long>());
    want = std::accumulate(v.begin(), v.end(), LONG_MIN,
                           [](long a, long b) { return std::max(a, b); });
  } else {
    got  = pstl::accumulate(v.begin(), v.end(), 0L, std::bit_xor<long>());
    want = std::accumulate(v.begin(), v.end(), 0L, std::bit_xor<long>());
  }
  if (got != want)
    fail(K + "differs-from-std-accumulate", "T=%u %s: returned %ld, expected %ld",
         T, V_ACC[var], got, want);
  sx::outcome((uint64_t)got);
}

static const char* V_MR[] = {"map=key*key+1 reduce=plus",
                             "map=(key<512) reduce=plus",
                             "map=key*31+id reduce=gmax identity=LONG_MIN"};
static void body_map_reduce(const Input& in, unsigned T, int var) {
  std::string K = "map_reduce:" + tk(T) + ":";
  runtime(T);
  if (in.n >= 2 && T >= 2)
    sx::mark_nontrivial();
  std::vector<Elem> v = in.make();
  long got, want;
  if (var == 0) {
    auto m = [](const Elem& e) { return (long)e.key * e.key + 1; };
    got    = pstl::map_reduce(v.begin(), v.end(), m, std::plus<long>(), 0L);
    want   = 0;
    for (auto& e : v)
      want = want + m(e);
  } else if (var == 1) {
    auto m = [](const Elem& e) { return P(e) ? 1L : 0L; };
    got    = pstl::map_reduce(v.begin(), v.end(), m, std::plus<long>(), 0L);
    want   = 0;
    for (auto& e : v)
      want = want + m(e);
  } else {
    auto m = [](const Elem& e) { return (long)e.key * 31 + e.id; };
    got  = pstl::map_reduce(v.begin(), v.end(), m, galois::gmax<long>(), LONG_MIN);
    want = LONG_MIN;
    for (auto& e : v)
      want = std::max(want, m(e));
  }
  if (got != want)
    fail(K + "differs-from-std-transform_reduce",
         "T=%u %s: returned %ld, expected %ld", T, V_MR[var], got, want);
  sx::outcome((uint64_t)got);
}

static const char* V_PS[] = {"out-of-place", "in-place (d_first == first)"};
static void body_partial_sum(const Input& in, unsigned T, int var) {
  std::string K = "partial_sum:" + tk(T) + ":";
  runtime(T);
  if (in.n >= BLOCK && T >= 2)
    sx::mark_nontrivial();
  std::vector<Elem> e = in.make();
  std::vector<long> src(in.n), ref(in.n);
  for (int i = 0; i < in.n; ++i)
    src[i] = (long)e[i].key - 300; // mixed signs
  std::partial_sum(src.begin(), src.end(), ref.begin());
  std::vector<long> a = src, out(in.n, -777);
  long rpos;
  std::vector<long>* res;
  if (var == 0) {
    auto ret = pstl::partial_sum(a.begin(), a.end(), out.begin());
    rpos     = ret - out.begin();
    res      = &out;
    if (a != src)
      fail(K + "input-modified", "T=%u %s: the input range was written", T,
           V_PS[var]);
  } else {
    auto ret = pstl::partial_sum(a.begin(), a.end(), a.begin());
    rpos     = ret - a.begin();
    res      = &a;
  }
  for (int i = 0; i < in.n; ++i)
    if ((*res)[i] != ref[i])
      fail(K + "differs-from-std-partial_sum",
           "T=%u %s: output[%d] = %ld, std::partial_sum gives %ld", T,
           V_PS[var], i, (*res)[i], ref[i]);
  if (rpos != in.n)
    fail(K + "wrong-return-iterator",
         "T=%u %s: returned d_first%+ld, expected d_first+%d", T, V_PS[var],
         rpos, in.n);
  sx::outcome(in.n ? (uint64_t)ref[in.n - 1] * 31 + in.n : 0);
}

// destroy: only the size matters
static int* g_destroyed;
struct Tracked {
  int slot;
  long payload;
  explicit Tracked(int s) : slot(s), payload(s * 3L) {}
  ~Tracked() { __atomic_fetch_add(&g_destroyed[slot], 1, __ATOMIC_RELAXED); }
};
static const int DSIZES[] = {0,    1,    2,    3,    4,    5,    6,   1023,
                             1024, 1025, 2047, 2048, 2049, 3072, 3073, 4096};
static const char* V_DESTROY[] = {"class type (counting destructor)",
                                  "scalar type (documented no-op)"};
static void body_destroy(int n, unsigned T, int var) {
  std::string K = "destroy:" + tk(T) + ":";
  runtime(T);
  if (n >= 2 && T >= 2)
    sx::mark_nontrivial();
  if (var == 1) {
    std::vector<int> v(n);
    for (int i = 0; i < n; ++i)
      v[i] = i * 5 + 1;
    pstl::destroy(v.data(), v.data() + n);
    for (int i = 0; i < n; ++i)
      if (v[i] != i * 5 + 1)
        fail(K + "scalar-modified", "T=%u n=%d: element %d changed", T, n, i);
    sx::outcome(n);
    return;
  }
  std::vector<int> counts(n, 0);
  g_destroyed  = counts.data();
  Tracked* buf = static_cast<Tracked*>(::operator new(sizeof(Tracked) * n + 1));
  for (int i = 0; i < n; ++i)
    new (buf + i) Tracked(i);
  pstl::destroy(buf, buf + n);
  for (int i = 0; i < n; ++i)
    if (counts[i] != 1) {
      int c = counts[i];
      ::operator delete(buf);
      fail(K + (c == 0 ? "element-not-destroyed" : "element-destroyed-twice"),
           "T=%u n=%d: element %d was destroyed %d times", T, n, i, c);
    }
  ::operator delete(buf);
  sx::outcome(n * 7 + 1);
}

// ---------------------------------------------------------------------------
// isolation: run one body in a forked child with its own Galois runtime
// ---------------------------------------------------------------------------
struct IsoResult {
  volatile int done, failed, nontrivial;
  volatile uint64_t outcome;
  char key[160];
  char msg[1200];
};
static const int HANG_SECONDS = 120;

static std::string crash_summary(int fd) {
  std::string text, out;
  char buf[4096];
  lseek(fd, 0, SEEK_SET);
  ssize_t k;
  while ((k = read(fd, buf, sizeof buf)) > 0 && text.size() < (1u << 20))
    text.append(buf, k);
  std::istringstream is(text);
  std::string line;
  bool frame = false;
  while (std::getline(is, line)) {
    bool take = line.find("ERROR: AddressSanitizer") != std::string::npos ||
                line.find("SUMMARY:") != std::string::npos ||
                line.find("Assertion") != std::string::npos ||
                line.find("terminate called") != std::string::npos ||
                line.find("what():") != std::string::npos;
    if (!take && !frame && line.find("ParallelSTL.h") != std::string::npos) {
      take  = true; // innermost frame inside the header under test
      frame = true;
    }
    if (take && out.size() < 700)
      out += line.substr(0, 300) + " | ";
  }
  return out;
}

static void isolated(const std::string& comp, unsigned T,
                     const std::function<void()>& body) {
  static IsoResult* res = (IsoResult*)mmap(
      nullptr, sizeof(IsoResult), PROT_READ | PROT_WRITE,
      MAP_SHARED | MAP_ANONYMOUS, -1, 0);
  memset((void*)res, 0, sizeof *res);
  int efd = memfd_create("c16-stderr", 0);
  fflush(stdout);
  fflush(stderr);
  pid_t p = fork();
  if (p == 0) {
    if (efd >= 0) {
      dup2(efd, 2);
      dup2(efd, 1);
    }
    alarm(HANG_SECONDS);
    sx::info() = sx::RunInfo();
    try {
      body();
    } catch (const sx::Fail& f) {
      res->failed = 1;
      snprintf(res->key, sizeof res->key, "%s", f.key.c_str());
      snprintf(res->msg, sizeof res->msg, "%s", f.msg.c_str());
    }
    res->nontrivial = sx::info().nontrivial;
    res->outcome    = sx::info().outcome;
    res->done       = 1;
    _exit(0);
  }
  int status = 0;
  while (waitpid(p, &status, 0) < 0 && errno == EINTR) {
  }
  std::string summary;
  bool ok = WIFEXITED(status) && WEXITSTATUS(status) == 0 && res->done;
  if (!ok && efd >= 0)
    summary = crash_summary(efd);
  if (efd >= 0)
    close(efd);
  if (!ok) {
    if (WIFSIGNALED(status) && WTERMSIG(status) == SIGALRM)
      fail(comp + ":" + tk(T) + ":hang", "T=%u: no result after %d s", T,
           HANG_SECONDS);
    fail(comp + ":" + tk(T) + ":crash", "T=%u: process died (wait status %d) %s",
         T, status, summary.c_str());
  }
  if (res->nontrivial)
    sx::mark_nontrivial();
  sx::outcome(res->outcome);
  if (res->failed)
    throw sx::Fail{std::string(res->key), std::string(res->msg)};
}

// ---------------------------------------------------------------------------
// cases
// ---------------------------------------------------------------------------
struct Kernel {
  const char* name;
  int nvar;
  const char* const* varnames;
  bool isolate;
  void (*body)(const Input&, unsigned, int);
};
static const Kernel KERNELS[] = {
    {"sort", 3, V_SORT, false, body_sort},
    {"partition", 2, V_PRED, true, body_partition},
    {"count_if", 2, V_PRED, false, body_count_if},
    {"find_if", 5, V_FIND, false, body_find_if},
    {"accumulate", 3, V_ACC, false, body_accumulate},
    {"map_reduce", 3, V_MR, false, body_map_reduce},
    {"partial_sum", 2, V_PS, false, body_partial_sum},
};

// idx = (input * nvar + variant) * MAXT + (T-1): inputs simplest first, and
// for one input all variants and thread counts before the next input
struct Decoded {
  uint64_t input;
  int var;
  unsigned T;
};
static Decoded decode(uint64_t idx, int nvar) {
  Decoded d;
  d.T = 1 + idx % MAXT;
  idx /= MAXT;
  d.var = idx % nvar;
  idx /= nvar;
  d.input = idx;
  return d;
}

// optional log of EVERY failing run (the driver keeps one per key):
// C16_FAILLOG=<file>
static void faillog(const std::string& cname, uint64_t idx,
                    const std::string& desc, const sx::Fail& f) {
  const char* path = getenv("C16_FAILLOG");
  if (!path)
    return;
  int fd = open(path, O_WRONLY | O_CREAT | O_APPEND, 0644);
  if (fd < 0)
    return;
  std::string line = cname + "\t" + std::to_string(idx) + "\t" + f.key + "\t" +
                     desc + "\t" + f.msg + "\n";
  (void)!write(fd, line.data(), line.size());
  close(fd);
}

static void guarded(const std::function<void()>& run) {
  alarm(3 * HANG_SECONDS); // a livelock kills the worker: reported as :crash
  try {
    run();
  } catch (...) {
    alarm(0);
    throw;
  }
  alarm(0);
}

int main(int argc, char** argv) {
  // Galois pins thread i of EVERY process to cpu i; with 16 worker processes
  // using <= 4 threads each that would put all of them on cpus 0-3.
  setenv("GALOIS_DO_NOT_BIND_THREADS", "1", 0);

  std::vector<sx::EnumCase> en;
  for (const Kernel& k : KERNELS) {
    sx::EnumCase c;
    const Kernel* kp = &k;
    c.name = std::string("ParallelSTL::") + k.name +
             " x T=1..4 (all short sequences + all block combinations)";
    c.count = [kp](bool th) {
      return (uint64_t)inputs(th).size() * kp->nvar * MAXT;
    };
    c.describe = [kp](uint64_t idx, bool th) {
      Decoded d = decode(idx, kp->nvar);
      return "T=" + std::to_string(d.T) + " " + kp->varnames[d.var] + " " +
             inputs(th)[d.input].str();
    };
    std::string cname = c.name;
    auto describe     = c.describe;
    c.run = [kp, cname, describe](uint64_t idx, bool th) {
      Decoded d       = decode(idx, kp->nvar);
      const Input& in = inputs(th)[d.input];
      try {
        if (kp->isolate)
          isolated(kp->name, d.T, [&] { kp->body(in, d.T, d.var); });
        else
          guarded([&] { kp->body(in, d.T, d.var); });
      } catch (const sx::Fail& f) {
        faillog(cname, idx, describe(idx, th), f);
        throw;
      }
    };
    c.weight = k.nvar;
    en.push_back(c);
  }
  {
    sx::EnumCase c;
    const int ND = sizeof DSIZES / sizeof DSIZES[0];
    c.name  = "ParallelSTL::destroy x T=1..4 (sizes 0..6 and around the block size)";
    c.count = [](bool) { return (uint64_t)ND * 2 * MAXT; };
    c.describe = [](uint64_t idx, bool) {
      Decoded d = decode(idx, 2);
      return "T=" + std::to_string(d.T) + " " + V_DESTROY[d.var] +
             " n=" + std::to_string(DSIZES[d.input]);
    };
    auto describe = c.describe;
    std::string cname = c.name;
    c.run = [cname, describe](uint64_t idx, bool th) {
      Decoded d = decode(idx, 2);
      try {
        guarded([&] { body_destroy(DSIZES[d.input], d.T, d.var); });
      } catch (const sx::Fail& f) {
        faillog(cname, idx, describe(idx, th), f);
        throw;
      }
    };
    en.push_back(c);
  }
  return sx::sx_main(argc, argv, "C16", {}, en);
}

// e4_common.h -- shared pieces of the E4 ("mpix") harnesses c19_partition.cpp
// and c18_gluon.cpp: one `mpirun -np h` session loops over the cases listed in
// a session file written by /verif/harness/e4_driver.py, partitions every
// input with the REAL CuSP code (cuspPartitionGraph<Policy,...>), gathers the
// state of all hosts to rank 0 with plain MPI on a PRIVATE communicator (the
// Galois network thread probes MPI_COMM_WORLD with MPI_ANY_SOURCE/ANY_TAG, so
// harness traffic must not travel there) and checks it against the input.
//
// Session file: one case per line, whitespace separated key/value pairs
//   case <id> n <n> gr <file> tgr <file|-> policy <Class> in <csr|csc>
//   out <csr|csc> sym <0|1> edata <void|u32> read <0|1|2> casync <0|1>
//   rounds <k> [c18 options ...] edges <m> s d w s d w ...
// `edges` is the list the oracle uses: for sym=1 it is the symmetric graph
// itself (both directions listed), w is the uint32 edge datum (ignored for
// edata=void).  `gr` holds exactly these edges (CSR), `tgr` the transposed
// graph carrying the same datum per edge.
//
// Result file (written by rank 0 only): one JSON object per line,
//   {"begin":id}                     before a case starts (crash attribution)
//   {"id":id,"viol":[{"key","msg"}],"stats":{...}}   when it finished
#ifndef VERIF_E4_COMMON_H
#define VERIF_E4_COMMON_H

#include "galois/DistGalois.h"
#include "galois/graphs/CuSPPartitioner.h"
#include "galois/runtime/Network.h"

#include <mpi.h>
#include <unistd.h>

#include <algorithm>
#include <cstdarg>
#include <cstdint>
#include <cstdio>
#include <cstdlib>
#include <cstring>
#include <fstream>
#include <map>
#include <set>
#include <sstream>
#include <string>
#include <vector>

namespace e4 {

struct Edge {
  uint64_t s, d;
  uint32_t w;
};

struct Case {
  long id = -1;
  uint64_t n = 0;
  std::string gr, tgr, policy, in, out, edata;
  int sym = 0, read = 1, casync = 1;
  unsigned rounds = 100;
  std::map<std::string, std::string> opt; // harness specific options
  std::vector<Edge> edges;
  std::string label() const {
    std::ostringstream o;
    o << policy << "/" << in << "->" << out << (sym ? "/sym" : "") << "/"
      << edata << "/read" << read << (casync ? "" : "/sync-assign");
    return o.str();
  }
};

inline bool parse_case(const std::string& line, Case& c) {
  std::istringstream is(line);
  std::string k;
  if (!(is >> k) || k != "case")
    return false;
  is >> c.id;
  while (is >> k) {
    if (k == "edges") {
      size_t m;
      is >> m;
      c.edges.resize(m);
      for (size_t i = 0; i < m; ++i)
        is >> c.edges[i].s >> c.edges[i].d >> c.edges[i].w;
      break;
    }
    std::string v;
    is >> v;
    if (k == "n")
      c.n = strtoull(v.c_str(), 0, 10);
    else if (k == "gr")
      c.gr = v;
    else if (k == "tgr")
      c.tgr = v;
    else if (k == "policy")
      c.policy = v;
    else if (k == "in")
      c.in = v;
    else if (k == "out")
      c.out = v;
    else if (k == "sym")
      c.sym = atoi(v.c_str());
    else if (k == "edata")
      c.edata = v;
    else if (k == "read")
      c.read = atoi(v.c_str());
    else if (k == "casync")
      c.casync = atoi(v.c_str());
    else if (k == "rounds")
      c.rounds = atoi(v.c_str());
    else
      c.opt[k] = v;
  }
  return true;
}

inline std::vector<Case> read_session(const char* path) {
  std::vector<Case> v;
  std::ifstream f(path);
  std::string line;
  while (std::getline(f, line)) {
    Case c;
    if (parse_case(line, c))
      v.push_back(c);
  }
  return v;
}

// ---- partition dispatch ---------------------------------------------------
template <typename NodeData, typename EdgeData>
using GraphPtr = std::unique_ptr<galois::graphs::DistGraph<NodeData, EdgeData>>;

template <typename Policy, typename NodeData, typename EdgeData>
GraphPtr<NodeData, EdgeData> partition_with(const Case& c) {
  galois::CUSP_GRAPH_TYPE in =
      c.in == "csc" ? galois::CUSP_CSC : galois::CUSP_CSR;
  galois::CUSP_GRAPH_TYPE out =
      c.out == "csc" ? galois::CUSP_CSC : galois::CUSP_CSR;
  galois::graphs::MASTERS_DISTRIBUTION md =
      c.read == 0   ? galois::graphs::BALANCED_MASTERS
      : c.read == 2 ? galois::graphs::BALANCED_MASTERS_AND_EDGES
                    : galois::graphs::BALANCED_EDGES_OF_MASTERS;
  return galois::cuspPartitionGraph<Policy, NodeData, EdgeData>(
      c.gr, in, out, c.sym != 0, c.tgr == "-" ? std::string("") : c.tgr, "",
      c.casync != 0, c.rounds, md, 0, 0);
}

template <typename NodeData, typename EdgeData>
GraphPtr<NodeData, EdgeData> partition(const Case& c) {
  const std::string& p = c.policy;
  if (p == "NoCommunication")
    return partition_with<NoCommunication, NodeData, EdgeData>(c);
  if (p == "GenericCVC")
    return partition_with<GenericCVC, NodeData, EdgeData>(c);
  if (p == "GenericCVCColumnFlip")
    return partition_with<GenericCVCColumnFlip, NodeData, EdgeData>(c);
  if (p == "GenericHVC")
    return partition_with<GenericHVC, NodeData, EdgeData>(c);
  if (p == "GingerP")
    return partition_with<GingerP, NodeData, EdgeData>(c);
  if (p == "FennelP")
    return partition_with<FennelP, NodeData, EdgeData>(c);
  if (p == "SugarP")
    return partition_with<SugarP, NodeData, EdgeData>(c);
  if (p == "SugarColumnFlipP")
    return partition_with<SugarColumnFlipP, NodeData, EdgeData>(c);
  fprintf(stderr, "e4: unknown policy %s\n", p.c_str());
  MPI_Abort(MPI_COMM_WORLD, 2);
  return nullptr;
}

// ---- gather ---------------------------------------------------------------
struct Comm {
  MPI_Comm comm = MPI_COMM_NULL;
  int rank = 0, size = 1;
  void init() {
    MPI_Comm_dup(MPI_COMM_WORLD, &comm);
    MPI_Comm_rank(comm, &rank);
    MPI_Comm_size(comm, &size);
  }
  // every rank contributes a vector; rank 0 gets one vector per rank
  std::vector<std::vector<uint64_t>> gather(const std::vector<uint64_t>& mine) {
    unsigned long long cnt = mine.size();
    std::vector<unsigned long long> cnts(size);
    MPI_Gather(&cnt, 1, MPI_UNSIGNED_LONG_LONG, cnts.data(), 1,
               MPI_UNSIGNED_LONG_LONG, 0, comm);
    std::vector<int> ic(size), disp(size);
    size_t tot = 0;
    if (rank == 0)
      for (int i = 0; i < size; ++i) {
        ic[i]   = (int)cnts[i];
        disp[i] = (int)tot;
        tot += cnts[i];
      }
    std::vector<uint64_t> all(tot ? tot : 1);
    MPI_Gatherv(mine.data(), (int)cnt, MPI_UINT64_T, all.data(), ic.data(),
                disp.data(), MPI_UINT64_T, 0, comm);
    std::vector<std::vector<uint64_t>> out;
    if (rank == 0) {
      out.resize(size);
      for (int i = 0; i < size; ++i)
        out[i].assign(all.begin() + disp[i], all.begin() + disp[i] + ic[i]);
    }
    return out;
  }
  void bcast(std::vector<uint64_t>& v) {
    unsigned long long cnt = v.size();
    MPI_Bcast(&cnt, 1, MPI_UNSIGNED_LONG_LONG, 0, comm);
    v.resize(cnt);
    if (cnt)
      MPI_Bcast(v.data(), (int)cnt, MPI_UINT64_T, 0, comm);
  }
  void barrier() { MPI_Barrier(comm); }
};

// ---- output of the ranks ---------------------------------------------------------
// Galois prints ~20 lines per partitioned graph and a statistics dump at exit.
// Through mpirun's stdout/stderr forwarding these go into pipes; when mpirun
// is slow (or stopped) a full pipe blocks the rank inside write() at whatever
// it prints next -- sessions then "hang" at arbitrary places.  Every rank
// therefore sends its own stdout and stderr to a file of its own:
//   <RESULT_FILE>.<pid>.log
inline void redirect_output(const char* resultFile) {
  char path[4096];
  snprintf(path, sizeof path, "%s.%d.log", resultFile, (int)getpid());
  // both in append mode: two streams on one file must not overwrite each other
  if (!freopen(path, "a", stdout) || !freopen(path, "a", stderr))
    _exit(3);
  setvbuf(stdout, nullptr, _IOLBF, 0);
  setvbuf(stderr, nullptr, _IONBF, 0);
}

// ---- reporting --------------------------------------------------------------
inline std::string jesc(const std::string& s) {
  std::string o;
  for (char ch : s) {
    if (ch == '"' || ch == '\\') {
      o += '\\';
      o += ch;
    } else if (ch == '\n')
      o += "\\n";
    else if ((unsigned char)ch < 0x20)
      o += ' ';
    else
      o += ch;
  }
  return o;
}

struct Viol {
  std::string key, msg;
  std::string at; // optional "k=v k=v" narrowing options for the replay
};

struct Report {
  std::vector<Viol> viol;
  std::set<std::string> keys;
  void fail(const std::string& key, const char* fmt, ...) {
    if (keys.count(key)) // one message per key per case is enough
      return;
    keys.insert(key);
    char buf[1600];
    va_list ap;
    va_start(ap, fmt);
    vsnprintf(buf, sizeof buf, fmt, ap);
    va_end(ap);
    viol.push_back(Viol{key, buf, ""});
  }
};

inline void emit_begin(FILE* f, long id) {
  fprintf(f, "{\"begin\":%ld}\n", id);
  fflush(f);
}

inline void emit_result(FILE* f, long id, const Report& r,
                        const std::string& stats_json) {
  fprintf(f, "{\"id\":%ld,\"viol\":[", id);
  for (size_t i = 0; i < r.viol.size(); ++i)
    fprintf(f, "%s{\"key\":\"%s\",\"msg\":\"%s\",\"at\":\"%s\"}",
            i ? "," : "", jesc(r.viol[i].key).c_str(),
            jesc(r.viol[i].msg).c_str(), jesc(r.viol[i].at).c_str());
  fprintf(f, "],\"stats\":%s}\n", stats_json.c_str());
  fflush(f);
}

// ---- per-host partition dump ------------------------------------------------
// Layout of the uint64 vector every host contributes (C19 oracle input).
struct HostDump {
  uint64_t numNodes = 0, numOwned = 0, numNodesWithEdges = 0, numEdges = 0,
           transposed = 0, vertexCut = 0, gridR = 0, gridC = 0, globalNodes = 0,
           globalEdges = 0;
  std::vector<uint64_t> l2g;       // per lid
  std::vector<uint64_t> g2l_of_l2g; // per lid: getLID(getGID(lid))
  std::vector<uint64_t> owned;     // per lid: isOwned(gid)
  std::vector<uint64_t> hostOf;    // per lid: getHostID(gid)
  std::vector<uint64_t> isLocal;   // per gid in [0,n)
  std::vector<uint64_t> lidOf;     // per gid: getLID(gid) if local else ~0
  struct LE {
    uint64_t ls, ld, w;
  };
  std::vector<LE> edges; // local edges in local ids, in CSR order
  std::vector<std::vector<uint64_t>> mirrorsGid; // per peer, before substrate
  std::vector<std::vector<uint64_t>> mirrorsLid; // per peer, after substrate
  std::vector<std::vector<uint64_t>> mastersLid; // per peer, after substrate

  std::vector<uint64_t> pack() const {
    std::vector<uint64_t> v = {numNodes,    numOwned,  numNodesWithEdges,
                               numEdges,    transposed, vertexCut,
                               gridR,       gridC,     globalNodes,
                               globalEdges, isLocal.size(), edges.size(),
                               mirrorsGid.size()};
    auto app = [&](const std::vector<uint64_t>& a) {
      v.insert(v.end(), a.begin(), a.end());
    };
    app(l2g);
    app(g2l_of_l2g);
    app(owned);
    app(hostOf);
    app(isLocal);
    app(lidOf);
    for (auto& e : edges) {
      v.push_back(e.ls);
      v.push_back(e.ld);
      v.push_back(e.w);
    }
    for (auto* lists : {&mirrorsGid, &mirrorsLid, &mastersLid})
      for (auto& l : *lists) {
        v.push_back(l.size());
        app(l);
      }
    return v;
  }
  bool unpack(const std::vector<uint64_t>& v) {
    size_t p = 0;
    auto need = [&](size_t k) { return p + k <= v.size(); };
    if (!need(13))
      return false;
    numNodes          = v[p++];
    numOwned          = v[p++];
    numNodesWithEdges = v[p++];
    numEdges          = v[p++];
    transposed        = v[p++];
    vertexCut         = v[p++];
    gridR             = v[p++];
    gridC             = v[p++];
    globalNodes       = v[p++];
    globalEdges       = v[p++];
    size_t n = v[p++], m = v[p++], peers = v[p++];
    auto take = [&](std::vector<uint64_t>& a, size_t k) {
      if (!need(k))
        return false;
      a.assign(v.begin() + p, v.begin() + p + k);
      p += k;
      return true;
    };
    if (!take(l2g, numNodes) || !take(g2l_of_l2g, numNodes) ||
        !take(owned, numNodes) || !take(hostOf, numNodes) ||
        !take(isLocal, n) || !take(lidOf, n))
      return false;
    if (!need(3 * m))
      return false;
    edges.resize(m);
    for (size_t i = 0; i < m; ++i) {
      edges[i].ls = v[p++];
      edges[i].ld = v[p++];
      edges[i].w  = v[p++];
    }
    for (auto* lists : {&mirrorsGid, &mirrorsLid, &mastersLid}) {
      lists->resize(peers);
      for (auto& l : *lists) {
        if (!need(1))
          return false;
        size_t k = v[p++];
        if (!take(l, k))
          return false;
      }
    }
    return p == v.size();
  }
};

template <typename T>
struct EdgeDataOf {
  template <typename G, typename It>
  static uint64_t get(G& g, It it) {
    return (uint64_t)g.getEdgeData(it);
  }
};
template <>
struct EdgeDataOf<void> {
  template <typename G, typename It>
  static uint64_t get(G&, It) {
    return 0;
  }
};

// Fill everything that is available before a GluonSubstrate exists.
template <typename Graph>
void dump_graph(Graph& g, uint64_t n, unsigned numHosts, HostDump& d) {
  d.numNodes          = g.size();
  d.numOwned          = g.numMasters();
  d.numNodesWithEdges = g.getNumNodesWithEdges();
  d.numEdges          = g.sizeEdges();
  d.transposed        = g.isTransposed();
  d.vertexCut         = g.is_vertex_cut();
  d.gridR             = g.cartesianGrid().first;
  d.gridC             = g.cartesianGrid().second;
  d.globalNodes       = g.globalSize();
  d.globalEdges       = g.globalSizeEdges();
  for (uint32_t l = 0; l < d.numNodes; ++l) {
    uint64_t gid = g.getGID(l);
    d.l2g.push_back(gid);
    bool ok = gid < n && g.isLocal(gid);
    d.g2l_of_l2g.push_back(ok ? g.getLID(gid) : ~0ull);
    d.owned.push_back(gid < n ? g.isOwned(gid) : 2);
    d.hostOf.push_back(gid < n ? g.getHostID(gid) : ~0ull);
  }
  for (uint64_t gid = 0; gid < n; ++gid) {
    bool loc = g.isLocal(gid);
    d.isLocal.push_back(loc);
    d.lidOf.push_back(loc ? g.getLID(gid) : ~0ull);
  }
  for (uint32_t l = 0; l < d.numNodes; ++l)
    for (auto e = g.edge_begin(l); e != g.edge_end(l); ++e)
      d.edges.push_back(HostDump::LE{
          l, (uint64_t)g.getEdgeDst(e),
          EdgeDataOf<typename Graph::EdgeType>::get(g, e)});
  auto& mn = g.getMirrorNodes();
  d.mirrorsGid.assign(numHosts, {});
  for (unsigned h = 0; h < numHosts && h < mn.size(); ++h)
    d.mirrorsGid[h].assign(mn[h].begin(), mn[h].end());
  d.mirrorsLid.assign(numHosts, {});
  d.mastersLid.assign(numHosts, {});
}

inline std::string edges_str(const std::vector<Edge>& e, size_t maxn = 12) {
  std::ostringstream o;
  o << "[";
  for (size_t i = 0; i < e.size() && i < maxn; ++i)
    o << (i ? " " : "") << e[i].s << ">" << e[i].d;
  if (e.size() > maxn)
    o << " ...(" << e.size() << ")";
  o << "]";
  return o.str();
}

// compact description of what every host holds (local ids -> global ids)
inline std::string hosts_str(const std::vector<HostDump>& H) {
  std::ostringstream o;
  for (size_t h = 0; h < H.size(); ++h) {
    const HostDump& d = H[h];
    o << (h ? " | " : "") << "host" << h << ": masters=" << d.numOwned
      << " withEdges=" << d.numNodesWithEdges << " L2G=[";
    for (size_t l = 0; l < d.l2g.size() && l < 10; ++l)
      o << (l ? "," : "") << d.l2g[l];
    o << "] localEdges=[";
    for (size_t i = 0; i < d.edges.size() && i < 10; ++i)
      o << (i ? " " : "") << d.edges[i].ls << ">" << d.edges[i].ld << "("
        << (d.edges[i].ls < d.l2g.size() ? (long long)d.l2g[d.edges[i].ls] : -1)
        << ">"
        << (d.edges[i].ld < d.l2g.size() ? (long long)d.l2g[d.edges[i].ld] : -1)
        << ")";
    if (d.edges.size() > 10)
      o << " ...";
    o << "]";
  }
  return o.str();
}

// ---- C19 oracle (rank 0) ------------------------------------------------------
// Returns the number of proxies; fills `r`.  comp = component name used in
// violation keys, e.g. "cusp:GenericCVC:csr->csc".
inline void check_partition(const Case& c, const std::vector<HostDump>& H,
                            const std::string& comp, Report& r,
                            bool haveSubstrate) {
  const unsigned nh = H.size();
  const uint64_t n  = c.n;
  const bool csc    = (!c.sym && c.out == "csc");
  const bool data   = c.edata != "void";
  auto K            = [&](const char* sym) { return comp + ":" + sym; };
  std::string ctx = "graph n=" + std::to_string(n) + " " + edges_str(c.edges) +
                    " hosts=" + std::to_string(nh) + " " + c.label();
  const char* cx = ctx.c_str();

  // sizes, id maps
  bool mapsOk = true;
  for (unsigned h = 0; h < nh; ++h) {
    const HostDump& d = H[h];
    if (d.globalNodes != n || d.globalEdges != c.edges.size())
      r.fail(K("global-size-wrong"),
             "host %u reports globalSize=%llu globalSizeEdges=%llu, input has "
             "%llu nodes %zu edges; %s",
             h, (unsigned long long)d.globalNodes,
             (unsigned long long)d.globalEdges, (unsigned long long)n,
             c.edges.size(), cx);
    if (d.numOwned > d.numNodes)
      r.fail(K("masters-not-prefix"), "host %u numOwned=%llu > size=%llu; %s",
             h, (unsigned long long)d.numOwned, (unsigned long long)d.numNodes,
             cx);
    std::set<uint64_t> seen;
    for (uint64_t l = 0; l < d.numNodes; ++l) {
      uint64_t gid = d.l2g[l];
      if (gid >= n) {
        r.fail(K("l2g-out-of-range"), "host %u L2G(%llu)=%llu >= n; %s", h,
               (unsigned long long)l, (unsigned long long)gid, cx);
        mapsOk = false;
        continue;
      }
      if (!seen.insert(gid).second) {
        r.fail(K("l2g-not-injective"),
               "host %u has two local ids for global node %llu; %s", h,
               (unsigned long long)gid, cx);
        mapsOk = false;
      }
      if (d.g2l_of_l2g[l] != l) {
        r.fail(K("g2l-l2g-not-inverse"),
               "host %u G2L(L2G(%llu)=%llu)=%lld; %s", h,
               (unsigned long long)l, (unsigned long long)gid,
               (long long)d.g2l_of_l2g[l], cx);
        mapsOk = false;
      }
      // masters precede mirrors: lid < numOwned <=> isOwned(gid)
      bool own = d.owned[l] == 1;
      if (own != (l < d.numOwned))
        r.fail(K("masters-not-prefix"),
               "host %u lid %llu (gid %llu) isOwned=%d but numOwned=%llu; %s",
               h, (unsigned long long)l, (unsigned long long)gid, (int)own,
               (unsigned long long)d.numOwned, cx);
    }
    for (uint64_t gid = 0; gid < n; ++gid) {
      bool inImg = seen.count(gid) != 0;
      if ((d.isLocal[gid] != 0) != inImg) {
        r.fail(K("islocal-disagrees-with-l2g"),
               "host %u isLocal(%llu)=%d but the node %s a local id; %s", h,
               (unsigned long long)gid, (int)d.isLocal[gid],
               inImg ? "has" : "has not", cx);
        mapsOk = false;
      } else if (inImg && (d.lidOf[gid] >= d.numNodes ||
                           d.l2g[d.lidOf[gid]] != gid)) {
        r.fail(K("g2l-l2g-not-inverse"), "host %u L2G(G2L(%llu)=%lld) != it; %s",
               h, (unsigned long long)gid, (long long)d.lidOf[gid], cx);
        mapsOk = false;
      }
    }
    if (!(d.numOwned <= d.numNodesWithEdges &&
          d.numNodesWithEdges <= d.numNodes))
      r.fail(K("nodes-with-edges-range"),
             "host %u numOwned=%llu numNodesWithEdges=%llu size=%llu: the "
             "with-edges range must contain the masters and lie inside the "
             "graph; %s",
             h, (unsigned long long)d.numOwned,
             (unsigned long long)d.numNodesWithEdges,
             (unsigned long long)d.numNodes, cx);
    if (d.numEdges != d.edges.size())
      r.fail(K("edge-count-wrong"), "host %u sizeEdges=%llu, iterated %zu; %s",
             h, (unsigned long long)d.numEdges, d.edges.size(), cx);
  }
  if (!mapsOk)
    return; // everything below needs sound id maps

  // exactly one master per node; every proxy agrees who it is
  std::vector<int> masterOf(n, -1);
  for (uint64_t gid = 0; gid < n; ++gid) {
    int cnt = 0;
    for (unsigned h = 0; h < nh; ++h)
      if (H[h].isLocal[gid] && H[h].lidOf[gid] < H[h].numOwned) {
        ++cnt;
        masterOf[gid] = h;
      }
    if (cnt != 1) {
      r.fail(K(cnt == 0 ? "node-without-master" : "node-with-several-masters"),
             "global node %llu has %d master proxies; %s",
             (unsigned long long)gid, cnt, cx);
      masterOf[gid] = -1;
    }
  }
  for (unsigned h = 0; h < nh; ++h)
    for (uint64_t l = 0; l < H[h].numNodes; ++l) {
      uint64_t gid = H[h].l2g[l];
      if (masterOf[gid] >= 0 && H[h].hostOf[l] != (uint64_t)masterOf[gid])
        r.fail(K("gethostid-disagrees"),
               "host %u getHostID(%llu)=%lld but the master proxy is on host "
               "%d; %s",
               h, (unsigned long long)gid, (long long)H[h].hostOf[l],
               masterOf[gid], cx);
    }

  // edges: union of local multisets == input multiset (with data)
  typedef std::tuple<uint64_t, uint64_t, uint64_t> T3;
  std::map<T3, long> want, got;
  for (auto& e : c.edges)
    want[T3(e.s, e.d, data ? e.w : 0)]++;
  for (unsigned h = 0; h < nh; ++h) {
    const HostDump& d = H[h];
    std::vector<uint64_t> outdeg(d.numNodes, 0), indeg(d.numNodes, 0);
    for (auto& e : d.edges) {
      if (e.ls >= d.numNodes || e.ld >= d.numNodes) {
        r.fail(K("edge-endpoint-out-of-range"),
               "host %u has local edge %llu->%llu but only %llu local nodes "
               "(no proxy for an endpoint); %s",
               h, (unsigned long long)e.ls, (unsigned long long)e.ld,
               (unsigned long long)d.numNodes, cx);
        continue;
      }
      outdeg[e.ls]++;
      indeg[e.ld]++;
      uint64_t gs = d.l2g[e.ls], gd = d.l2g[e.ld];
      if (csc)
        std::swap(gs, gd);
      got[T3(gs, gd, data ? e.w : 0)]++;
    }
    for (uint64_t l = 0; l < d.numNodes; ++l) {
      if (l >= d.numNodesWithEdges && outdeg[l])
        r.fail(K("nodes-with-edges-range"),
               "host %u lid %llu (gid %llu) has %llu local out-edges but lies "
               "outside allNodesWithEdgesRange [0,%llu); %s",
               h, (unsigned long long)l, (unsigned long long)d.l2g[l],
               (unsigned long long)outdeg[l],
               (unsigned long long)d.numNodesWithEdges, cx);
      // policy promise relied upon by Gluon (sync_src_to_dst etc.): for a
      // partition that says it is NOT a vertex cut, mirrors have no local
      // out-edges (not transposed) / no local in-edges (transposed)
      if (!d.vertexCut && l >= d.numOwned) {
        if (!d.transposed && outdeg[l])
          r.fail(K("edge-cut-mirror-has-out-edges"),
                 "host %u: is_vertex_cut()=false, not transposed, but mirror "
                 "lid %llu (gid %llu) has %llu outgoing local edges; %s",
                 h, (unsigned long long)l, (unsigned long long)d.l2g[l],
                 (unsigned long long)outdeg[l], cx);
        if (d.transposed && indeg[l])
          r.fail(K("edge-cut-mirror-has-in-edges"),
                 "host %u: is_vertex_cut()=false, transposed, but mirror lid "
                 "%llu (gid %llu) has %llu incoming local edges; %s",
                 h, (unsigned long long)l, (unsigned long long)d.l2g[l],
                 (unsigned long long)indeg[l], cx);
      }
    }
  }
  if (want != got) {
    std::ostringstream o;
    int shown = 0;
    for (auto& kv : want) {
      long g = got.count(kv.first) ? got[kv.first] : 0;
      if (g != kv.second && shown++ < 4)
        o << " (" << std::get<0>(kv.first) << ">" << std::get<1>(kv.first)
          << " w=" << std::get<2>(kv.first) << ") input x" << kv.second
          << " partitions x" << g << ";";
    }
    for (auto& kv : got)
      if (!want.count(kv.first) && shown++ < 4)
        o << " (" << std::get<0>(kv.first) << ">" << std::get<1>(kv.first)
          << " w=" << std::get<2>(kv.first) << ") not in input, partitions x"
          << kv.second << ";";
    // classify.  (1) structure only vs data.  (2) One defect has a signature
    // of its own and gets a policy-independent key so that recording it can
    // never hide another edge-multiset bug: nothing is missing and every
    // surplus edge, seen in the orientation of the FILE that was read, goes
    // to node 0 from a node that has no edges in that file (a host whose
    // read range holds no edges fabricates them: BufferedGraph::edgeBegin of
    // its first node is 0 instead of the range's edge offset, and
    // edgeDestination() answers 0 for a host without edges).
    std::map<std::pair<uint64_t, uint64_t>, long> ws, gs;
    for (auto& kv : want)
      ws[{std::get<0>(kv.first), std::get<1>(kv.first)}] += kv.second;
    for (auto& kv : got)
      gs[{std::get<0>(kv.first), std::get<1>(kv.first)}] += kv.second;
    const bool fileReversed = !c.sym && c.in == "csc";
    std::vector<uint64_t> fileOutDeg(n, 0);
    for (auto& e : c.edges)
      fileOutDeg[fileReversed ? e.d : e.s]++;
    bool phantom = true, anySurplus = false;
    for (auto& kv : ws)
      if ((gs.count(kv.first) ? gs[kv.first] : 0) < kv.second)
        phantom = false; // something is missing
    for (auto& kv : gs) {
      long w = ws.count(kv.first) ? ws[kv.first] : 0;
      if (kv.second <= w)
        continue;
      anySurplus   = true;
      uint64_t fs = fileReversed ? kv.first.second : kv.first.first;
      uint64_t fd = fileReversed ? kv.first.first : kv.first.second;
      if (fd != 0 || fileOutDeg[fs] != 0)
        phantom = false;
    }
    std::string key =
        (phantom && anySurplus)
            ? std::string("cusp:edgeless-read-range:phantom-edges-to-node-0")
            : K(ws == gs ? "edge-data-wrong" : "edge-multiset-differs");
    r.fail(key,
           "union of the local edge lists differs from the input:%s %s; %s",
           o.str().c_str(), cx, hosts_str(H).c_str());
  }

  // mirror lists: (a) host h's mirror list for peer p holds exactly h's
  // mirror proxies mastered by p; (b) equals p's master list for h.
  for (unsigned h = 0; h < nh; ++h) {
    const HostDump& d = H[h];
    for (unsigned p = 0; p < nh; ++p) {
      std::set<uint64_t> expect;
      for (uint64_t l = d.numOwned; l < d.numNodes; ++l)
        if (masterOf[d.l2g[l]] == (int)p)
          expect.insert(d.l2g[l]);
      std::set<uint64_t> have(d.mirrorsGid[p].begin(), d.mirrorsGid[p].end());
      if (have.size() != d.mirrorsGid[p].size())
        r.fail(K("mirror-list-duplicates"),
               "host %u mirror list for host %u has duplicates; %s", h, p, cx);
      if (p == h ? !have.empty() : have != expect)
        r.fail(K("mirror-list-wrong"),
               "host %u mirror list for host %u has %zu entries, but %zu of "
               "its mirror proxies are mastered there; %s",
               h, p, have.size(), expect.size(), cx);
      if (!haveSubstrate || p == h)
        continue;
      // after GluonSubstrate::setupCommunication the lists are local ids
      const HostDump& q = H[p];
      std::vector<uint64_t> mine, theirs;
      bool bad = d.mirrorsLid[p].size() != d.mirrorsGid[p].size();
      for (size_t i = 0; i < d.mirrorsLid[p].size(); ++i) {
        uint64_t l = d.mirrorsLid[p][i];
        if (l >= d.numNodes) {
          bad = true;
          continue;
        }
        mine.push_back(d.l2g[l]);
        if (i < d.mirrorsGid[p].size() && d.l2g[l] != d.mirrorsGid[p][i])
          bad = true;
      }
      if (bad)
        r.fail(K("mirror-list-lid-conversion"),
               "host %u: local-id mirror list for host %u does not map back "
               "to the global-id list; %s",
               h, p, cx);
      for (uint64_t l : q.mastersLid[h]) {
        if (l >= q.numOwned)
          r.fail(K("master-list-holds-non-master"),
                 "host %u master list for host %u contains lid %llu which is "
                 "not one of its %llu masters; %s",
                 p, h, (unsigned long long)l, (unsigned long long)q.numOwned,
                 cx);
        theirs.push_back(l < q.numNodes ? q.l2g[l] : ~0ull);
      }
      if (mine != theirs) {
        std::set<uint64_t> a(mine.begin(), mine.end()),
            b(theirs.begin(), theirs.end());
        r.fail(K(a == b ? "mirror-master-list-order-differs"
                        : "mirror-master-list-differs"),
               "host %u mirrors-of-%u (%zu global ids) vs host %u "
               "masters-for-%u (%zu); %s",
               h, p, mine.size(), p, h, theirs.size(), cx);
      }
    }
  }
}

} // namespace e4
#endif

// C14: gdeque, FixedSizeRing, FixedSizeBag, ConcurrentFixedSizeBag, gslist.
#ifndef VERIF_C14_SEQ_H
#define VERIF_C14_SEQ_H

#include "c14_elem.h"

#include "galois/FixedSizeRing.h"
#include "galois/gdeque.h"
#include "galois/gslist.h"

#include <deque>
#include <memory>

namespace c14 {

void need_runtime(); // defined in c14_containers.cpp
bool parent_root(const std::vector<int>& hist);

template <class T>
struct tname {
  static const char* s() { return "int"; }
};
template <>
struct tname<Elem> {
  static const char* s() { return "Elem"; }
};

// ===========================================================================
// gdeque<T,N> against std::deque<int>
// ===========================================================================
static const char* const GDEQUE_OPS[] = {
    "push_back(0) [copy]", "push_back(1) [move]", "push_front(0) [copy]",
    "push_front(1) [move]", "pop_back", "pop_front", "emplace_back(2)",
    "emplace_front(2)", "emplace(begin,2)", "emplace(end,2)",
    "emplace(begin+1,2)", "emplace(begin+2,2)", "emplace(begin+3,2)", "clear",
    "move-construct", "move-assign over a 1-element deque"};
static const int GDEQUE_NOPS = 16;

template <class T, unsigned N>
struct GDequeCase {
  typedef galois::gdeque<T, N> D;
  static std::string comp() { return "gdeque<" + std::to_string(N) + ">"; }

  // block structure: the dedup key (ring start and fill of every block)
  static std::string shape(D& d, int& nblocks) {
    std::ostringstream o;
    nblocks = 0;
    int guard = 0;
    for (auto* b = d.first; b && guard < 64; b = b->next, ++guard) {
      o << "(s" << b->start << ":";
      for (unsigned i = 0; i < b->count; ++i)
        o << (i ? "," : "") << val_of(b->getAt(i));
      o << ")";
      nblocks++;
    }
    return o.str();
  }

  static void check(D& d, const std::deque<int>& m, const char* after,
                    long extra_live) {
    const std::string C = comp();
    if (is_counted<T>::value)
      check_live(C, after, (long)m.size() + extra_live);
    if (d.size() != m.size())
      sx::fail(C + ":size", "after %s: size() = %zu, reference %zu", after,
               d.size(), m.size());
    if (d.empty() != m.empty())
      sx::fail(C + ":empty", "after %s: empty() = %d, reference %d", after,
               (int)d.empty(), (int)m.empty());
    const D& cd = d;
    size_t bound = m.size() + 2;
    expect_seq(C + ":forward-traversal", after, "begin()..end()",
               walk(C, after, "forward-traversal", d.begin(), d.end(), bound),
               m);
    expect_seq(C + ":const-forward-traversal", after, "const begin()..end()",
               walk(C, after, "const-forward-traversal", cd.begin(), cd.end(),
                    bound),
               m);
    std::deque<int> rm(m.rbegin(), m.rend());
    if (!m.empty()) {
      // Backward traversal is only well defined on a non-empty deque (the
      // same holds for std::deque: rbegin()==rend() is all one may ask).
      expect_seq(C + ":reverse-traversal", after, "rbegin()..rend()",
                 walk(C, after, "reverse-traversal", d.rbegin(), d.rend(),
                      bound),
                 rm);
      expect_seq(C + ":const-reverse-traversal", after,
                 "const rbegin()..rend()",
                 walk(C, after, "const-reverse-traversal", cd.rbegin(),
                      cd.rend(), bound),
                 rm);
      if (val_of(d.front()) != m.front())
        sx::fail(C + ":front", "after %s: front() = %d, reference %d", after,
                 val_of(d.front()), m.front());
      if (val_of(d.back()) != m.back())
        sx::fail(C + ":back", "after %s: back() = %d, reference %d", after,
                 val_of(d.back()), m.back());
      if (val_of(cd.front()) != m.front() || val_of(cd.back()) != m.back())
        sx::fail(C + ":const-front-back",
                 "after %s: const front()/back() = %d/%d, reference %d/%d",
                 after, val_of(cd.front()), val_of(cd.back()), m.front(),
                 m.back());
      // ++ then -- returns to the same position, at every position
      size_t i = 0;
      for (auto it = d.begin(); !(it == d.end()) && i < bound; ++it, ++i) {
        auto j = it;
        ++j;
        --j;
        if (!(j == it) || val_of(*j) != m[i])
          sx::fail(C + ":increment-decrement-not-inverse",
                   "after %s: ++ then -- from position %zu lands on a "
                   "different position (value %d, reference %d)",
                   after, i, val_of(*j), m[i]);
      }
    } else {
      if (!(d.rbegin() == d.rend()))
        sx::fail(C + ":reverse-traversal",
                 "after %s: rbegin() != rend() on an empty deque", after);
    }
    if ((size_t)std::distance(d.begin(), d.end()) != m.size())
      sx::fail(C + ":distance", "after %s: distance(begin,end) = %ld, size %zu",
               after, (long)std::distance(d.begin(), d.end()), m.size());
  }

  static void emplace_at(D& d, std::deque<int>& m, size_t idx,
                         const char* after) {
    const std::string C = comp();
    auto pos = d.begin();
    if (idx == m.size())
      pos = d.end();
    else
      std::advance(pos, idx);
    auto r = d.emplace(pos, 2);
    m.insert(m.begin() + idx, 2);
    // return value: iterator to the new element
    if (const char* bad = bad_obj(*r))
      sx::fail(C + ":emplace-returns-" + bad, "after %s", after);
    if (val_of(*r) != 2)
      sx::fail(C + ":emplace-return-value",
               "after %s: returned iterator points at %d, not at the new "
               "element",
               after, val_of(*r));
    size_t k = 0;
    auto it  = d.begin();
    while (!(it == r) && k <= m.size()) {
      ++it;
      ++k;
    }
    if (k != idx)
      sx::fail(C + ":emplace-return-position",
               "after %s: returned iterator is at index %zu, expected %zu",
               after, k, idx);
  }

  static std::string run(const std::vector<int>& hist) {
    need_runtime();
    reg().reset();
    const std::string C = comp();
    std::string key;
    uint64_t out = 0;
    {
      std::unique_ptr<D> d(new D());
      std::deque<int> m;
      check(*d, m, "construction", 0);
      for (int op : hist) {
        const char* nm = GDEQUE_OPS[op];
        switch (op) {
        case 0: {
          T x(0);
          d->push_back(x);
          m.push_back(0);
        } break;
        case 1:
          d->push_back(T(1));
          m.push_back(1);
          break;
        case 2: {
          T x(0);
          d->push_front(x);
          m.push_front(0);
        } break;
        case 3:
          d->push_front(T(1));
          m.push_front(1);
          break;
        case 4:
          if (!m.empty()) { // pop on empty asserts: outside the contract
            d->pop_back();
            m.pop_back();
          }
          break;
        case 5:
          if (!m.empty()) {
            d->pop_front();
            m.pop_front();
          }
          break;
        case 6:
          d->emplace_back(2);
          m.push_back(2);
          break;
        case 7:
          d->emplace_front(2);
          m.push_front(2);
          break;
        case 8:
          emplace_at(*d, m, 0, nm);
          break;
        case 9:
          emplace_at(*d, m, m.size(), nm);
          break;
        case 10:
        case 11:
        case 12: {
          size_t idx = op - 9;
          if (idx <= m.size())
            emplace_at(*d, m, idx, nm);
        } break;
        case 13:
          d->clear();
          m.clear();
          break;
        case 14: {
          std::unique_ptr<D> n(new D(std::move(*d)));
          d.reset(); // moved-from object dies here; whatever it kept dies too
          d = std::move(n);
        } break;
        case 15: {
          std::unique_ptr<D> n(new D());
          n->push_back(T(7));
          *n = std::move(*d);
          d.reset();
          d = std::move(n);
        } break;
        }
        check(*d, m, nm, 0);
        int nb;
        shape(*d, nb);
        // non-trivial: the deque spanned at least two blocks at some point
        if (nb >= 2)
          sx::mark_nontrivial();
      }
      int nb;
      key = shape(*d, nb);
      out = sx::hash_str(vstr(m));
    }
    if (is_counted<T>::value)
      check_live(C, "destruction", 0);
    sx::outcome(out);
    return key;
  }

  static sx::BfsCase make(int qd, int td) {
    sx::BfsCase c;
    c.name   = "gdeque<" + std::string(tname<T>::s()) + "," + std::to_string(N) +
             "> vs std::deque";
    c.nops   = GDEQUE_NOPS;
    c.opname = [](int i) { return std::string(GDEQUE_OPS[i]); };
    c.run    = run;
    c.quick_depth    = qd;
    c.thorough_depth = td;
    c.weight         = 4;
    return c;
  }
};

// ===========================================================================
// FixedSizeRing<Elem,3> against std::deque<int> bounded at 3
// ===========================================================================
static const char* const RING_OPS[] = {
    "push_back(0)", "push_back(1) [move]", "push_front(0)",
    "push_front(1) [move]", "pop_back", "pop_front", "emplace(begin,2)",
    "emplace(end,2)", "emplace(begin+1,2)", "emplace(begin+2,2)",
    "extract_front", "extract_back", "clear"};
static const int RING_NOPS = 13;

template <unsigned N>
struct RingCase {
  typedef galois::FixedSizeRing<Elem, N> R;
  static std::string comp() { return "FixedSizeRing<" + std::to_string(N) + ">"; }

  static std::string shape(R& r) {
    std::ostringstream o;
    o << "s" << r.start << ":";
    for (unsigned i = 0; i < r.count; ++i)
      o << (i ? "," : "") << r.getAt(i).v;
    return o.str();
  }

  static void check(R& r, const std::deque<int>& m, const char* after) {
    const std::string C = comp();
    check_live(C, after, (long)m.size());
    if (r.size() != m.size() || r.empty() != m.empty() ||
        r.full() != (m.size() == N))
      sx::fail(C + ":size", "after %s: size/empty/full = %u/%d/%d, reference "
                            "%zu/%d/%d",
               after, r.size(), (int)r.empty(), (int)r.full(), m.size(),
               (int)m.empty(), (int)(m.size() == N));
    const R& cr = r;
    size_t bound = N + 1;
    expect_seq(C + ":forward-traversal", after, "begin()..end()",
               walk(C, after, "forward-traversal", r.begin(), r.end(), bound),
               m);
    expect_seq(C + ":const-forward-traversal", after, "const begin()..end()",
               walk(C, after, "const-forward-traversal", cr.begin(), cr.end(),
                    bound),
               m);
    std::deque<int> rm(m.rbegin(), m.rend());
    expect_seq(C + ":reverse-traversal", after, "rbegin()..rend()",
               walk(C, after, "reverse-traversal", r.rbegin(), r.rend(),
                    bound),
               rm);
    if ((size_t)(r.end() - r.begin()) != m.size())
      sx::fail(C + ":distance", "after %s: end()-begin() = %ld, size %zu",
               after, (long)(r.end() - r.begin()), m.size());
    for (size_t i = 0; i < m.size(); ++i) {
      if (r.getAt(i).v != m[i] || cr.getAt(i).v != m[i])
        sx::fail(C + ":getAt", "after %s: getAt(%zu) = %d, reference %d", after,
                 i, r.getAt(i).v, m[i]);
      if ((*(r.begin() + i)).v != m[i] ||
          static_cast<const Elem&>(r.begin()[i]).v != m[i])
        sx::fail(C + ":random-access", "after %s: *(begin()+%zu) = %d, "
                                       "reference %d",
                 after, i, (*(r.begin() + i)).v, m[i]);
      if ((*(r.end() - (m.size() - i))).v != m[i])
        sx::fail(C + ":random-access", "after %s: *(end()-%zu) = %d, "
                                       "reference %d",
                 after, m.size() - i, (*(r.end() - (m.size() - i))).v, m[i]);
    }
    if (!m.empty()) {
      if (r.front().v != m.front() || r.back().v != m.back() ||
          cr.front().v != m.front() || cr.back().v != m.back())
        sx::fail(C + ":front-back", "after %s: front()/back() = %d/%d, "
                                    "reference %d/%d",
                 after, r.front().v, r.back().v, m.front(), m.back());
    }
  }

  static void expect_ptr(Elem* p, bool want, int v, const char* after) {
    const std::string C = comp();
    if ((p != nullptr) != want)
      sx::fail(C + ":insert-return",
               "after %s: returned %s pointer, ring was %s", after,
               p ? "a non-null" : "a null", want ? "not full" : "full");
    if (p && (bad_obj(*p) || p->v != v))
      sx::fail(C + ":insert-return", "after %s: returned pointer does not "
                                     "point at the new element",
               after);
  }

  static std::string run(const std::vector<int>& hist) {
    reg().reset();
    const std::string C = comp();
    std::string key;
    uint64_t out = 0;
    {
      R r;
      std::deque<int> m;
      check(r, m, "construction");
      for (int op : hist) {
        const char* nm = RING_OPS[op];
        bool room      = m.size() < N;
        switch (op) {
        case 0: {
          Elem x(0);
          expect_ptr(r.push_back(x), room, 0, nm);
          if (room)
            m.push_back(0);
        } break;
        case 1:
          expect_ptr(r.push_back(Elem(1)), room, 1, nm);
          if (room)
            m.push_back(1);
          break;
        case 2: {
          Elem x(0);
          expect_ptr(r.push_front(x), room, 0, nm);
          if (room)
            m.push_front(0);
        } break;
        case 3:
          expect_ptr(r.push_front(Elem(1)), room, 1, nm);
          if (room)
            m.push_front(1);
          break;
        case 4:
          if (!m.empty()) {
            r.pop_back();
            m.pop_back();
          }
          break;
        case 5:
          if (!m.empty()) {
            r.pop_front();
            m.pop_front();
          }
          break;
        case 6:
        case 7:
        case 8:
        case 9: {
          size_t idx = op == 6 ? 0 : op == 7 ? m.size() : (size_t)(op - 7);
          if (idx <= m.size()) {
            auto pos = op == 7 ? r.end() : r.begin() + idx;
            expect_ptr(r.emplace(pos, 2), room, 2, nm);
            if (room)
              m.insert(m.begin() + idx, 2);
          }
        } break;
        case 10:
        case 11: {
          galois::optional<Elem> o =
              op == 10 ? r.extract_front() : r.extract_back();
          if (o.is_initialized() != !m.empty())
            sx::fail(C + ":extract-return",
                     "after %s: returned %s optional, ring had %zu elements",
                     nm, o.is_initialized() ? "a full" : "an empty", m.size());
          if (!m.empty()) {
            int want = op == 10 ? m.front() : m.back();
            if (o.get().v != want || bad_obj(o.get()))
              sx::fail(C + ":extract-return", "after %s: returned %d, "
                                              "reference %d",
                       nm, o.get().v, want);
            if (op == 10)
              m.pop_front();
            else
              m.pop_back();
          }
        } break;
        case 12:
          r.clear();
          m.clear();
          break;
        }
        check(r, m, nm);
        // non-trivial: the occupied range wraps around the end of the array
        if (r.start + r.count > N)
          sx::mark_nontrivial();
      }
      key = shape(r);
      out = sx::hash_str(key);
    }
    check_live(C, "destruction", 0);
    sx::outcome(out);
    return key;
  }

  static sx::BfsCase make(int qd, int td) {
    sx::BfsCase c;
    c.name   = "FixedSizeRing<Elem," + std::to_string(N) + "> vs bounded deque";
    c.nops   = RING_NOPS;
    c.opname = [](int i) { return std::string(RING_OPS[i]); };
    c.run    = run;
    c.quick_depth    = qd;
    c.thorough_depth = td;
    return c;
  }
};

// const reverse traversal of FixedSizeRing (separate case: see report)
static const char* const CRING_OPS[] = {"push_back(0)", "push_back(1)",
                                        "push_front(1)", "pop_front"};
inline std::string cring_run(const std::vector<int>& hist) {
  // the call under test has undefined behaviour in the library itself: keep
  // it out of the driver process (seqx evaluates the root there)
  if (parent_root(hist))
    return "s0:";
  reg().reset();
  alarm(20); // the library function under test may not return sensibly
  galois::FixedSizeRing<Elem, 3> r;
  std::deque<int> m;
  auto probe = [&](const char* after) {
    const galois::FixedSizeRing<Elem, 3>& cr = r;
    auto b = cr.rbegin();
    auto e = cr.rend();
    std::vector<int> got;
    size_t n = 0;
    for (; !(b == e) && n < 5; ++b, ++n) {
      if (bad_obj(*b))
        sx::fail("FixedSizeRing<3>:const-reverse-traversal",
                 "after %s: const rbegin()..rend() yields a dead object", after);
      got.push_back((*b).v);
    }
    std::deque<int> rm(m.rbegin(), m.rend());
    expect_seq("FixedSizeRing<3>:const-reverse-traversal", after,
               "const rbegin()..rend()", got, rm);
  };
  probe("construction");
  for (int op : hist) {
    switch (op) {
    case 0:
    case 1:
      if (m.size() < 3) {
        r.push_back(Elem(op));
        m.push_back(op);
      }
      break;
    case 2:
      if (m.size() < 3) {
        r.push_front(Elem(1));
        m.push_front(1);
      }
      break;
    case 3:
      if (!m.empty()) {
        r.pop_front();
        m.pop_front();
      }
      break;
    }
    probe(CRING_OPS[op]);
    if (m.size() >= 2)
      sx::mark_nontrivial();
  }
  alarm(0);
  std::string key = RingCase<3>::shape(r);
  sx::outcome(sx::hash_str(key));
  return key;
}

// ===========================================================================
// FixedSizeBag<Elem,3> / ConcurrentFixedSizeBag<Elem,3>: documented as an
// *unordered* bounded collection, so the oracle is a multiset plus the
// relations any front()/pop_front() pair obeys.
// ===========================================================================
static const char* const BAG_OPS[] = {"push_front(0)", "push_back(1) [move]",
                                      "emplace_front(2)", "pop_front",
                                      "pop_back", "extract_front", "clear"};
static const int BAG_NOPS = 7;
static const char* const CBAG_OPS[] = {"push_front(0)", "push_front(1)",
                                       "pop_front", "clear"};
static const int CBAG_NOPS = 4;

template <class B>
struct BagCommon {
  static std::vector<int> sorted(std::vector<int> v) {
    std::sort(v.begin(), v.end());
    return v;
  }
  static std::string shape(B& b) {
    std::ostringstream o;
    unsigned n = b.size();
    for (unsigned i = 0; i < n; ++i)
      o << (i ? "," : "") << b.datac[i].v;
    return o.str();
  }
  static std::vector<int> check(const std::string& C, B& b,
                                const std::vector<int>& m, const char* after,
                                unsigned N) {
    check_live(C, after, (long)m.size());
    if (b.size() != m.size() || b.empty() != m.empty() ||
        b.full() != (m.size() == N))
      sx::fail(C + ":size", "after %s: size/empty/full = %u/%d/%d, reference "
                            "%zu/%d/%d",
               after, b.size(), (int)b.empty(), (int)b.full(), m.size(),
               (int)m.empty(), (int)(m.size() == N));
    const B& cb = b;
    size_t bound = N + 1;
    auto f  = walk(C, after, "forward-traversal", b.begin(), b.end(), bound);
    auto cf = walk(C, after, "const-forward-traversal", cb.begin(), cb.end(),
                   bound);
    auto r  = walk(C, after, "reverse-traversal", b.rbegin(), b.rend(), bound);
    auto cr = walk(C, after, "const-reverse-traversal", cb.rbegin(), cb.rend(),
                   bound);
    expect_seq(C + ":contents", after, "sorted contents", sorted(f), sorted(m));
    expect_seq(C + ":const-forward-traversal", after, "const traversal", cf, f);
    std::vector<int> rr(r.rbegin(), r.rend());
    expect_seq(C + ":reverse-traversal", after,
               "reverse traversal, reversed (vs forward traversal)", rr, f);
    expect_seq(C + ":const-reverse-traversal", after, "const reverse", cr, r);
    return f;
  }
};

inline std::vector<int> ms_minus(std::vector<int> a, const std::vector<int>& b) {
  // multiset difference a - b
  for (int x : b) {
    auto it = std::find(a.begin(), a.end(), x);
    if (it != a.end())
      a.erase(it);
  }
  return a;
}

inline std::string bag_run(const std::vector<int>& hist) {
  typedef galois::FixedSizeBag<Elem, 3> B;
  const std::string C = "FixedSizeBag<3>";
  reg().reset();
  std::string key;
  {
    B b;
    std::vector<int> m; // multiset
    BagCommon<B>::check(C, b, m, "construction", 3);
    for (int op : hist) {
      const char* nm = BAG_OPS[op];
      bool room      = m.size() < 3;
      Elem* p        = nullptr;
      bool pushed    = false;
      int pv         = 0;
      switch (op) {
      case 0: {
        Elem x(0);
        p      = b.push_front(x);
        pushed = true;
        pv     = 0;
      } break;
      case 1:
        p      = b.push_back(Elem(1));
        pushed = true;
        pv     = 1;
        break;
      case 2:
        p      = b.emplace_front(2);
        pushed = true;
        pv     = 2;
        break;
      case 3:
      case 4:
      case 5: {
        // front() names the element the following pop removes
        int fv = -1;
        if (!m.empty()) {
          fv = op == 4 ? b.back().v : b.front().v;
          if (std::find(m.begin(), m.end(), fv) == m.end())
            sx::fail(C + ":front-not-an-element",
                     "before %s: front()/back() = %d is not in the bag %s", nm,
                     fv, vstr(m).c_str());
        }
        if (op == 5) {
          galois::optional<Elem> o = b.extract_front();
          if (o.is_initialized() != !m.empty())
            sx::fail(C + ":extract-return", "after %s: %s optional from a bag "
                                            "of %zu",
                     nm, o.is_initialized() ? "full" : "empty", m.size());
          if (!m.empty() && (o.get().v != fv || bad_obj(o.get())))
            sx::fail(C + ":extract-return",
                     "after %s: returned %d, front() was %d", nm, o.get().v,
                     fv);
        } else {
          bool r = op == 3 ? b.pop_front() : b.pop_back();
          if (r != !m.empty())
            sx::fail(C + ":pop-return", "after %s: returned %d on a bag of %zu",
                     nm, (int)r, m.size());
        }
        if (!m.empty())
          m.erase(std::find(m.begin(), m.end(), fv));
      } break;
      case 6:
        b.clear();
        m.clear();
        break;
      }
      if (pushed) {
        if ((p != nullptr) != room)
          sx::fail(C + ":insert-return", "after %s: %s pointer, bag was %s", nm,
                   p ? "non-null" : "null", room ? "not full" : "full");
        if (p && (bad_obj(*p) || p->v != pv))
          sx::fail(C + ":insert-return",
                   "after %s: pointer does not point at the new element", nm);
        if (room)
          m.push_back(pv);
      }
      BagCommon<B>::check(C, b, m, nm, 3);
      if (m.size() == 3) // non-trivial: the bag was filled to capacity
        sx::mark_nontrivial();
    }
    key = BagCommon<B>::shape(b);
  }
  check_live(C, "destruction", 0);
  sx::outcome(sx::hash_str(key));
  return key;
}

inline std::string cbag_run(const std::vector<int>& hist) {
  typedef galois::ConcurrentFixedSizeBag<Elem, 3> B;
  const std::string C = "ConcurrentFixedSizeBag<3>";
  reg().reset();
  std::string key;
  {
    B b;
    std::vector<int> m;
    BagCommon<B>::check(C, b, m, "construction", 3);
    for (int op : hist) {
      const char* nm = CBAG_OPS[op];
      bool room      = m.size() < 3;
      switch (op) {
      case 0:
      case 1: {
        Elem x(op);
        Elem* p = b.push_front(x);
        if ((p != nullptr) != room)
          sx::fail(C + ":insert-return", "after %s: %s pointer, bag was %s", nm,
                   p ? "non-null" : "null", room ? "not full" : "full");
        if (room)
          m.push_back(op);
      } break;
      case 2: {
        auto before = BagCommon<B>::check(C, b, m, "(before pop)", 3);
        bool r      = b.pop_front();
        if (r != !m.empty())
          sx::fail(C + ":pop-return", "after %s: returned %d on a bag of %zu",
                   nm, (int)r, m.size());
        check_registry(C, nm);
        if (!m.empty()) {
          auto after = walk(C, nm, "forward-traversal", b.begin(), b.end(), 4);
          auto gone  = ms_minus(before, after);
          if (gone.size() != 1 || after.size() + 1 != before.size())
            sx::fail(C + ":pop-removes-one", "after %s: contents went from %s "
                                             "to %s",
                     nm, vstr(before).c_str(), vstr(after).c_str());
          m.erase(std::find(m.begin(), m.end(), gone[0]));
        }
      } break;
      case 3:
        b.clear();
        m.clear();
        break;
      }
      BagCommon<B>::check(C, b, m, nm, 3);
      if (m.size() == 3)
        sx::mark_nontrivial();
    }
    key = BagCommon<B>::shape(b);
  }
  check_live(C, "destruction", 0);
  sx::outcome(sx::hash_str(key));
  return key;
}

// ===========================================================================
// gslist<Elem,2> against a stack/forward list (front = most recent)
// ===========================================================================
static const char* const GSLIST_OPS[] = {
    "push_front(0) [copy]", "push_front(1) [move]", "emplace_front(2)",
    "pop_front", "clear", "move-construct", "move-assign over a 1-element list"};
static const int GSLIST_NOPS = 7;

template <unsigned N>
struct GslistCase {
  typedef galois::gslist<Elem, N> L;
  static std::string comp() { return "gslist<" + std::to_string(N) + ">"; }

  static std::string shape(L& l, int& nblocks, bool& head_empty) {
    std::ostringstream o;
    nblocks    = 0;
    head_empty = false;
    int guard  = 0;
    for (auto* b = l.first; b && guard < 64; b = b->next, ++guard) {
      if (nblocks == 0 && b->empty())
        head_empty = true;
      o << "(";
      unsigned n = b->size();
      for (unsigned i = 0; i < n; ++i)
        o << (i ? "," : "") << b->datac[i].v;
      o << ")";
      nblocks++;
    }
    return o.str();
  }

  static void check(L& l, CountingHeap& heap, const std::deque<int>& m,
                    const char* after, long extra_live, long extra_blocks) {
    const std::string C = comp();
    check_live(C, after, (long)m.size() + extra_live);
    int nb;
    bool he;
    shape(l, nb, he);
    if (heap.bad_free)
      sx::fail(C + ":frees-unknown-block", "after %s", after);
    if ((long)heap.out.size() != nb + extra_blocks)
      sx::fail(C + ":block-accounting",
               "after %s: %zu blocks outstanding in the heap, %d linked in the "
               "list",
               after, heap.out.size(), nb);
    if (l.empty() != m.empty())
      sx::fail(C + ":empty", "after %s: empty() = %d, reference holds %zu",
               after, (int)l.empty(), m.size());
    const L& cl = l;
    size_t bound = m.size() + 2;
    expect_seq(C + ":forward-traversal", after, "begin()..end()",
               walk(C, after, "forward-traversal", l.begin(), l.end(), bound),
               m);
    expect_seq(C + ":const-forward-traversal", after, "const begin()..end()",
               walk(C, after, "const-forward-traversal", cl.begin(), cl.end(),
                    bound),
               m);
    if ((size_t)std::distance(l.begin(), l.end()) != m.size())
      sx::fail(C + ":distance", "after %s: distance(begin,end) = %ld, "
                                "reference %zu",
               after, (long)std::distance(l.begin(), l.end()), m.size());
    if (!m.empty()) {
      // front() on a non-empty list.  The implementation reads the head block
      // unconditionally; if that block is empty the call trips the block's
      // assert (or, with NDEBUG, reads slot -1).  Report instead of dying.
      if (he && !survives([&]() { (void)l.front(); }))
        sx::fail(C + ":front-dies-on-empty-head-block",
                 "after %s: list holds %s (empty() is false) but front() "
                 "reads the empty head block left behind by pop_front and "
                 "aborts/faults",
                 after, vstr(m).c_str());
      if (l.front().v != m.front() || cl.front().v != m.front() ||
          bad_obj(l.front()))
        sx::fail(C + ":front", "after %s: front() = %d, reference %d", after,
                 l.front().v, m.front());
    }
  }

  static std::string run(const std::vector<int>& hist) {
    reg().reset();
    const std::string C = comp();
    std::string key;
    {
      CountingHeap heap;
      std::unique_ptr<L> l(new L());
      std::deque<int> m;
      check(*l, heap, m, "construction", 0, 0);
      for (int op : hist) {
        const char* nm = GSLIST_OPS[op];
        switch (op) {
        case 0: {
          Elem x(0);
          l->push_front(heap, x);
          m.push_front(0);
        } break;
        case 1:
          l->push_front(heap, Elem(1));
          m.push_front(1);
          break;
        case 2:
          l->emplace_front(heap, 2);
          m.push_front(2);
          break;
        case 3: {
          // documented: "Returns true if something was popped"
          bool r = l->pop_front(heap);
          if (r != !m.empty())
            sx::fail(C + ":pop-return", "after %s: returned %d, reference "
                                        "held %zu",
                     nm, (int)r, m.size());
          if (!m.empty())
            m.pop_front();
        } break;
        case 4:
          l->clear(heap);
          m.clear();
          break;
        case 5: {
          std::unique_ptr<L> n(new L(std::move(*l)));
          // the moved-from list must be released with its heap
          l->clear(heap);
          l.reset();
          l = std::move(n);
        } break;
        case 6: {
          std::unique_ptr<L> n(new L());
          n->push_front(heap, Elem(7));
          *n = std::move(*l);
          l->clear(heap);
          l.reset();
          l = std::move(n);
        } break;
        }
        check(*l, heap, m, nm, 0, 0);
        int nb;
        bool he;
        shape(*l, nb, he);
        if (nb >= 2) // non-trivial: the list spanned >= 2 blocks
          sx::mark_nontrivial();
      }
      int nb;
      bool he;
      key = shape(*l, nb, he);
      // documented: memory leaks unless cleared with the heap first
      l->clear(heap);
      std::deque<int> none;
      check(*l, heap, none, "final clear", 0, 0);
      l.reset();
    }
    check_live(C, "destruction", 0);
    sx::outcome(sx::hash_str(key));
    return key;
  }

  static sx::BfsCase make(int qd, int td) {
    sx::BfsCase c;
    c.name   = "gslist<Elem," + std::to_string(N) + "> vs forward list";
    c.nops   = GSLIST_NOPS;
    c.opname = [](int i) { return std::string(GSLIST_OPS[i]); };
    c.run    = run;
    c.quick_depth    = qd;
    c.thorough_depth = td;
    return c;
  }
};

} // namespace c14
#endif

// gr_format.h -- an independent ENCODER for the Galois binary graph format
// (".gr"), shared by the C11 (static graphs) and C12 (file round trips)
// harnesses.  It shares no code with galois::graphs::FileGraph(Writer): bytes
// are produced one at a time, little endian, from the format description in
//   libgalois/src/FileGraph.cpp   ("Graph file format:" comment) and
//   libgalois/include/galois/graphs/OfflineGraph.h ("File format V1/V2"):
//
//   version            uint64 LE   (1 or 2)
//   sizeof(EdgeData)   uint64 LE   (0 for no edge data)
//   numNodes           uint64 LE
//   numEdges           uint64 LE
//   outIdx[numNodes]   uint64 LE   outIdx[i] = index one past the last edge of
//                                  node i; node 0 starts at 0
//   outs[numEdges]     uint32 LE (version 1) / uint64 LE (version 2)
//   padding            version 1 only: 4 zero bytes if numEdges is odd, so the
//                      edge data is 8-byte aligned ("potential padding (32bit
//                      max) to Re-Align to 64bits"); version 2 needs none and
//                      the V2 description lists none
//   edgeData[numEdges] sizeof(EdgeData) bytes each, in outs order
//
// Input model: a directed multigraph as an ORDERED edge list.  The file is
// CSR, so the edges are grouped by source with a STABLE counting sort: the
// out-edges of a node appear in the file in the order they have in the list
// ("file order").  Every edge keeps the index it had in the list (Csr::orig),
// which is what harnesses derive the edge data from, so every edge is
// distinguishable.
#ifndef VERIF_GR_FORMAT_H
#define VERIF_GR_FORMAT_H

#include <cstdint>
#include <cstdio>
#include <cstring>
#include <functional>
#include <string>
#include <utility>
#include <vector>

#include <dirent.h>
#include <fcntl.h>
#include <signal.h>
#include <sys/stat.h>
#include <unistd.h>

namespace grf {

typedef std::pair<uint64_t, uint64_t> Edge; // (src, dst)

struct Csr {
  uint64_t n = 0, m = 0;
  std::vector<uint64_t> outIdx; // size n, END offsets (as in the file)
  std::vector<uint64_t> src;    // size m, source of the edge at CSR position p
  std::vector<uint64_t> dst;    // size m, destination at CSR position p
  std::vector<uint64_t> orig;   // size m, index in the ordered edge list
  uint64_t begin(uint64_t u) const { return u ? outIdx[u - 1] : 0; }
  uint64_t end(uint64_t u) const { return outIdx[u]; }
};

// Stable grouping by source.
inline Csr to_csr(uint64_t n, const std::vector<Edge>& edges) {
  Csr g;
  g.n = n;
  g.m = edges.size();
  g.outIdx.assign(n, 0);
  for (auto& e : edges)
    g.outIdx[e.first]++;
  uint64_t sum = 0;
  std::vector<uint64_t> pos(n, 0);
  for (uint64_t u = 0; u < n; ++u) {
    pos[u] = sum;
    sum += g.outIdx[u];
    g.outIdx[u] = sum;
  }
  g.src.resize(g.m);
  g.dst.resize(g.m);
  g.orig.resize(g.m);
  for (uint64_t i = 0; i < edges.size(); ++i) {
    uint64_t p = pos[edges[i].first]++;
    g.src[p]   = edges[i].first;
    g.dst[p]   = edges[i].second;
    g.orig[p]  = i;
  }
  return g;
}

// The transposed graph: edge i (s -> d) becomes (d -> s) and KEEPS its list
// index i (so it keeps its edge data); within a node the order is by i.
inline Csr to_transposed_csr(uint64_t n, const std::vector<Edge>& edges) {
  std::vector<Edge> r;
  r.reserve(edges.size());
  for (auto& e : edges)
    r.push_back(Edge(e.second, e.first));
  return to_csr(n, r);
}

inline void put_le(std::vector<uint8_t>& b, uint64_t v, int bytes) {
  for (int i = 0; i < bytes; ++i)
    b.push_back((uint8_t)(v >> (8 * i)));
}

struct EncodeOptions {
  // Version 2 has 64-bit destinations, so the edge data is always aligned and
  // the format lists no padding.  (FileGraph::fromMem nevertheless skips one
  // extra 64-bit word when numEdges is odd; set this to reproduce the layout
  // that reader expects.)
  bool v2_pad_odd = false;
};

// edgeBytes(origIndex, out): write sizeofEdge bytes of edge data for the edge
// whose index in the ordered edge list is origIndex (may be empty if
// sizeofEdge == 0).
inline std::vector<uint8_t>
encode(int version, const Csr& g, size_t sizeofEdge,
       const std::function<void(uint64_t, uint8_t*)>& edgeBytes,
       EncodeOptions opt = EncodeOptions()) {
  std::vector<uint8_t> b;
  b.reserve(32 + 8 * g.n + 8 * g.m + sizeofEdge * g.m + 8);
  put_le(b, (uint64_t)version, 8);
  put_le(b, (uint64_t)sizeofEdge, 8);
  put_le(b, g.n, 8);
  put_le(b, g.m, 8);
  for (uint64_t u = 0; u < g.n; ++u)
    put_le(b, g.outIdx[u], 8);
  for (uint64_t p = 0; p < g.m; ++p)
    put_le(b, g.dst[p], version == 1 ? 4 : 8);
  if (version == 1 && (g.m % 2))
    put_le(b, 0, 4);
  if (version == 2 && (g.m % 2) && opt.v2_pad_odd)
    put_le(b, 0, 8);
  if (sizeofEdge) {
    std::vector<uint8_t> tmp(sizeofEdge);
    for (uint64_t p = 0; p < g.m; ++p) {
      std::fill(tmp.begin(), tmp.end(), 0);
      edgeBytes(g.orig[p], tmp.data());
      b.insert(b.end(), tmp.begin(), tmp.end());
    }
  }
  return b;
}

inline bool write_file(const std::string& path, const std::vector<uint8_t>& b) {
  int fd = open(path.c_str(), O_WRONLY | O_CREAT | O_TRUNC, 0644);
  if (fd < 0)
    return false;
  size_t off = 0;
  while (off < b.size()) {
    ssize_t r = write(fd, b.data() + off, b.size() - off);
    if (r <= 0) {
      close(fd);
      return false;
    }
    off += (size_t)r;
  }
  return close(fd) == 0;
}

inline const char* tmp_dir() { return "/verif/build/tmp"; }

// A scratch .gr file /verif/build/tmp/<pid>-<tag>-<k>.gr, removed by the
// destructor.  Every instance gets a fresh name, so a file is never rewritten
// while some FileGraph still has it mmap'ed.
class TmpGr {
  std::string path_;

public:
  TmpGr(const char* tag, const std::vector<uint8_t>& bytes) {
    static unsigned long counter = 0;
    mkdir("/verif/build", 0755);
    mkdir(tmp_dir(), 0755);
    char buf[256];
    snprintf(buf, sizeof buf, "%s/%d-%s-%lu.gr", tmp_dir(), (int)getpid(), tag,
             counter++);
    path_ = buf;
    if (!write_file(path_, bytes)) {
      perror(path_.c_str());
      abort();
    }
  }
  TmpGr(const TmpGr&) = delete;
  TmpGr& operator=(const TmpGr&) = delete;
  ~TmpGr() { unlink(path_.c_str()); }
  const std::string& path() const { return path_; }
};

// Remove scratch files "<pid>-<tag>-*<suffix>" left behind by crashed or killed
// workers whose process no longer exists.
inline void remove_stale(const char* tag, const char* suffix = ".gr") {
  DIR* d = opendir(tmp_dir());
  if (!d)
    return;
  std::string mid = std::string("-") + tag + "-";
  while (struct dirent* e = readdir(d)) {
    std::string nm = e->d_name;
    size_t sl = strlen(suffix);
    if (nm.size() <= sl || nm.compare(nm.size() - sl, sl, suffix) != 0)
      continue;
    size_t p = nm.find(mid);
    if (p == std::string::npos || p == 0)
      continue;
    char* endp = nullptr;
    long pid   = strtol(nm.c_str(), &endp, 10);
    if (endp != nm.c_str() + p || pid <= 0)
      continue;
    if (kill((pid_t)pid, 0) == 0)
      continue; // still alive
    unlink((std::string(tmp_dir()) + "/" + nm).c_str());
  }
  closedir(d);
}

} // namespace grf
#endif

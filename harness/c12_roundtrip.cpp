// C12 (part A): graph files round-trip.  Engine E2 (seqx input enumeration) on
// the real libgalois code, ASan, asserts on.  DESIGN.md 7/C12.
//
// Input space: EVERY directed multigraph with n <= 3 nodes given as an ORDERED
// edge list of m <= 3 (quick) / m <= 4 (thorough; plus n = 4, m <= 3) edges --
// so self loops, parallel edges, isolated nodes, empty graphs, odd and even
// edge counts are all in it -- times the edge-data widths 0 / 4 / 8 / 1 bytes,
// times the on-disk format versions 1 and 2 where the component supports them
// (one case per component and version, so that a defect confined to one
// version cannot crowd out the findings of the other).
// Edge i of the list carries the data value val(width, i); all values are
// distinct and non-zero so a shifted / truncated / zeroed edge-data section is
// always visible.
//
// (a) library writes, harness decodes:
//     FileGraphWriter (both documented ways to supply edge data) -> toFile;
//     FileGraph::toFile of a graph obtained by fromFile, copy construction,
//     copy assignment, move, fromGraph<T>() -- the only routes by which the
//     library produces a version 2 file for a graph this small
//     (FileGraphWriter::phase1 picks version 2 only above 2^32-1 nodes).
//     The bytes are decoded by decode_gr() below, which shares nothing with
//     Galois, and compared with the input: node count, and per node the
//     out-edge SEQUENCE with data.
// (b) harness writes (grf::encode of gr_format.h, the independent encoder
//     written for C11), library reads: FileGraph::fromFile /
//     fromFileInterleaved, FileGraph::partFromFile at every node range and
//     every edge-range end, OCFileGraph (every segment), OfflineGraph,
//     BufferedGraph::loadGraph / loadPartialGraph at every consistent split.
//     Each must present exactly the input graph or the requested sub-range.
//
// Documented restrictions that are respected (not tested outside of them):
//   OCFileGraph   "File format V1" only (OCFileGraph.cpp)
//   BufferedGraph "currently only supports version 1" (BufferedGraph.h)
//   FileGraph::neighbor_begin/end, node_id_begin/end  version 1 only
//
// The harness is compiled with -fno-access-control (build_e2_harness); the
// only non-public member it reads is FileGraph::edgeData, to turn "the reader
// found no edge-data section" into a reported finding instead of the
// assert(edgeData) / null dereference that would kill the worker.
//
// Non-trivial rule (sx::mark_nontrivial): the graph has at least one edge AND
// (edge data present with an odd edge count [padding matters], or some node has
// >= 2 out-edges [sequence matters]); for the sub-range cases: a proper
// sub-range that holds at least one edge (containsNode: a part not starting at
// node 0).
#include "seqx.h"
#include "gr_format.h"

#include "galois/Galois.h"
#include "galois/graphs/BufferedGraph.h"
#include "galois/graphs/FileGraph.h"
#include "galois/graphs/OCGraph.h"
#include "galois/graphs/OfflineGraph.h"

#include <memory>
#include <set>
#include <sstream>
#include <string>
#include <type_traits>
#include <vector>

using sx::fail;
namespace gg = galois::graphs;

// ---------------------------------------------------------------------------
// runtime, created lazily in the worker process (threads do not survive fork).
// The pool has one (sleeping) thread per CPU.  The affinity mask is NOT
// narrowed to get a smaller pool: on a box where other jobs are bound to
// particular CPUs (mpirun binds its ranks to cores 0,1,..) a worker confined to
// those CPUs was observed to sit in the ThreadPool constructor for minutes.
// ---------------------------------------------------------------------------
static void rt() {
  static galois::SharedMemSys* G = nullptr;
  if (G)
    return;
  setenv("GALOIS_DO_NOT_BIND_THREADS", "1", 1);
  setenv("GALOIS_DEBUG_SKIP", "1", 1); // gDebug() chatter off, asserts stay on
  G = new galois::SharedMemSys();
}

// ---------------------------------------------------------------------------
// input enumeration
// ---------------------------------------------------------------------------
struct GIn {
  uint64_t n = 0;
  std::vector<grf::Edge> el;
};

// bounds: (n, max m) pairs, simplest first
struct Bound {
  int n, maxm;
};
static const Bound QUICK_B[]    = {{0, 0}, {1, 3}, {2, 3}, {3, 3}};
static const Bound THOROUGH_B[] = {{0, 0}, {1, 4}, {2, 4}, {3, 4}, {4, 3}};

static uint64_t ipow(uint64_t b, int e) {
  uint64_t r = 1;
  while (e-- > 0)
    r *= b;
  return r;
}
static uint64_t graphs_of(const Bound& b) {
  if (b.n == 0)
    return 1;
  uint64_t s = 0;
  for (int m = 0; m <= b.maxm; ++m)
    s += ipow((uint64_t)b.n * b.n, m);
  return s;
}
static uint64_t graph_count(bool thorough) {
  uint64_t s = 0;
  if (thorough)
    for (auto& b : THOROUGH_B)
      s += graphs_of(b);
  else
    for (auto& b : QUICK_B)
      s += graphs_of(b);
  return s;
}
static GIn graph_at(uint64_t gi, bool thorough) {
  const Bound* B = thorough ? THOROUGH_B : QUICK_B;
  size_t nb      = thorough ? sizeof THOROUGH_B / sizeof(Bound)
                            : sizeof QUICK_B / sizeof(Bound);
  for (size_t k = 0; k < nb; ++k) {
    uint64_t c = graphs_of(B[k]);
    if (gi >= c) {
      gi -= c;
      continue;
    }
    GIn g;
    g.n = B[k].n;
    if (g.n == 0)
      return g;
    uint64_t nn = g.n * g.n;
    for (int m = 0; m <= B[k].maxm; ++m) {
      uint64_t cm = ipow(nn, m);
      if (gi >= cm) {
        gi -= cm;
        continue;
      }
      for (int i = 0; i < m; ++i) {
        uint64_t d = gi % nn;
        gi /= nn;
        g.el.push_back(grf::Edge(d / g.n, d % g.n));
      }
      return g;
    }
  }
  abort();
}
static std::string graph_str(const GIn& g) {
  std::ostringstream o;
  o << "n=" << g.n << " edges=[";
  for (size_t i = 0; i < g.el.size(); ++i)
    o << (i ? " " : "") << g.el[i].first << ">" << g.el[i].second;
  o << "]";
  return o.str();
}

static const int WIDTHS[4] = {0, 4, 8, 1};
static const int NWIDTHS = 4;

// data of the edge with index i in the ordered edge list
static uint64_t val(int width, uint64_t i) {
  if (width == 4)
    return (uint32_t)((i + 1) * 2654435761u);
  if (width == 8)
    return (i + 1) * 0x9E3779B97F4A7C15ull;
  if (width == 1)
    return (uint8_t)((i + 1) * 37u); // 37,74,111,148,185: distinct, non-zero
  return 0;
}

// version (and, for 1-byte edge data, the width) as it appears in violation
// keys: 1-byte data fails for a reason of its own (the length test in
// FileGraph::fromMem), keep it apart from the other widths
static std::string vtag(int ver, int width) {
  return std::string("v") + (ver == 1 ? "1" : "2") +
         (width == 1 ? ",sizeofEdge=1" : "");
}

template <class T>
struct W {
  static constexpr int width = sizeof(T);
};
template <>
struct W<void> {
  static constexpr int width = 0;
};

// ---------------------------------------------------------------------------
// observed / expected adjacency
// ---------------------------------------------------------------------------
typedef std::pair<uint64_t, uint64_t> DE; // (destination, edge data)
typedef std::vector<std::vector<DE>> Adj; // per node, in sequence

static Adj expect_adj(const grf::Csr& c, int width) {
  Adj a(c.n);
  for (uint64_t u = 0; u < c.n; ++u)
    for (uint64_t p = c.begin(u); p < c.end(u); ++p)
      a[u].push_back(DE(c.dst[p], val(width, c.orig[p])));
  return a;
}

static std::string list_str(const std::vector<DE>& l, bool data) {
  std::ostringstream o;
  o << "[";
  for (size_t i = 0; i < l.size(); ++i) {
    o << (i ? " " : "") << l[i].first;
    if (data)
      o << ":" << std::hex << l[i].second << std::dec;
  }
  o << "]";
  return o.str();
}

static uint64_t adj_hash(const Adj& a) {
  uint64_t h = a.size();
  for (auto& l : a) {
    h = sx::mix(h, l.size() + 0x100);
    for (auto& e : l)
      h = sx::mix(sx::mix(h, e.first), e.second);
  }
  return h;
}

// compare nodes [lo, lo+got.size()) of the observation with `exp`
static void compare_adj(const std::string& comp, const std::string& ctx,
                        const Adj& exp, const Adj& got, bool data,
                        uint64_t firstNode = 0) {
  if (exp.size() != got.size())
    fail(comp + ":node-count", "%s: %zu nodes, expected %zu", ctx.c_str(),
         got.size(), exp.size());
  for (size_t u = 0; u < exp.size(); ++u) {
    bool same = exp[u].size() == got[u].size();
    for (size_t i = 0; same && i < exp[u].size(); ++i)
      same = exp[u][i].first == got[u][i].first;
    if (!same)
      fail(comp + ":out-edges", "%s: node %llu has out-edges %s, expected %s",
           ctx.c_str(), (unsigned long long)(u + firstNode),
           list_str(got[u], false).c_str(), list_str(exp[u], false).c_str());
    if (data && exp[u] != got[u])
      fail(comp + ":edge-data",
           "%s: node %llu has out-edges dst:data %s, expected %s", ctx.c_str(),
           (unsigned long long)(u + firstNode), list_str(got[u], true).c_str(),
           list_str(exp[u], true).c_str());
  }
}

// ---------------------------------------------------------------------------
// scratch files  /verif/build/tmp/c12-<pid>-<k>.gr
// ---------------------------------------------------------------------------
class Tmp {
  std::string path_;

public:
  Tmp() {
    static unsigned long counter = 0;
    mkdir("/verif/build", 0755);
    mkdir("/verif/build/tmp", 0755);
    char buf[256];
    snprintf(buf, sizeof buf, "/verif/build/tmp/c12-%d-%lu.gr", (int)getpid(),
             counter++);
    path_ = buf;
  }
  explicit Tmp(const std::vector<uint8_t>& bytes) : Tmp() {
    if (!grf::write_file(path_, bytes)) {
      perror(path_.c_str());
      abort();
    }
  }
  Tmp(const Tmp&) = delete;
  Tmp& operator=(const Tmp&) = delete;
  ~Tmp() { unlink(path_.c_str()); }
  const std::string& path() const { return path_; }
  std::vector<uint8_t> read() const {
    std::vector<uint8_t> b;
    FILE* f = fopen(path_.c_str(), "rb");
    if (!f)
      return b;
    uint8_t buf[4096];
    size_t r;
    while ((r = fread(buf, 1, sizeof buf, f)) > 0)
      b.insert(b.end(), buf, buf + r);
    fclose(f);
    return b;
  }
};

// files "c12-<pid>-*.gr" of worker processes that no longer exist
static void remove_stale() {
  DIR* d = opendir("/verif/build/tmp");
  if (!d)
    return;
  while (struct dirent* e = readdir(d)) {
    std::string nm = e->d_name;
    if (nm.compare(0, 4, "c12-") != 0 || nm.size() < 8 ||
        nm.compare(nm.size() - 3, 3, ".gr") != 0)
      continue;
    char* endp = nullptr;
    long pid   = strtol(nm.c_str() + 4, &endp, 10);
    if (pid <= 0 || *endp != '-' || kill((pid_t)pid, 0) == 0)
      continue;
    unlink(("/verif/build/tmp/" + nm).c_str());
  }
  closedir(d);
}

static std::vector<uint8_t> encode_in(const grf::Csr& c, int ver, int width) {
  return grf::encode(ver, c, (size_t)width, [width](uint64_t i, uint8_t* o) {
    uint64_t v = val(width, i);
    for (int k = 0; k < width; ++k)
      o[k] = (uint8_t)(v >> (8 * k));
  });
}

// ---------------------------------------------------------------------------
// THE INDEPENDENT DECODER.  Format (FileGraph.cpp "Graph file format",
// OfflineGraph.h "File format V1" / "File format V2"):
//   uint64 LE version (1|2), sizeofEdgeData, numNodes, numEdges
//   uint64 LE outIdx[numNodes]   END offset of each node's edges
//   uint32 LE outs[numEdges] (v1) | uint64 LE outs[numEdges] (v2)
//   padding of outs to a multiple of 8 bytes (only ever needed for v1)
//   edgeData[numEdges], sizeofEdgeData bytes each
// ---------------------------------------------------------------------------
struct Dec {
  uint64_t ver = 0, esz = 0, n = 0, m = 0;
  Adj adj;
};
static uint64_t get_le(const std::vector<uint8_t>& b, size_t off, int bytes) {
  uint64_t v = 0;
  for (int i = 0; i < bytes; ++i)
    v |= (uint64_t)b[off + i] << (8 * i);
  return v;
}
static void decode_gr(const std::string& comp, const std::string& ctx,
                      const std::vector<uint8_t>& b, Dec& d) {
  if (b.size() < 32)
    fail(comp + ":file-size", "%s: file has %zu bytes, no room for a header",
         ctx.c_str(), b.size());
  d.ver = get_le(b, 0, 8);
  d.esz = get_le(b, 8, 8);
  d.n   = get_le(b, 16, 8);
  d.m   = get_le(b, 24, 8);
  if (d.ver != 1 && d.ver != 2)
    fail(comp + ":header", "%s: version field is %llu", ctx.c_str(),
         (unsigned long long)d.ver);
  if (d.n > 1000 || d.m > 1000 || d.esz > 64)
    fail(comp + ":header", "%s: header n=%llu m=%llu sizeofEdge=%llu",
         ctx.c_str(), (unsigned long long)d.n, (unsigned long long)d.m,
         (unsigned long long)d.esz);
  size_t idw    = d.ver == 1 ? 4 : 8;
  size_t offIdx = 32, offOuts = offIdx + 8 * d.n;
  size_t offData = offOuts + idw * d.m;
  offData        = (offData + 7) & ~(size_t)7;
  size_t need    = offData + d.esz * d.m;
  if (b.size() != need)
    fail(comp + ":file-size",
         "%s: file has %zu bytes, the format needs %zu (v%llu n=%llu m=%llu "
         "sizeofEdge=%llu)",
         ctx.c_str(), b.size(), need, (unsigned long long)d.ver,
         (unsigned long long)d.n, (unsigned long long)d.m,
         (unsigned long long)d.esz);
  uint64_t prev = 0;
  d.adj.assign(d.n, {});
  for (uint64_t u = 0; u < d.n; ++u) {
    uint64_t end = get_le(b, offIdx + 8 * u, 8);
    if (end < prev || end > d.m)
      fail(comp + ":out-index", "%s: outIdx[%llu]=%llu after %llu, m=%llu",
           ctx.c_str(), (unsigned long long)u, (unsigned long long)end,
           (unsigned long long)prev, (unsigned long long)d.m);
    for (uint64_t p = prev; p < end; ++p) {
      uint64_t dst  = get_le(b, offOuts + idw * p, (int)idw);
      uint64_t data = 0;
      if (d.esz >= 1 && d.esz <= 8)
        data = get_le(b, offData + d.esz * p, (int)d.esz);
      d.adj[u].push_back(DE(dst, data));
    }
    prev = end;
  }
  if (prev != d.m)
    fail(comp + ":out-index", "%s: last outIdx is %llu but numEdges is %llu",
         ctx.c_str(), (unsigned long long)prev, (unsigned long long)d.m);
}

static void check_decoded(const std::string& comp, const std::string& ctx,
                          const Tmp& out, const grf::Csr& c, int width,
                          int expectVer) {
  std::vector<uint8_t> bytes = out.read();
  Dec d;
  decode_gr(comp, ctx, bytes, d);
  if (expectVer && (int)d.ver != expectVer)
    fail(comp + ":version", "%s: file version %llu, expected %d", ctx.c_str(),
         (unsigned long long)d.ver, expectVer);
  if (d.esz != (uint64_t)width)
    fail(comp + ":edge-size", "%s: sizeofEdgeData %llu, expected %d",
         ctx.c_str(), (unsigned long long)d.esz, width);
  if (d.m != c.m)
    fail(comp + ":edge-count", "%s: numEdges %llu, expected %llu", ctx.c_str(),
         (unsigned long long)d.m, (unsigned long long)c.m);
  compare_adj(comp, ctx, expect_adj(c, width), d.adj, width != 0);
  sx::outcome(sx::hash_str(std::string(bytes.begin(), bytes.end())));
}

static bool nontrivial_graph(const grf::Csr& c, int width) {
  if (c.m == 0)
    return false;
  if (width && (c.m % 2))
    return true;
  for (uint64_t u = 0; u < c.n; ++u)
    if (c.end(u) - c.begin(u) >= 2)
      return true;
  return false;
}

// ---------------------------------------------------------------------------
// reading a FileGraph through its public API
// ---------------------------------------------------------------------------
template <class T>
static Adj observe_filegraph(const std::string& comp, const std::string& ctx,
                             gg::FileGraph& g) {
  Adj a;
  // the edge data section: a missing pointer would trip assert(edgeData) in
  // getEdgeData and kill the worker; report it as a finding instead
  if (!std::is_void<T>::value && g.sizeEdges() > 0 && g.edgeData == nullptr)
    fail(comp + ":edge-data",
         "%s: the graph has sizeofEdge=%zu and %zu edges but no edge data "
         "section was found in the file (edgeData == nullptr)",
         ctx.c_str(), g.edgeSize(), g.sizeEdges());
  for (auto ii = g.begin(), ei = g.end(); ii != ei; ++ii) {
    std::vector<DE> l;
    uint64_t eb = *g.edge_begin(*ii), ee = *g.edge_end(*ii);
    if (eb > ee || ee > g.sizeEdges())
      fail(comp + ":out-edges",
           "%s: node %llu has edge range [%llu,%llu) with sizeEdges()=%zu",
           ctx.c_str(), (unsigned long long)*ii, (unsigned long long)eb,
           (unsigned long long)ee, g.sizeEdges());
    for (auto jj = g.edge_begin(*ii), ej = g.edge_end(*ii); jj != ej; ++jj) {
      uint64_t data = 0;
      if constexpr (!std::is_void<T>::value)
        data = (uint64_t)g.template getEdgeData<T>(jj);
      l.push_back(DE(g.getEdgeDst(jj), data));
    }
    a.push_back(l);
  }
  return a;
}

// ---------------------------------------------------------------------------
// case 1: FileGraphWriter -> (in-memory use) -> toFile -> decode
// style 0: incrementDegree(id) per edge, addNeighbor<T>(src,dst,data)
// style 1: incrementDegree(id, degree), addNeighbor(src,dst) and the data
//          stored through the pointer returned by finish<T>() at the index
//          addNeighbor returned
// ---------------------------------------------------------------------------
template <class T>
static void run_writer(const GIn& g, int style) {
  const int width = W<T>::width;
  rt();
  grf::Csr c = grf::to_csr(g.n, g.el);
  std::string ctx =
      graph_str(g) + " sizeofEdge=" + std::to_string(width) +
      (style ? " incrementDegree(id,deg)/finish<T>()" : " addNeighbor<T>");
  gg::FileGraphWriter w;
  w.setNumNodes(g.n);
  w.setNumEdges<T>(g.el.size());
  w.phase1();
  if (style == 0) {
    for (auto& e : g.el)
      w.incrementDegree(e.first);
  } else {
    for (uint64_t u = 0; u < g.n; ++u)
      w.incrementDegree(u, c.end(u) - c.begin(u));
  }
  w.phase2();
  std::vector<size_t> at(g.el.size());
  for (size_t i = 0; i < g.el.size(); ++i) {
    if constexpr (std::is_void<T>::value) {
      at[i] = w.addNeighbor(g.el[i].first, g.el[i].second);
    } else {
      if (style == 0)
        at[i] = w.template addNeighbor<T>(g.el[i].first, g.el[i].second,
                                          (T)val(width, i));
      else
        at[i] = w.addNeighbor(g.el[i].first, g.el[i].second);
    }
  }
  if constexpr (std::is_void<T>::value) {
    w.finish();
  } else {
    if (style == 0)
      w.finish();
    else {
      T* d = w.template finish<T>();
      for (size_t i = 0; i < g.el.size(); ++i)
        d[at[i]] = (T)val(width, i);
    }
  }
  // "finish(), use as FileGraph"
  {
    std::string comp = "FileGraphWriter(in-memory)";
    gg::FileGraph& fg = w;
    if (fg.size() != g.n)
      fail(comp + ":node-count", "%s: size()=%zu", ctx.c_str(), fg.size());
    if (fg.sizeEdges() != c.m)
      fail(comp + ":edge-count", "%s: sizeEdges()=%zu", ctx.c_str(),
           fg.sizeEdges());
    compare_adj(comp, ctx, expect_adj(c, width),
                observe_filegraph<T>(comp, ctx, fg), width != 0);
  }
  Tmp out;
  w.toFile(out.path());
  check_decoded("FileGraphWriter->toFile", ctx, out, c, width, 1);
  if (nontrivial_graph(c, width))
    sx::mark_nontrivial();
}

// ---------------------------------------------------------------------------
// case 2: toFile of a FileGraph that was loaded / copied / moved / re-typed
// ---------------------------------------------------------------------------
static const char* const ROUTES[5] = {
    "fromFile->toFile", "fromFile->copy-construct->toFile",
    "fromFile->copy-assign->toFile", "fromFile->fromGraph<T>+fill->toFile",
    "fromFile->copy->move->toFile"};
static const int NROUTES = 5;

template <class T>
static void run_tofile(const GIn& g, int ver, int route) {
  const int width = W<T>::width;
  rt();
  grf::Csr c = grf::to_csr(g.n, g.el);
  std::string ctx = graph_str(g) + " sizeofEdge=" + std::to_string(width) +
                    " v" + std::to_string(ver) + " " + ROUTES[route];
  std::string comp =
      "FileGraph(" + vtag(ver, width) + ") " +
      (route == 0 ? "fromFile" : route == 3 ? "fromGraph<T>" : "copy") +
      "->toFile";
  Tmp in(encode_in(c, ver, width));
  Tmp out;
  gg::FileGraph src;
  src.fromFile(in.path());
  int outWidth = width;
  switch (route) {
  case 0:
    src.toFile(out.path());
    break;
  case 1: {
    gg::FileGraph cp(src);
    cp.toFile(out.path());
    break;
  }
  case 2: {
    gg::FileGraph cp;
    cp = src;
    cp.toFile(out.path());
    break;
  }
  case 3: {
    // "Reads graph connectivity information from graph but not edge data.
    //  Returns a pointer to array to populate with edge data."
    gg::FileGraph cp;
    if constexpr (std::is_void<T>::value) {
      outWidth    = 4; // adds edge data to a graph without (gr2randomweightgr)
      uint32_t* d = cp.fromGraph<uint32_t>(src);
      for (uint64_t p = 0; p < c.m; ++p)
        d[p] = (uint32_t)val(4, c.orig[p]);
    } else {
      T* d = cp.fromGraph<T>(src);
      for (uint64_t p = 0; p < c.m; ++p)
        d[p] = (T)val(width, c.orig[p]);
    }
    cp.toFile(out.path());
    break;
  }
  case 4: {
    gg::FileGraph cp(src);
    gg::FileGraph mv(std::move(cp));
    mv.toFile(out.path());
    break;
  }
  }
  check_decoded(comp, ctx, out, c, outWidth, ver);
  if (nontrivial_graph(c, outWidth))
    sx::mark_nontrivial();
}

// ---------------------------------------------------------------------------
// case 3: FileGraph::fromFile / fromFileInterleaved, whole graph
// ---------------------------------------------------------------------------
template <class T>
static void run_fromfile(const GIn& g, int ver, int variant) {
  const int width = W<T>::width;
  rt();
  grf::Csr c = grf::to_csr(g.n, g.el);
  std::string comp = std::string("FileGraph::") +
                     (variant ? "fromFileInterleaved" : "fromFile") + "(" +
                     vtag(ver, width) + ")";
  std::string ctx = graph_str(g) + " sizeofEdge=" + std::to_string(width);
  Tmp in(encode_in(c, ver, width));
  gg::FileGraph fg;
  if (variant) {
    // fromFileInterleaved = fromFile + pageInByNode, which reads through the
    // edgeData pointer unconditionally; when fromFile found no edge data
    // section (pointer null) that is a SEGV in pageInReadOnly
    // (FileGraph.cpp:585).  Report it instead of killing the worker.
    if (!std::is_void<T>::value && c.m > 0) {
      gg::FileGraph probe;
      probe.fromFile(in.path());
      if (probe.edgeData == nullptr)
        fail(comp + ":edge-data",
             "%s: fromFile leaves edgeData == nullptr for this file although "
             "sizeofEdge=%d and numEdges=%llu; fromFileInterleaved then "
             "dereferences it in pageInByNode/pageInReadOnly (SEGV)",
             ctx.c_str(), width, (unsigned long long)c.m);
    }
    fg.fromFileInterleaved<T>(in.path());
  } else
    fg.fromFile(in.path());
  if (fg.size() != g.n)
    fail(comp + ":node-count", "%s: size()=%zu", ctx.c_str(), fg.size());
  if (fg.sizeEdges() != c.m)
    fail(comp + ":edge-count", "%s: sizeEdges()=%zu", ctx.c_str(),
         fg.sizeEdges());
  if (fg.edgeSize() != (size_t)width)
    fail(comp + ":edge-size", "%s: edgeSize()=%zu", ctx.c_str(),
         fg.edgeSize());
  if (*fg.begin() != 0 || *fg.end() != g.n)
    fail(comp + ":node-count", "%s: begin()=%llu end()=%llu", ctx.c_str(),
         (unsigned long long)*fg.begin(), (unsigned long long)*fg.end());
  Adj exp = expect_adj(c, width);
  Adj got = observe_filegraph<T>(comp, ctx, fg);
  compare_adj(comp, ctx, exp, got, width != 0);
  // edges(N) range
  for (uint64_t u = 0; u < g.n; ++u) {
    std::vector<DE> l;
    for (auto e : fg.edges(u))
      l.push_back(DE(fg.getEdgeDst(e), 0));
    if (l.size() != exp[u].size())
      fail(comp + ":out-edges", "%s: edges(%llu) yields %zu edges, expected %zu",
           ctx.c_str(), (unsigned long long)u, l.size(), exp[u].size());
    for (size_t i = 0; i < l.size(); ++i)
      if (l[i].first != exp[u][i].first)
        fail(comp + ":out-edges", "%s: edges(%llu)[%zu] -> %llu", ctx.c_str(),
             (unsigned long long)u, i, (unsigned long long)l[i].first);
  }
  // the out-index array
  {
    uint64_t u = 0;
    for (auto ii = fg.edge_id_begin(), ei = fg.edge_id_end(); ii != ei;
         ++ii, ++u) {
      if (u >= g.n || *ii != c.outIdx[u])
        fail(comp + ":edge_id-iterator", "%s: element %llu is %llu",
             ctx.c_str(), (unsigned long long)u, (unsigned long long)*ii);
    }
    if (u != g.n)
      fail(comp + ":edge_id-iterator", "%s: %llu elements", ctx.c_str(),
           (unsigned long long)u);
  }
  // hasNeighbor for every pair; getEdgeData(src,dst) must be the data of one
  // of the (possibly parallel) edges src->dst
  for (uint64_t u = 0; u < g.n; ++u)
    for (uint64_t v = 0; v < g.n; ++v) {
      std::set<uint64_t> datas;
      for (auto& e : exp[u])
        if (e.first == v)
          datas.insert(e.second);
      bool has = fg.hasNeighbor(u, v);
      if (has != !datas.empty())
        fail(comp + ":hasNeighbor", "%s: hasNeighbor(%llu,%llu)=%d",
             ctx.c_str(), (unsigned long long)u, (unsigned long long)v,
             (int)has);
      if constexpr (!std::is_void<T>::value) {
        if (has) {
          uint64_t dv = (uint64_t)fg.template getEdgeData<T>(u, v);
          if (!datas.count(dv))
            fail(comp + ":edge-data",
                 "%s: getEdgeData(%llu,%llu)=%llx is not the data of any "
                 "such edge",
                 ctx.c_str(), (unsigned long long)u, (unsigned long long)v,
                 (unsigned long long)dv);
        }
      }
    }
  // containsNode
  for (uint64_t u = 0; u <= g.n + 1; ++u)
    if (fg.containsNode(u) != (u < g.n))
      fail(comp + ":containsNode", "%s: containsNode(%llu)=%d", ctx.c_str(),
           (unsigned long long)u, (int)fg.containsNode(u));
  if (ver == 1) {
    // 32-bit-only iterators ("only version 1 support")
    uint64_t p = 0;
    for (auto ii = fg.node_id_begin(), ei = fg.node_id_end(); ii != ei;
         ++ii, ++p)
      if (p >= c.m || *ii != c.dst[p])
        fail(comp + ":node_id-iterator", "%s: element %llu is %llu",
             ctx.c_str(), (unsigned long long)p, (unsigned long long)*ii);
    if (p != c.m)
      fail(comp + ":node_id-iterator", "%s: %llu elements", ctx.c_str(),
           (unsigned long long)p);
    for (uint64_t u = 0; u < g.n; ++u) {
      size_t i = 0;
      for (auto ii = fg.neighbor_begin(u), ei = fg.neighbor_end(u); ii != ei;
           ++ii, ++i)
        if (i >= exp[u].size() || *ii != exp[u][i].first)
          fail(comp + ":neighbor-iterator", "%s: node %llu element %zu",
               ctx.c_str(), (unsigned long long)u, i);
      if (i != exp[u].size())
        fail(comp + ":neighbor-iterator", "%s: node %llu has %zu neighbors",
             ctx.c_str(), (unsigned long long)u, i);
    }
  }
  if constexpr (!std::is_void<T>::value) {
    if (c.m) {
      T* b = fg.template edge_data_begin<T>();
      T* e = fg.template edge_data_end<T>();
      if ((uint64_t)(e - b) != c.m)
        fail(comp + ":edge-data", "%s: edge_data range has %lld elements",
             ctx.c_str(), (long long)(e - b));
      for (uint64_t p = 0; p < c.m; ++p)
        if ((uint64_t)b[p] != val(width, c.orig[p]))
          fail(comp + ":edge-data", "%s: edge_data_begin()[%llu]=%llx",
               ctx.c_str(), (unsigned long long)p, (unsigned long long)b[p]);
    }
  }
  sx::outcome(adj_hash(got));
  if (nontrivial_graph(c, width))
    sx::mark_nontrivial();
}

// ---------------------------------------------------------------------------
// case 4: FileGraph::partFromFile(filename, NodeRange, EdgeRange)
// "Loads/mmaps particular portions of a graph corresponding to a node range
//  and edge range into memory. ... the object work[s] on a LOCAL scale ...
//  Most functions will still handle global ids".
// Every node range [a,b), 0<=a<=b<=n; the edge range starts at the first edge
// of node a (the convention of divideByNode, and the only start for which
// edge_begin(a) can be right) and ends at EVERY ee in
// [first edge of a, end of last node's edges]: edge_end()/edge_begin() clip
// with min(outIdx, edgeOffset+numEdges), i.e. a node range whose edge range
// ends early presents the nodes' edges clipped to the edge range.
// ---------------------------------------------------------------------------
// r-th node range [a,b) in the order a = 0..N, b = a..N (N = largest n of the
// tier); false if r is past the end.  Ranges with b > n are skipped by callers.
static bool range_at(int r, int N, uint64_t& a, uint64_t& b) {
  for (a = 0; a <= (uint64_t)N; ++a)
    for (b = a; b <= (uint64_t)N; ++b)
      if (r-- == 0)
        return true;
  return false;
}
static int max_n(bool thorough) { return thorough ? 4 : 3; }
static int num_ranges(bool thorough) {
  int N = max_n(thorough);
  return (N + 1) * (N + 2) / 2;
}

template <class T>
static void run_part(const GIn& g, int ver, uint64_t a, uint64_t b,
                     bool containsNodeOnly) {
  const int width = W<T>::width;
  if (b > g.n)
    return; // not a range of this graph
  rt();
  grf::Csr c = grf::to_csr(g.n, g.el);
  std::string comp =
      std::string("FileGraph::partFromFile(v") + (ver == 1 ? "1" : "2") + ")";
  Tmp in(encode_in(c, ver, width));
  Adj whole     = expect_adj(c, width);
  uint64_t h    = 0;
  bool proper   = false;
  uint64_t es   = a < g.n ? c.begin(a) : c.m;
  uint64_t eMax = b > a ? c.end(b - 1) : es;
  for (uint64_t ee = es; ee <= eMax; ++ee) {
    std::ostringstream cs;
    cs << graph_str(g) << " sizeofEdge=" << width << " nodes [" << a << "," << b
       << ") edges [" << es << "," << ee << ")";
    std::string ctx = cs.str();
    gg::FileGraph fg;
    typedef gg::FileGraph::NodeRange NR;
    typedef gg::FileGraph::EdgeRange ER;
    fg.partFromFile(
        in.path(), NR(gg::FileGraph::iterator(a), gg::FileGraph::iterator(b)),
        ER(gg::FileGraph::edge_iterator(es), gg::FileGraph::edge_iterator(ee)));
    if (containsNodeOnly) {
      if (a > 0 && b > a)
        sx::mark_nontrivial(); // a part that does not start at node 0
      // "Checks if a node is in the graph".  Accept the argument being a
      // global id (a <= x < b) or a local one (x < b-a).
      bool okGlobal = true, okLocal = true;
      std::string seen;
      for (uint64_t x = 0; x <= g.n + 1; ++x) {
        bool r = fg.containsNode(x);
        seen += r ? '1' : '0';
        if (r != (x >= a && x < b))
          okGlobal = false;
        if (r != (x < b - a))
          okLocal = false;
      }
      if (!okGlobal && !okLocal)
        fail(comp + ":containsNode",
             "%s: containsNode(0..%llu) = %s matches neither global ids "
             "[%llu,%llu) nor local ids [0,%llu)",
             ctx.c_str(), (unsigned long long)(g.n + 1), seen.c_str(),
             (unsigned long long)a, (unsigned long long)b,
             (unsigned long long)(b - a));
      h = sx::mix(h, sx::hash_str(seen));
      continue;
    }
    if (fg.size() != b - a)
      fail(comp + ":node-count", "%s: size()=%zu", ctx.c_str(), fg.size());
    if (fg.sizeEdges() != ee - es)
      fail(comp + ":edge-count", "%s: sizeEdges()=%zu", ctx.c_str(),
           fg.sizeEdges());
    if (fg.edgeSize() != (size_t)width)
      fail(comp + ":edge-size", "%s: edgeSize()=%zu", ctx.c_str(),
           fg.edgeSize());
    if (*fg.begin() != a || *fg.end() != b)
      fail(comp + ":node-count", "%s: begin()=%llu end()=%llu (global ids)",
           ctx.c_str(), (unsigned long long)*fg.begin(),
           (unsigned long long)*fg.end());
    Adj exp;
    for (uint64_t u = a; u < b; ++u) {
      std::vector<DE> l;
      for (uint64_t p = c.begin(u); p < c.end(u); ++p)
        if (p >= es && p < ee)
          l.push_back(whole[u][p - c.begin(u)]);
      exp.push_back(l);
    }
    Adj got = observe_filegraph<T>(comp, ctx, fg);
    compare_adj(comp, ctx, exp, got, width != 0, a);
    h = sx::mix(h, adj_hash(got));
    if ((b - a) < g.n && ee > es)
      proper = true;
  }
  sx::outcome(h);
  if (proper)
    sx::mark_nontrivial();
}

// ---------------------------------------------------------------------------
// case 5: OCFileGraph (version 1 only), every segment [sb,se) of the edges
// ---------------------------------------------------------------------------
template <class T>
static void run_oc(const GIn& g) {
  const int width = W<T>::width;
  rt();
  grf::Csr c       = grf::to_csr(g.n, g.el);
  std::string comp = "OCFileGraph";
  std::string ctx  = graph_str(g) + " sizeofEdge=" + std::to_string(width);
  Tmp in(encode_in(c, 1, width));
  gg::OCFileGraph og;
  og.fromFile(in.path());
  if (og.size() != g.n || *og.begin() != 0 || *og.end() != g.n)
    fail(comp + ":node-count", "%s: size()=%zu", ctx.c_str(), og.size());
  if (og.sizeEdges() != c.m)
    fail(comp + ":edge-count", "%s: sizeEdges()=%zu", ctx.c_str(),
         og.sizeEdges());
  if ((uint64_t)(og.edge_offset_end() - og.edge_offset_begin()) != g.n)
    fail(comp + ":out-edges", "%s: edge_offset range has %lld elements",
         ctx.c_str(), (long long)(og.edge_offset_end() - og.edge_offset_begin()));
  for (uint64_t u = 0; u < g.n; ++u) {
    if (*og.edge_begin(u) != c.begin(u) || *og.edge_end(u) != c.end(u) ||
        og.edge_offset_begin()[u] != c.outIdx[u])
      fail(comp + ":out-edges",
           "%s: node %llu edge range [%llu,%llu), expected [%llu,%llu)",
           ctx.c_str(), (unsigned long long)u,
           (unsigned long long)*og.edge_begin(u),
           (unsigned long long)*og.edge_end(u), (unsigned long long)c.begin(u),
           (unsigned long long)c.end(u));
  }
  uint64_t h = 0;
  for (uint64_t sb = 0; sb <= c.m; ++sb)
    for (uint64_t se = sb; se <= c.m; ++se) {
      gg::OCFileGraph::segment_type seg;
      og.load(seg, gg::OCFileGraph::edge_iterator(sb),
              gg::OCFileGraph::edge_iterator(se), (size_t)width);
      for (uint64_t p = sb; p < se; ++p) {
        gg::OCFileGraph::edge_iterator it(p);
        uint64_t dst = og.getEdgeDst(seg, it);
        if (dst != c.dst[p])
          fail(comp + ":out-edges",
               "%s: segment [%llu,%llu): edge %llu -> %llu, expected %llu",
               ctx.c_str(), (unsigned long long)sb, (unsigned long long)se,
               (unsigned long long)p, (unsigned long long)dst,
               (unsigned long long)c.dst[p]);
        if constexpr (!std::is_void<T>::value) {
          uint64_t dv = (uint64_t)(T)og.template getEdgeData<T>(seg, it);
          if (dv != val(width, c.orig[p]))
            fail(comp + ":edge-data",
                 "%s: segment [%llu,%llu): edge %llu data %llx, expected %llx",
                 ctx.c_str(), (unsigned long long)sb, (unsigned long long)se,
                 (unsigned long long)p, (unsigned long long)dv,
                 (unsigned long long)val(width, c.orig[p]));
          h = sx::mix(h, dv);
        }
        h = sx::mix(h, dst);
      }
      og.unload(seg);
    }
  sx::outcome(h);
  if (nontrivial_graph(c, width))
    sx::mark_nontrivial();
}

// ---------------------------------------------------------------------------
// case 6: OfflineGraph (versions 1 and 2)
// ---------------------------------------------------------------------------
template <class T>
static void run_offline(const GIn& g, int ver) {
  const int width = W<T>::width;
  rt();
  grf::Csr c = grf::to_csr(g.n, g.el);
  std::string comp =
      std::string("OfflineGraph(v") + (ver == 1 ? "1" : "2") + ")";
  std::string ctx = graph_str(g) + " sizeofEdge=" + std::to_string(width);
  Tmp in(encode_in(c, ver, width));
  std::unique_ptr<gg::OfflineGraph> og;
  try {
    og.reset(new gg::OfflineGraph(in.path()));
  } catch (const char* what) {
    fail(comp + ":rejects-file", "%s: constructor threw \"%s\"", ctx.c_str(),
         what);
  }
  if (og->size() != g.n || *og->begin() != 0 || *og->end() != g.n)
    fail(comp + ":node-count", "%s: size()=%zu", ctx.c_str(), og->size());
  if (og->sizeEdges() != c.m)
    fail(comp + ":edge-count", "%s: sizeEdges()=%zu", ctx.c_str(),
         og->sizeEdges());
  if (og->edgeSize() != (size_t)width)
    fail(comp + ":edge-size", "%s: edgeSize()=%zu", ctx.c_str(),
         og->edgeSize());
  Adj got;
  for (uint64_t u = 0; u < g.n; ++u) {
    uint64_t eb = *og->edge_begin(u), ee = *og->edge_end(u);
    if (eb != c.begin(u) || ee != c.end(u) || (*og)[u] != c.outIdx[u])
      fail(comp + ":out-edges",
           "%s: node %llu edge range [%llu,%llu) prefix-sum[%llu]=%llu, "
           "expected [%llu,%llu)",
           ctx.c_str(), (unsigned long long)u, (unsigned long long)eb,
           (unsigned long long)ee, (unsigned long long)u,
           (unsigned long long)(*og)[u], (unsigned long long)c.begin(u),
           (unsigned long long)c.end(u));
    std::vector<DE> l;
    for (auto e : og->edges(u)) {
      uint64_t data = 0;
      if constexpr (!std::is_void<T>::value)
        data = (uint64_t)og->template getEdgeData<T>(e);
      l.push_back(DE(og->getEdgeDst(e), data));
    }
    got.push_back(l);
  }
  compare_adj(comp, ctx, expect_adj(c, width), got, width != 0);
  sx::outcome(adj_hash(got));
  if (nontrivial_graph(c, width))
    sx::mark_nontrivial();
}

// ---------------------------------------------------------------------------
// case 7: BufferedGraph<T> (version 1 only): loadGraph, and loadPartialGraph
// for every node range [a,b) with the edge range that belongs to it
// ("edgeStart: First edge to load; should correspond to first edge of first
//  node"), numGlobalNodes / numGlobalEdges as in the file.
// edgeBegin/edgeEnd return GLOBAL edge ids ("a GLOBAL edge id iterator").
// ---------------------------------------------------------------------------
template <class T>
static Adj observe_buffered(const std::string& comp, const std::string& ctx,
                            gg::BufferedGraph<T>& bg, const grf::Csr& c,
                            uint64_t a, uint64_t b) {
  Adj got;
  for (uint64_t u = a; u < b; ++u) {
    uint64_t eb = *bg.edgeBegin(u), ee = *bg.edgeEnd(u);
    if (eb != c.begin(u) || ee != c.end(u))
      fail(comp + ":edgeBegin-edgeEnd",
           "%s: node %llu has global edge range [%llu,%llu), expected "
           "[%llu,%llu)",
           ctx.c_str(), (unsigned long long)u, (unsigned long long)eb,
           (unsigned long long)ee, (unsigned long long)c.begin(u),
           (unsigned long long)c.end(u));
    std::vector<DE> l;
    for (uint64_t p = eb; p < ee; ++p) {
      uint64_t data = 0;
      if constexpr (!std::is_void<T>::value)
        data = (uint64_t)bg.edgeData(p);
      l.push_back(DE(bg.edgeDestination(p), data));
    }
    got.push_back(l);
  }
  return got;
}

template <class T>
static void run_buffered_whole(const GIn& g) {
  const int width = W<T>::width;
  rt();
  grf::Csr c = grf::to_csr(g.n, g.el);
  Tmp in(encode_in(c, 1, width));
  std::string comp = "BufferedGraph::loadGraph";
  std::string ctx  = graph_str(g) + " sizeofEdge=" + std::to_string(width);
  gg::BufferedGraph<T> bg;
  bg.loadGraph(in.path());
  if (bg.size() != g.n)
    fail(comp + ":node-count", "%s: size()=%u", ctx.c_str(), bg.size());
  if (bg.sizeEdges() != c.m)
    fail(comp + ":edge-count", "%s: sizeEdges()=%u", ctx.c_str(),
         bg.sizeEdges());
  Adj got = observe_buffered<T>(comp, ctx, bg, c, 0, g.n);
  compare_adj(comp, ctx, expect_adj(c, width), got, width != 0);
  sx::outcome(adj_hash(got));
  if (nontrivial_graph(c, width))
    sx::mark_nontrivial();
}

template <class T>
static void run_buffered_part(const GIn& g, uint64_t a, uint64_t b) {
  const int width = W<T>::width;
  if (b > g.n)
    return; // not a range of this graph
  rt();
  grf::Csr c = grf::to_csr(g.n, g.el);
  Tmp in(encode_in(c, 1, width));
  Adj whole   = expect_adj(c, width);
  uint64_t es = a < g.n ? c.begin(a) : c.m;
  uint64_t ee = b > a ? c.end(b - 1) : es;
  std::string comp = "BufferedGraph::loadPartialGraph";
  std::ostringstream cs;
  cs << graph_str(g) << " sizeofEdge=" << width << " loadPartialGraph(nodes ["
     << a << "," << b << "), edges [" << es << "," << ee << "), " << g.n << ", "
     << c.m << ")";
  std::string ctx = cs.str();
  gg::BufferedGraph<T> bg;
  bg.loadPartialGraph(in.path(), a, b, es, ee, g.n, c.m);
  if (bg.size() != g.n)
    fail(comp + ":node-count", "%s: size()=%u (global)", ctx.c_str(),
         bg.size());
  if (bg.sizeEdges() != c.m)
    fail(comp + ":edge-count", "%s: sizeEdges()=%u (global)", ctx.c_str(),
         bg.sizeEdges());
  if (b > a && bg.getNodeOffset() != a)
    fail(comp + ":node-offset", "%s: getNodeOffset()=%llu", ctx.c_str(),
         (unsigned long long)bg.getNodeOffset());
  Adj exp(whole.begin() + a, whole.begin() + b);
  Adj got = observe_buffered<T>(comp, ctx, bg, c, a, b);
  compare_adj(comp, ctx, exp, got, width != 0, a);
  sx::outcome(sx::mix(adj_hash(got), a * 16 + b));
  if (b - a < g.n && b > a && c.m)
    sx::mark_nontrivial();
}

// ---------------------------------------------------------------------------
// dispatch
// ---------------------------------------------------------------------------
// idx = gi * (nw * nvar) + k * nvar + var, width index wi = wfirst + k.
// Every component gets one case for the widths 0/4/8 and one for 1-byte edge
// data: the latter fails for a reason of its own (the length test in
// FileGraph::fromMem) and must not crowd the findings table of the former.
#define DISPATCH(wi, CALL)                                                     \
  do {                                                                         \
    if ((wi) == 0) {                                                           \
      typedef void T;                                                          \
      CALL;                                                                    \
    } else if ((wi) == 1) {                                                    \
      typedef uint32_t T;                                                      \
      CALL;                                                                    \
    } else if ((wi) == 3) {                                                    \
      typedef uint8_t T;                                                       \
      CALL;                                                                    \
    } else {                                                                   \
      typedef uint64_t T;                                                      \
      CALL;                                                                    \
    }                                                                          \
  } while (0)

typedef std::function<void(const GIn&, int wi, int var, bool thorough)> Body;
typedef std::function<std::string(int var, bool thorough)> VDesc;

static std::vector<sx::EnumCase>* g_cases = nullptr;

// quickBoundsAlways: use the quick tier's input bounds in both tiers
static void add_case1(const std::string& name, int wfirst, int nw,
                      std::function<int(bool)> nvar, Body body, VDesc vdesc,
                      bool quickBoundsAlways) {
  sx::EnumCase c;
  c.name  = name;
  c.count = [nvar, quickBoundsAlways, nw](bool th) {
    th = th && !quickBoundsAlways;
    return graph_count(th) * nw * nvar(th);
  };
  c.run = [nvar, body, quickBoundsAlways, wfirst, nw](uint64_t idx, bool th) {
    th      = th && !quickBoundsAlways;
    int nv  = nvar(th);
    int var = (int)(idx % nv);
    idx /= nv;
    int wi = wfirst + (int)(idx % nw);
    idx /= nw;
    GIn g = graph_at(idx, th);
    body(g, wi, var, th);
  };
  c.describe = [nvar, vdesc, quickBoundsAlways, wfirst, nw](uint64_t idx,
                                                            bool th) {
    th      = th && !quickBoundsAlways;
    int nv  = nvar(th);
    int var = (int)(idx % nv);
    idx /= nv;
    int wi = wfirst + (int)(idx % nw);
    idx /= nw;
    GIn g = graph_at(idx, th);
    return graph_str(g) + " sizeofEdge=" + std::to_string(WIDTHS[wi]) + " " +
           vdesc(var, th);
  };
  g_cases->push_back(c);
}

static void add_case(const std::string& name, std::function<int(bool)> nvar,
                     Body body, VDesc vdesc, bool quickBoundsAlways = false) {
  add_case1(name + " [sizeofEdge 0/4/8]", 0, 3, nvar, body, vdesc,
            quickBoundsAlways);
  add_case1(name + " [sizeofEdge 1]", 3, 1, nvar, body, vdesc,
            quickBoundsAlways);
}

static std::function<int(bool)> fixed(int k) {
  return [k](bool) { return k; };
}
static std::string range_str(int r, bool th) {
  uint64_t a, b;
  range_at(r, max_n(th), a, b);
  return "nodes [" + std::to_string(a) + "," + std::to_string(b) + ")";
}

int main(int argc, char** argv) {
  remove_stale();
  std::vector<sx::EnumCase> en;
  g_cases = &en;
  add_case(
      "write v1: FileGraphWriter -> toFile -> independent decoder", fixed(2),
      [](const GIn& g, int wi, int style, bool) {
        DISPATCH(wi, run_writer<T>(g, style));
      },
      [](int style, bool) {
        return std::string(style ? "incrementDegree(id,deg)+finish<T>()"
                                 : "incrementDegree(id)+addNeighbor<T>");
      });
  for (int ver = 1; ver <= 2; ++ver) {
    std::string V = "v" + std::to_string(ver);
    add_case(
        "write " + V +
            ": FileGraph loaded/copied/moved/fromGraph -> toFile -> "
            "independent decoder",
        fixed(NROUTES),
        [ver](const GIn& g, int wi, int route, bool) {
          DISPATCH(wi, run_tofile<T>(g, ver, route));
        },
        [](int route, bool) { return std::string(ROUTES[route]); });
  }
  for (int ver = 1; ver <= 2; ++ver) {
    std::string V = "v" + std::to_string(ver);
    add_case(
        "read " + V + ": FileGraph::fromFile / fromFileInterleaved", fixed(2),
        [ver](const GIn& g, int wi, int variant, bool) {
          DISPATCH(wi, run_fromfile<T>(g, ver, variant));
        },
        [](int variant, bool) {
          return std::string(variant ? "fromFileInterleaved" : "fromFile");
        });
    add_case(
        "read " + V +
            ": FileGraph::partFromFile, every node range x every edge-range "
            "end",
        num_ranges,
        [ver](const GIn& g, int wi, int r, bool th) {
          uint64_t a, b;
          range_at(r, max_n(th), a, b);
          DISPATCH(wi, run_part<T>(g, ver, a, b, false));
        },
        range_str);
    add_case(
        "read " + V + ": FileGraph::partFromFile containsNode", num_ranges,
        [ver](const GIn& g, int wi, int r, bool th) {
          uint64_t a, b;
          range_at(r, max_n(th), a, b);
          DISPATCH(wi, run_part<T>(g, ver, a, b, true));
        },
        range_str, /*quickBoundsAlways=*/true);
    add_case(
        "read " + V + ": OfflineGraph", fixed(1),
        [ver](const GIn& g, int wi, int, bool) {
          DISPATCH(wi, run_offline<T>(g, ver));
        },
        [](int, bool) { return std::string(); });
  }
  add_case(
      "read v1: OCFileGraph, every edge segment", fixed(1),
      [](const GIn& g, int wi, int, bool) { DISPATCH(wi, run_oc<T>(g)); },
      [](int, bool) { return std::string(); });
  add_case(
      "read v1: BufferedGraph::loadGraph", fixed(1),
      [](const GIn& g, int wi, int, bool) {
        DISPATCH(wi, run_buffered_whole<T>(g));
      },
      [](int, bool) { return std::string(); });
  add_case(
      "read v1: BufferedGraph::loadPartialGraph, every node range", num_ranges,
      [](const GIn& g, int wi, int r, bool th) {
        uint64_t a, b;
        range_at(r, max_n(th), a, b);
        DISPATCH(wi, run_buffered_part<T>(g, a, b));
      },
      range_str);
  // share of the deadline per case, roughly proportional to measured cost
  static const struct {
    const char* frag;
    int weight;
  } WEIGHTS[] = {{"loaded/copied/moved", 4}, {"write v2", 8},
                 {"fromFile /", 4},          {"every node range", 5}};
  for (auto& c : en)
    for (auto& w : WEIGHTS)
      if (c.name.find(w.frag) != std::string::npos)
        c.weight = w.weight; // later entries override earlier ones
  return sx::sx_main(argc, argv, "C12", {}, en);
}

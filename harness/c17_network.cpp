// C17 (network half): every tagged message is delivered exactly once, intact,
// per (peer, tag, sender) in order; host fence phases.  Engine E3 = E1 plus
// environment choices (what MPI_Iprobe / MPI_Test answer).  The real
// NetworkBuffered.cpp / NetworkIOMPI.cpp / Network.cpp / Barrier.cpp run over
// an in-process reflector: a message sent to host h with tag t is later
// received FROM host h with tag t; FIFO per peer (MPI non-overtaking),
// arbitrary across peers.  DESIGN.md 4, 7/C17.
#include "gsched.h"

#include "mpi.h"

#include "galois/Galois.h"
#include "galois/runtime/Network.h"
#include "galois/substrate/CompilerSpecific.h"

#include <cstring>
#include <deque>
#include <string>
#include <thread>
#include <vector>

// ---------------------------------------------------------------------------
// reflector (all MPI calls come from the communication thread)
// ---------------------------------------------------------------------------
static int g_num_hosts = 2;
struct Wire {
  int tag;
  std::vector<uint8_t> bytes;
  const void* src; // sender's buffer (must stay intact until completion)
  uint64_t seq;
  int send_req;
  bool probed;
};
static std::deque<Wire> wire[4]; // per peer
static uint64_t wire_seq;
struct Req {
  bool is_send;
  bool done;
  int peer;
  void* rbuf;
  int rlen;
  std::vector<uint8_t> data;
  const void* sbuf;
  std::vector<uint8_t> scopy;
};
static std::vector<Req> reqs;
static std::string g_tag;

extern "C" {
int MPI_Init_thread(int*, char***, int, int* provided) {
  *provided = MPI_THREAD_MULTIPLE;
  return MPI_SUCCESS;
}
int MPI_Finalize(void) { return MPI_SUCCESS; }
int MPI_Abort(MPI_Comm, int code) {
  vf_fail((g_tag + ":MPI_Abort").c_str(), "MPI_Abort(%d) called", code);
}
int MPI_Comm_rank(MPI_Comm, int* r) {
  *r = 0;
  return MPI_SUCCESS;
}
int MPI_Comm_size(MPI_Comm, int* n) {
  *n = g_num_hosts;
  return MPI_SUCCESS;
}
int MPI_Isend(const void* buf, int n, MPI_Datatype, int dest, int tag, MPI_Comm,
              MPI_Request* req) {
  if (dest <= 0 || dest >= g_num_hosts)
    vf_fail((g_tag + ":send-to-bad-host").c_str(), "MPI_Isend to host %d", dest);
  Wire w;
  w.tag = tag;
  w.bytes.assign((const uint8_t*)buf, (const uint8_t*)buf + n);
  w.src      = buf;
  w.seq      = wire_seq++;
  w.probed   = false;
  Req r;
  r.is_send = true;
  r.done    = false;
  r.peer    = dest;
  r.rbuf    = nullptr;
  r.rlen    = n;
  r.sbuf    = buf;
  r.scopy   = w.bytes;
  reqs.push_back(r);
  w.send_req = (int)reqs.size() - 1;
  *req       = w.send_req;
  wire[dest].push_back(std::move(w));
  return MPI_SUCCESS;
}
int MPI_Issend(const void* buf, int n, MPI_Datatype t, int dest, int tag,
               MPI_Comm c, MPI_Request* req) {
  return MPI_Isend(buf, n, t, dest, tag, c, req);
}
int MPI_Iprobe(int, int, MPI_Comm, int* flag, MPI_Status* st) {
  // heads that have not been matched by a receive yet
  int cand[4], nc = 0;
  for (int h = 1; h < g_num_hosts; ++h)
    for (auto& w : wire[h])
      if (!w.probed) {
        cand[nc++] = h;
        break;
      }
  *flag = 0;
  if (nc == 0)
    return MPI_SUCCESS;
  // default answer: the globally oldest head; alternatives: another peer's
  // head, or "nothing visible yet"
  int oldest = 0;
  auto head  = [&](int h) -> Wire& {
    for (auto& w : wire[h])
      if (!w.probed)
        return w;
    return wire[h].front();
  };
  for (int i = 1; i < nc; ++i)
    if (head(cand[i]).seq < head(cand[oldest]).seq)
      oldest = i;
  int c = vf_choose(nc + 1);
  if (c == nc)
    return MPI_SUCCESS; // not visible yet
  int pick = c == 0 ? oldest : (c - 1 < oldest ? c - 1 : c);
  if (pick >= nc)
    pick = oldest;
  Wire& w        = head(cand[pick]);
  *flag          = 1;
  st->MPI_SOURCE = cand[pick];
  st->MPI_TAG    = w.tag;
  st->vf_count   = (int)w.bytes.size();
  return MPI_SUCCESS;
}
int MPI_Get_count(const MPI_Status* st, MPI_Datatype, int* count) {
  *count = st->vf_count;
  return MPI_SUCCESS;
}
int MPI_Irecv(void* buf, int n, MPI_Datatype, int source, int tag, MPI_Comm,
              MPI_Request* req) {
  for (auto& w : wire[source]) {
    if (w.probed)
      continue;
    if (w.tag != tag || (int)w.bytes.size() != n)
      vf_fail((g_tag + ":recv-mismatch").c_str(),
              "MPI_Irecv(source %d, tag %d, %d bytes) but the earliest "
              "message from that peer has tag %d, %zu bytes",
              source, tag, n, w.tag, w.bytes.size());
    w.probed = true;
    Req r;
    r.is_send = false;
    r.done    = false;
    r.peer    = source;
    r.rbuf    = buf;
    r.rlen    = n;
    r.data    = w.bytes;
    r.sbuf    = nullptr;
    reqs.push_back(r);
    *req = (int)reqs.size() - 1;
    return MPI_SUCCESS;
  }
  vf_fail((g_tag + ":recv-without-message").c_str(),
          "MPI_Irecv from %d tag %d but nothing is pending", source, tag);
}
int MPI_Test(MPI_Request* req, int* flag, MPI_Status*) {
  Req& r = reqs[*req];
  if (r.done) {
    *flag = 1;
    return MPI_SUCCESS;
  }
  // default: completes now; alternative: not yet
  if (vf_choose(2) == 1) {
    *flag = 0;
    return MPI_SUCCESS;
  }
  if (r.is_send) {
    // the library must keep the send buffer intact until completion
    if (memcmp(r.sbuf, r.scopy.data(), r.scopy.size()) != 0)
      vf_fail((g_tag + ":send-buffer-changed-before-completion").c_str(),
              "buffer of a %zu byte send to host %d was modified before the "
              "send completed",
              r.scopy.size(), r.peer);
  } else {
    memcpy(r.rbuf, r.data.data(), r.rlen);
    // the matched message leaves the wire
    for (auto it = wire[r.peer].begin(); it != wire[r.peer].end(); ++it)
      if (it->probed) {
        wire[r.peer].erase(it);
        break;
      }
  }
  r.done = true;
  *flag  = 1;
  return MPI_SUCCESS;
}
int MPI_Barrier(MPI_Comm) { return MPI_SUCCESS; }
}

// ---------------------------------------------------------------------------
// driver
// ---------------------------------------------------------------------------
struct MsgSpec {
  int sender; // 0 = main thread, 1 = second sender thread
  int dest;
  int tag;
  int size; // payload bytes (>= 16)
};

static std::vector<uint8_t> make_payload(const MsgSpec& m, int seq) {
  std::vector<uint8_t> p(m.size < 16 ? 16 : m.size);
  uint32_t hdr[4] = {(uint32_t)m.sender + 1, (uint32_t)seq + 1,
                     (uint32_t)p.size(), 0};
  for (size_t i = 16; i < p.size(); ++i)
    p[i] = (uint8_t)(i * 7 + m.sender * 31 + seq * 13 + 1);
  uint32_t sum = 0;
  for (size_t i = 16; i < p.size(); ++i)
    sum = sum * 31 + p[i];
  hdr[3] = sum ^ 0x5a5a5a5a;
  memcpy(p.data(), hdr, 16);
  return p;
}

static void net_case(int hosts, std::vector<MsgSpec> msgs, bool flush,
                     bool fast_clock, bool fence, std::string name) {
  int topo[1] = {3};
  vf_set_topology(topo, 1);
  g_tag = "net:" + name;
  vf_tag("net");
  g_num_hosts = hosts;
  vf_set_clock_step(fast_clock ? 500000 : 1); // 500us vs 1ns per clock read
  galois::SharedMemSys G;
  auto& net = galois::runtime::makeNetworkBuffered();
  if (net.Num != (unsigned)hosts)
    vf_fail("net:wrong-host-count", "Num=%u", net.Num);
  // sequence numbers per (sender, dest, tag)
  std::vector<int> seqno(msgs.size());
  {
    int cnt[2][4][4] = {};
    for (size_t i = 0; i < msgs.size(); ++i)
      seqno[i] = cnt[msgs[i].sender][msgs[i].dest][msgs[i].tag]++;
  }
  bool two = false;
  for (auto& m : msgs)
    two |= m.sender == 1;
  vf_window_begin();
  auto send_all = [&](int who) {
    for (size_t i = 0; i < msgs.size(); ++i) {
      if (msgs[i].sender != who)
        continue;
      auto p = make_payload(msgs[i], seqno[i]);
      galois::runtime::SendBuffer b;
      b.insert(p.data(), p.size());
      net.sendTagged(msgs[i].dest, msgs[i].tag, b);
    }
  };
  std::thread second;
  if (two)
    second = std::thread([&]() { send_all(1); });
  send_all(0);
  if (two)
    second.join();
  if (flush)
    net.flush();
  // receive everything: poll both tags (a message with the other tag at the
  // head of a peer's queue blocks that peer until it is taken)
  size_t got = 0;
  int next_seq[2][4][4] = {};
  int seen[64]          = {0};
  while (got < msgs.size()) {
    bool any = false;
    for (int tag = 1; tag <= 2; ++tag) {
      auto r = net.recieveTagged(tag, nullptr);
      if (!r)
        continue;
      any          = true;
      uint32_t src = r->first;
      auto& buf    = r->second;
      size_t n     = buf.r_size();
      std::vector<uint8_t> p(n);
      if (n)
        memcpy(p.data(), buf.r_linearData(), n);
      if (n < 16)
        vf_fail((g_tag + ":truncated-message").c_str(),
                "received %zu bytes from host %u tag %d", n, src, tag);
      uint32_t hdr[4];
      memcpy(hdr, p.data(), 16);
      int sender = (int)hdr[0] - 1, seq = (int)hdr[1] - 1;
      // find the matching spec
      int idx = -1;
      for (size_t i = 0; i < msgs.size(); ++i)
        if (msgs[i].sender == sender && msgs[i].dest == (int)src &&
            msgs[i].tag == tag && seqno[i] == seq)
          idx = (int)i;
      if (idx < 0)
        vf_fail((g_tag + ":unknown-message").c_str(),
                "received a message (sender %d seq %d) from host %u tag %d "
                "that was never sent there",
                sender, seq, src, tag);
      if (seen[idx]++)
        vf_fail((g_tag + ":duplicate-delivery").c_str(),
                "message %d delivered twice", idx);
      if (make_payload(msgs[idx], seq) != p)
        vf_fail((g_tag + ":payload-corrupted").c_str(),
                "message %d (%zu bytes) arrived with different contents (%zu "
                "bytes)",
                idx, msgs[idx].size < 16 ? (size_t)16 : (size_t)msgs[idx].size,
                n);
      if (seq != next_seq[sender][src][tag])
        vf_fail((g_tag + ":out-of-order").c_str(),
                "sender %d -> host %u tag %d: got sequence %d, expected %d",
                sender, src, tag, seq, next_seq[sender][src][tag]);
      next_seq[sender][src][tag]++;
      vf_log(1, idx, 0);
      got++;
    }
    if (!any)
      galois::substrate::asmPause();
  }
  if (fence) {
    // host fence: one more exchange with every peer, then a message after it
    galois::runtime::evilPhase = 3;
    galois::runtime::getHostFence().wait();
    MsgSpec m{0, 1, 1, 40};
    auto p = make_payload(m, 99);
    galois::runtime::SendBuffer b;
    b.insert(p.data(), p.size());
    net.sendTagged(1, 1, b);
    net.flush();
    for (;;) {
      auto r = net.recieveTagged(1, nullptr);
      if (r) {
        std::vector<uint8_t> q(r->second.r_size());
        memcpy(q.data(), r->second.r_linearData(), q.size());
        if (q != p)
          vf_fail((g_tag + ":payload-corrupted-after-fence").c_str(),
                  "message after the fence corrupted");
        break;
      }
      galois::substrate::asmPause();
    }
  }
  vf_window_end();
  // nothing else may be pending
  for (int tag = 1; tag <= 2; ++tag)
    if (net.recieveTagged(tag, nullptr))
      vf_fail((g_tag + ":extra-message").c_str(), "an extra message with tag %d",
              tag);
  vf_outcome(got);
  vf_finish();
}

int main(int argc, char** argv) {
  std::vector<VfCase> cases;
  auto add = [&](std::string name, int hosts, std::vector<MsgSpec> msgs,
                 bool flush, bool fast, bool fence, int qb, int tb, int w = 1) {
    VfCase c;
    c.name           = "net " + name + " hosts=" + std::to_string(hosts) +
             (flush ? " flush" : " noflush") + (fast ? " timeout-fires" : " no-timeout") +
             (fence ? " +fence" : "");
    c.quick_bound    = qb;
    c.thorough_bound = tb;
    c.weight         = w;
    c.body = [=]() { net_case(hosts, msgs, flush, fast, fence, name); };
    cases.push_back(c);
  };
  // sizes around COMM_MIN = 1400 bytes
  add("one-small", 2, {{0, 1, 1, 16}}, true, false, false, 1, 2);
  add("two-same-tag", 2, {{0, 1, 1, 16}, {0, 1, 1, 40}}, true, false, false, 0,
      2);
  add("two-tags", 2, {{0, 1, 1, 16}, {0, 1, 2, 24}, {0, 1, 1, 32}}, true, false,
      false, 1, 2);
  add("around-threshold", 2, {{0, 1, 1, 1399}, {0, 1, 1, 1401}, {0, 1, 1, 17}},
      true, false, false, 1, 2);
  add("overflow-noflush", 2, {{0, 1, 1, 1401}, {0, 1, 1, 20}}, false, true,
      false, 0, 2);
  add("timeout-noflush", 2, {{0, 1, 1, 16}, {0, 1, 2, 16}}, false, true, false,
      0, 2);
  add("two-peers", 3, {{0, 1, 1, 16}, {0, 2, 1, 24}, {0, 1, 2, 32}, {0, 2, 2, 40}},
      true, false, false, 1, 2);
  add("two-senders", 2, {{0, 1, 1, 16}, {1, 1, 1, 24}, {0, 1, 1, 32}, {1, 1, 1, 40}},
      true, false, false, 0, 1, 2);
  add("two-senders-two-peers", 3,
      {{0, 1, 1, 16}, {1, 2, 1, 24}, {0, 2, 2, 1401}, {1, 1, 2, 40}}, true,
      true, false, 0, 1, 2);
  add("fence", 3, {{0, 1, 1, 16}, {0, 2, 2, 24}}, true, false, true, 0, 1, 2);
  add("big", 2, {{0, 1, 1, 3 << 20}, {0, 1, 1, 16}}, true, false, false, 0, 0);
  return vf_main(argc, argv, "C17", cases);
}

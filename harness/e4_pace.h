// e4_pace.h -- TIMING-ONLY shim for the E4 harnesses.  Must be included before
// any Galois header.
//
// Every Galois host runs two threads that poll without ever yielding: the
// network thread (NetworkInterfaceBuffered::workerThread: MPI_Iprobe/MPI_Test
// in a tight loop) and the compute thread inside the libraries' receive loops
// (`do { p = net.recieveTagged(..); } while (!p);`).  On a machine that is
// shared with other CPU-bound work, h hosts x 2 spinning threads are treated
// as CPU hogs by the kernel scheduler and every message hop waits for a time
// slice (measured: 15-25 ms per Gluon sync at load average 40 on 16 cores,
// i.e. < 50 syncs/s per session).  A thread that SLEEPS while it has nothing
// to do is scheduled promptly when it wakes, so the shim makes IDLE polls
// sleep for ~20 us after a short spin:
//   * MPI_Iprobe is interposed through the standard PMPI profiling interface
//     (the harness defines MPI_Iprobe, calls PMPI_Iprobe, pauses on a miss);
//   * calls of galois::runtime::getSystemNetworkInterface() made from header
//     code instantiated in the harness TU (Gluon, CuSP, DGAccumulator) get a
//     decorator that forwards every virtual to the real NetworkInterface and
//     pauses when recieveTagged() found nothing.
// No Galois code is changed and no message is altered, dropped or reordered;
// only the idle-poll frequency changes, and only where the harness enables it
// (e4::pace_on(true): the sync loops of C18).  VERIF_E4_NOPACE=1 disables it
// everywhere (the unmodified busy-polling behaviour).
#ifndef VERIF_E4_PACE_H
#define VERIF_E4_PACE_H

#include <mpi.h>

#include <cstdlib>
#include <sys/prctl.h>
#include <time.h>

namespace e4 {
// Pacing is OFF unless the harness switches it on for a stretch of code.
// It is used ONLY around the Gluon sync loops of c18_gluon.cpp.  It is never
// on while CuSP partitions or a GluonSubstrate is being constructed: with the
// naps active, back-to-back partitions with the asynchronous master
// assignment occasionally ended with the two hosts in different protocol
// steps (8-10 stalled sessions per ~1500 partitions; 0 in 2805 without the
// naps).  Whether that is a timing sensitivity of the code under test or of
// this shim was not established, so the shim stays away from that code.
inline int& pace_flag() {
  static int on = 0;
  return on;
}
inline void pace_on(bool on) {
  pace_flag() = (on && !getenv("VERIF_E4_NOPACE")) ? 1 : 0;
}
inline bool pace_enabled() { return pace_flag() != 0; }
inline void idle_pause(unsigned& misses) {
  if (++misses < 64 || !pace_enabled())
    return;
  static thread_local bool slack = false;
  if (!slack) {
    prctl(PR_SET_TIMERSLACK, 1000UL, 0, 0, 0);
    slack = true;
  }
  struct timespec ts = {0, 20000};
  nanosleep(&ts, nullptr);
}
} // namespace e4

extern "C" int MPI_Iprobe(int source, int tag, MPI_Comm comm, int* flag,
                          MPI_Status* status) {
  int rv = PMPI_Iprobe(source, tag, comm, flag, status);
  static thread_local unsigned misses = 0;
  if (rv == MPI_SUCCESS && *flag)
    misses = 0;
  else
    e4::idle_pause(misses);
  return rv;
}

// from here on, header code that asks for the system network interface gets
// the pacing decorator (defined at the end of this file's second half, which
// the harness pulls in with E4_PACE_IMPL after the Galois headers)
#define getSystemNetworkInterface verif_paced_network_interface

#endif // VERIF_E4_PACE_H

#ifdef E4_PACE_IMPL
#undef E4_PACE_IMPL
#undef getSystemNetworkInterface
namespace galois {
namespace runtime {
NetworkInterface& getSystemNetworkInterface(); // the real one (libdist)

class VerifPacedNetwork : public NetworkInterface {
  NetworkInterface& real;

public:
  explicit VerifPacedNetwork(NetworkInterface& r) : real(r) {}
  void sendTagged(uint32_t dest, uint32_t tag, SendBuffer& buf,
                  int type = 0) override {
    real.sendTagged(dest, tag, buf, type);
  }
  std::optional<std::pair<uint32_t, RecvBuffer>>
  recieveTagged(uint32_t tag, std::unique_lock<substrate::SimpleLock>* rlg,
                int type = 0) override {
    auto r = real.recieveTagged(tag, rlg, type);
    static thread_local unsigned misses = 0;
    if (r)
      misses = 0;
    else
      e4::idle_pause(misses);
    return r;
  }
  void flush() override { real.flush(); }
  bool anyPendingSends() override { return real.anyPendingSends(); }
  bool anyPendingReceives() override { return real.anyPendingReceives(); }
  unsigned long reportSendBytes() const override {
    return real.reportSendBytes();
  }
  unsigned long reportSendMsgs() const override {
    return real.reportSendMsgs();
  }
  unsigned long reportRecvBytes() const override {
    return real.reportRecvBytes();
  }
  unsigned long reportRecvMsgs() const override {
    return real.reportRecvMsgs();
  }
  std::vector<unsigned long> reportExtra() const override {
    return real.reportExtra();
  }
  std::vector<std::pair<std::string, unsigned long>>
  reportExtraNamed() const override {
    return real.reportExtraNamed();
  }
};

NetworkInterface& verif_paced_network_interface() {
  static VerifPacedNetwork* paced =
      new VerifPacedNetwork(getSystemNetworkInterface());
  return *paced;
}
} // namespace runtime
} // namespace galois
#endif // E4_PACE_IMPL

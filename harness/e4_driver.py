#!/usr/bin/env python3
"""Driver of engine E4 ("mpix") check parts: C19 (CuSP partitioning) and C18
(Gluon synchronisation).  Invoked by /verif/check as a part of kind "py":

  e4_driver.py --prop C19|C18 --tier quick|thorough --out FILE --deadline SEC
  e4_driver.py --replay FILE

Technique: bounded-exhaustive enumeration of INPUTS x CONFIGURATIONS on the
real distributed code.  The driver
  * builds the distributed Galois libraries from /repo's working tree
    (vlib/distbuild.py, CMake+Ninja, cached by tree hash) and compiles the MPI
    harness with mpicxx (cached by content hash),
  * writes every input graph as a version-1 .gr file with its OWN encoder
    (format: top of libgalois/include/galois/graphs/FileGraph.h) plus the
    transposed file, under /verif/build/tmp/e4-<pid>/,
  * cuts the case list (graph x policy x ... ) into sessions, one
    `mpirun -np h` each, runs them in parallel (<= MAXRANKS ranks at a time),
    r times each because cross-host message arrival order is NOT controlled
    ("schedules: uncontrolled, r repetitions"),
  * attributes a crash / hang of a session to the case that was running
    (rank 0 writes a begin marker before every case), confirms it by re-running
    that case alone, and continues with the remaining cases,
  * aggregates the per-case results into the common check JSON, writes one
    replay file per violation key (smallest failing input) under
    /verif/replays, exit 0 / 1 (violations) / 2 (machinery failure).
"""
import argparse
import re
import hashlib
import itertools
import json
import os
import shutil
import signal
import subprocess
import sys
import time

HERE = os.path.dirname(os.path.abspath(__file__))
VERIF = os.path.dirname(HERE)
sys.path.insert(0, VERIF)
from vlib import build, distbuild  # noqa: E402

# ranks in flight.  With the timing shim (e4_pace.h) an idle rank sleeps instead
# of spinning (measured: ~0.2 core per rank), so 16 ranks cost about as much
# CPU as 3-4 busy threads.
MAXRANKS = int(os.environ.get("VERIF_E4_RANKS", "16"))
REPLAY_DIR = os.environ.get("VERIF_REPLAY_DIR",
                            os.path.join(VERIF, "replays"))
T0 = time.time()
RUNNERS = []


def log(*a):
    print(*a, flush=True)


# --------------------------------------------------------------------------
# graphs
# --------------------------------------------------------------------------
class G:
    """Directed multigraph: n nodes, ordered edge list; edge i carries the
    uint32 datum 1+i (distinct, so the multiset comparison sees every edge)."""

    def __init__(self, name, n, edges, weights=None):
        self.name, self.n, self.edges = name, n, list(edges)
        self.w = list(weights) if weights else [i + 1 for i in
                                                 range(len(self.edges))]

    def symmetrised(self):
        """Every non-loop edge also in the other direction (the reverse copy
        gets a fresh datum): a graph that equals its transpose as a structure
        -- the precondition of CuSP's symmetricGraph shortcut."""
        e = list(self.edges)
        for (s, d) in self.edges:
            if s != d:
                e.append((d, s))
        return G(self.name + "+sym", self.n, e)

    def key(self):
        return (self.n, tuple(self.edges))


def small_graphs(nmax, mmax):
    """EVERY directed multigraph (self-loops and parallel edges allowed, node
    ids significant -- no isomorphism reduction because the partitioner
    blocks nodes by id) with 1..nmax nodes and 0..mmax edges."""
    out = []
    for n in range(1, nmax + 1):
        pairs = [(s, d) for s in range(n) for d in range(n)]
        for m in range(0, mmax + 1):
            for es in itertools.combinations_with_replacement(pairs, m):
                out.append(G("n%dm%d_%s" % (n, m, "".join(
                    "%d%d" % e for e in es) or "empty"), n, es))
    return out


def structured_graphs():
    gs = []
    gs.append(G("path5", 5, [(i, i + 1) for i in range(4)]))
    gs.append(G("instar5", 5, [(i, 0) for i in range(1, 5)]))
    gs.append(G("outstar5", 5, [(0, i) for i in range(1, 5)]))
    gs.append(G("cycle4", 4, [(i, (i + 1) % 4) for i in range(4)]))
    gs.append(G("twocomp5", 5, [(0, 1), (1, 2), (3, 4), (4, 3)]))
    gs.append(G("clique4", 4, [(s, d) for s in range(4) for d in range(4)
                               if s != d]))
    gs.append(G("isolated5", 5, [(0, 1)]))
    gs.append(G("empty4", 4, []))
    gs.append(G("lastheavy6", 6, [(5, i) for i in range(5)] + [(0, 5)]))
    return gs


def fan_graph():
    """nodes 0..6 carry a self loop each, node 7 points at all of them: with
    two hosts the edge-balanced split is {0..6} | {7}, so host 1 mirrors
    seven nodes of host 0 -- the smallest shared list on which Gluon's
    automatic choice reaches bitsetData (> 4 of >= 6 entries updated)."""
    return G("fan8", 8, [(i, i) for i in range(7)] +
             [(7, i) for i in range(7)])


def tiny_for_many_hosts():
    """fewer nodes than hosts (used with h=3,4)"""
    return [G("one", 1, []), G("loop1", 1, [(0, 0)]), G("edge2", 2, [(0, 1)]),
            G("back2", 2, [(1, 0), (0, 1)]),
            G("path3", 3, [(0, 1), (1, 2)])]


def heavy_graph():
    """node 0 has 1002 out-edges (> the hybrid cuts' threshold of 1000), so
    GenericHVC / GingerP take their high-degree branch."""
    e = [(0, 1 + (i % 3)) for i in range(1002)] + [(1, 2), (3, 0), (2, 2)]
    return G("heavy4", 4, e)


def put_le(b, v, nbytes):
    for i in range(nbytes):
        b.append((v >> (8 * i)) & 0xff)


def encode_gr(n, edges, weights, with_data):
    """Version 1 .gr: header (version, sizeof edge data, numNodes, numEdges)
    as uint64 LE; outIdx[n] uint64 (END offset of each node's edges);
    outs[m] uint32; 4 bytes of padding if m is odd; edge data[m] uint32.
    Edges are grouped by source with a stable sort."""
    order = sorted(range(len(edges)), key=lambda i: edges[i][0])
    b = bytearray()
    put_le(b, 1, 8)
    put_le(b, 4 if with_data else 0, 8)
    put_le(b, n, 8)
    put_le(b, len(edges), 8)
    cnt = [0] * n
    for (s, _d) in edges:
        cnt[s] += 1
    acc = 0
    for u in range(n):
        acc += cnt[u]
        put_le(b, acc, 8)
    for i in order:
        put_le(b, edges[i][1], 4)
    if len(edges) % 2:
        put_le(b, 0, 4)
    if with_data:
        for i in order:
            put_le(b, weights[i], 4)
    return bytes(b)


class Files:
    """.gr files of a run, written once, shared by all sessions."""

    def __init__(self, root):
        self.root = root
        os.makedirs(root, exist_ok=True)
        self.seen = {}

    def get(self, g, with_data):
        k = (g.key(), tuple(g.w), with_data)
        if k in self.seen:
            return self.seen[k]
        idx = len(self.seen)
        base = os.path.join(self.root, "g%05d%s" % (idx, "w" if with_data
                                                     else "v"))
        with open(base + ".gr", "wb") as f:
            f.write(encode_gr(g.n, g.edges, g.w, with_data))
        with open(base + ".tgr", "wb") as f:
            f.write(encode_gr(g.n, [(d, s) for (s, d) in g.edges], g.w,
                              with_data))
        self.seen[k] = (base + ".gr", base + ".tgr")
        return self.seen[k]


# --------------------------------------------------------------------------
# configurations (exactly the calls lonestar/libdistbench Input.h makes)
# --------------------------------------------------------------------------
# name -> (class for CSR output, class for CSC output, input type)
POLICIES = {
    "oec": ("NoCommunication", "NoCommunication", "csr"),
    "iec": ("NoCommunication", "NoCommunication", "csc"),
    "hovc": ("GenericHVC", "GenericHVC", "csr"),
    "hivc": ("GenericHVC", "GenericHVC", "csc"),
    "cvc": ("GenericCVC", "GenericCVCColumnFlip", "csr"),
    "cvc-iec": ("GenericCVC", "GenericCVCColumnFlip", "csc"),
    "ginger-o": ("GingerP", "GingerP", "csr"),
    "ginger-i": ("GingerP", "GingerP", "csc"),
    "fennel-o": ("FennelP", "FennelP", "csr"),
    "fennel-i": ("FennelP", "FennelP", "csc"),
    "sugar-o": ("SugarP", "SugarColumnFlipP", "csr"),
}
SYM_CLASSES = {"oec": "NoCommunication", "hovc": "GenericHVC",
               "cvc": "GenericCVC", "ginger-o": "GingerP",
               "fennel-o": "FennelP", "sugar-o": "SugarP"}
CUSTOM_MASTER = ("GingerP", "FennelP", "SugarP", "SugarColumnFlipP")


def make_case(g, pol, out, sym, edata, read=1, casync=1, rounds=100, **opt):
    """One case dict.  pol: key of POLICIES; out: 'csr'|'csc'."""
    if sym:
        cls, inp, out = SYM_CLASSES[pol], "csr", "csr"
    else:
        cls = POLICIES[pol][0 if out == "csr" else 1]
        inp = POLICIES[pol][2]
    return dict(graph=g.name, n=g.n, edges=[list(e) for e in g.edges],
                w=list(g.w), polname=pol, policy=cls, **{"in": inp}, out=out,
                sym=int(sym), edata=edata, read=read, casync=casync,
                rounds=rounds, opt=dict(opt))


def case_line(cid, c, files):
    g = G(c["graph"], c["n"], [tuple(e) for e in c["edges"]], c["w"])
    gr, tgr = files.get(g, c["edata"] != "void")
    parts = ["case", str(cid), "n", str(c["n"]), "gr", gr, "tgr", tgr,
             "policy", c["policy"], "in", c["in"], "out", c["out"], "sym",
             str(c["sym"]), "edata", c["edata"], "read", str(c["read"]),
             "casync", str(c["casync"]), "rounds", str(c["rounds"])]
    for k, v in sorted(c.get("opt", {}).items()):
        parts += [k, str(v)]
    parts += ["edges", str(len(c["edges"]))]
    for (s, d), w in zip(c["edges"], c["w"]):
        parts += [str(s), str(d), str(w)]
    return " ".join(parts)


def case_name(c, hosts):
    return "%s h=%d %s(%s %s->%s%s) %s read%d%s" % (
        c["graph"], hosts, c["polname"], c["policy"], c["in"], c["out"],
        " sym" if c["sym"] else "", c["edata"], c["read"],
        "" if c["casync"] else " sync-assign")


def cell_name(prop, c, hosts, threads):
    return "%s h=%d t=%d %s%s->%s" % (
        prop, hosts, threads, c["polname"] + ("-sym" if c["sym"] else ""),
        "", c["out"])


# --------------------------------------------------------------------------
# sessions
# --------------------------------------------------------------------------
class Session:
    def __init__(self, sid, hosts, threads, cases, rep):
        self.sid, self.hosts, self.threads = sid, hosts, threads
        self.cases = cases  # list of (cid, case dict)
        self.rep = rep
        self.proc = None
        self.t_start = None
        self.last_progress = None
        self.seen_bytes = 0
        self.done_ids = set()
        self.cur = None  # case id in flight
        self.stage = None  # C18: case id whose partitioning stage is over
        self.finished = False


class Runner:
    def __init__(self, exe, workdir, files, stall_s):
        self.exe, self.workdir, self.files = exe, workdir, files
        self.stall_s = stall_s
        self.results = []  # (session, result dict)
        self.group_time = {}  # (hosts, threads) -> [session seconds, cases]
        self.symcache = {}    # crash addresses -> (where, backtrace text)
        self.nopace_hosts = ()  # host counts whose sessions run unpaced
        self.start_s = 150    # no first begin marker after that: launch failed
        self.max_starting = 3  # sessions inside MPI_Init at the same time
        self.exit_s = 25      # done marker seen, process still there
        self.exit_hangs = []  # stacks of sessions that would not exit
        self.kept = 0

    def shm_dir(self, s):
        return "/dev/shm/e4-%d-s%05d" % (os.getpid(), s.sid)

    def paths(self, s):
        b = os.path.join(self.workdir, "s%05d" % s.sid)
        return b + ".in", b + ".out", b + ".log"

    def start(self, s):
        fin, fout, flog = self.paths(s)
        with open(fin, "w") as f:
            for cid, c in s.cases:
                f.write(case_line(cid, c, self.files) + "\n")
        for p in (fout,):
            if os.path.exists(p):
                os.unlink(p)
        env = dict(os.environ)
        env["OMPI_MCA_rmaps_base_oversubscribe"] = "1"
        env["OMPI_MCA_mpi_yield_when_idle"] = "1"
        env["OMPI_MCA_btl"] = "self,vader"
        env["OMPI_MCA_btl_vader_single_copy_mechanism"] = "none"
        # a private session directory per mpirun: concurrent mpiruns that
        # share one orte_tmpdir_base trip over each other's session dirs
        # (ORTE_ERROR_LOG session_dir.c, MPI_Init_thread stuck for minutes)
        tmpd = fin[:-3] + ".tmp"
        os.makedirs(tmpd, exist_ok=True)
        env["OMPI_MCA_orte_tmpdir_base"] = tmpd
        env["TMPDIR"] = tmpd
        # shared-memory segments: a directory of this session's own INSIDE
        # /dev/shm (tmpfs; a disk-backed directory makes millions of tiny
        # messages crawl under I/O load), removed with the session, so a
        # session that had to be SIGKILLed leaks nothing
        shmd = self.shm_dir(s)
        os.makedirs(shmd, exist_ok=True)
        env["OMPI_MCA_btl_vader_backing_directory"] = shmd
        env["GALOIS_DO_NOT_BIND_THREADS"] = "1"
        if self.nopace_hosts and s.hosts in self.nopace_hosts:
            # C18 at 2 hosts: the napping shim (e4_pace.h) is switched off --
            # every stalled or crawling sync session seen in development was
            # a paced 2-host one; unpaced sessions never stalled
            env["VERIF_E4_NOPACE"] = "1"
        # --bind-to none: Open MPI's default binds every rank of an np<=2 job
        # to ONE core (np>2: to a socket).  A rank is a compute thread plus a
        # busy-polling network thread, and concurrent sessions all get cores
        # 0 and 1: 2-host sessions crawled (20-30 s per case instead of <1 s)
        cmd = ["mpirun", "--allow-run-as-root", "--oversubscribe",
               "--bind-to", "none", "-np",
               str(s.hosts), self.exe, fin, fout, str(s.threads)]
        s.logf = open(flog, "wb")
        # no stdin for mpirun (it forwards stdin to rank 0: a terminal there
        # would stop it with SIGTTIN); the ranks write their own log files
        s.proc = subprocess.Popen(cmd, stdin=subprocess.DEVNULL,
                                  stdout=s.logf, stderr=subprocess.STDOUT,
                                  env=env, cwd=self.workdir,
                                  start_new_session=True)
        s.t_start = s.last_progress = time.time()

    def poll_output(self, s):
        """Read new complete lines of the result file."""
        _fin, fout, _flog = self.paths(s)
        new = []
        try:
            with open(fout, "rb") as f:
                f.seek(s.seen_bytes)
                data = f.read()
        except OSError:
            return new
        if not data:
            return new
        end = data.rfind(b"\n")
        if end < 0:
            return new
        s.seen_bytes += end + 1
        for line in data[:end].split(b"\n"):
            if not line.strip():
                continue
            try:
                d = json.loads(line.decode("utf-8", "replace"))
            except ValueError:
                continue
            new.append(d)
            s.last_progress = time.time()
            if "begin" in d:
                s.cur = d["begin"]
            elif "stage" in d:
                s.stage = d["stage"]
            elif "id" in d:
                s.done_ids.add(d["id"])
                if s.cur == d["id"]:
                    s.cur = None
            elif d.get("done"):
                s.finished = True
        return new

    def rank_pids(self, s=None):
        """Harness processes of one session (argv[1] is its session file) or,
        with s=None, of this whole driver run (argv[1] inside the work dir).
        Open MPI starts every rank in a process group of its own, so killing
        mpirun's group does NOT reach them."""
        fin = self.paths(s)[0].encode() if s is not None else None
        pref = (self.workdir.rstrip("/") + "/").encode()
        pids = []
        for d in os.listdir("/proc"):
            if not d.isdigit():
                continue
            try:
                cl = open("/proc/%s/cmdline" % d, "rb").read().split(b"\0")
            except OSError:
                continue
            if len(cl) < 2 or os.path.basename(cl[0]) != \
                    os.path.basename(self.exe).encode():
                continue
            if (fin is not None and cl[1] == fin) or \
                    (fin is None and cl[1].startswith(pref)):
                pids.append(int(d))
        return pids

    @staticmethod
    def _kill_pids(pids):
        for pid in pids:
            for sig in (signal.SIGCONT, signal.SIGKILL):
                try:
                    os.kill(pid, sig)
                except OSError:
                    pass

    def kill(self, s):
        """End a session for good: ask mpirun to terminate its job (it then
        removes its session directory and shared memory), then SIGKILL
        whatever is left -- mpirun's group and every rank of the session."""
        ranks = self.rank_pids(s)
        if s.proc and s.proc.poll() is None:
            try:
                s.proc.terminate()
                s.proc.wait(timeout=4)
            except Exception:
                pass
            try:
                os.killpg(s.proc.pid, signal.SIGKILL)
            except OSError:
                pass
            try:
                s.proc.wait(timeout=10)
            except Exception:
                pass
        self._kill_pids(set(ranks) | set(self.rank_pids(s)))
        try:
            s.logf.close()
        except Exception:
            pass

    def kill_all(self):
        """Last sweep when the driver leaves: nothing of this run survives."""
        self._kill_pids(self.rank_pids(None))
        import glob
        for d in glob.glob("/dev/shm/e4-%d-s*" % os.getpid()):
            shutil.rmtree(d, ignore_errors=True)

    def rank_logs(self, s):
        fout = self.paths(s)[1]
        d, b = os.path.dirname(fout), os.path.basename(fout) + "."
        try:
            return sorted(os.path.join(d, f) for f in os.listdir(d)
                          if f.startswith(b) and f.endswith(".log"))
        except OSError:
            return []

    def all_log_text(self, s, nbytes=300000):
        """mpirun's own output followed by the tail of every rank's log."""
        t = ""
        for p in [self.paths(s)[2]] + self.rank_logs(s):
            try:
                with open(p, "rb") as f:
                    f.seek(0, 2)
                    sz = f.tell()
                    f.seek(max(0, sz - nbytes))
                    t += f.read().decode("utf-8", "replace") + "\n"
            except OSError:
                pass
        return t

    def diagnose(self, s, nbytes=300000):
        """Diagnosis of an abnormal session end from its log -> dict(kind,
        where, text): GALOIS_DIE / exception text, the signal, and the first
        frames of Open MPI's backtrace that lie in the checked components
        (addr2line -i on the harness binary).  `where` is the innermost such
        function, e.g. 'GingerP::getMaster'."""
        t = self.all_log_text(s, nbytes)
        out = []
        for l in t.splitlines():
            if ("ERROR" in l or "what()" in l or "terminate called" in l or
                    "Assertion" in l) and l.strip() not in out:
                out.append(l.strip()[:300])
        sig = ""
        m = re.search(r"Signal: ([A-Za-z ]+)\((\d+)\)", t)
        if m:
            sig = m.group(2)
            out.append("signal %s(%s)" % (m.group(1), sig))
        else:
            m = re.search(r"exited on signal (\d+) \(([^)]*)\)", t)
            if m:
                sig = m.group(1)
                out.append("signal %s (%s)" % (m.group(2), sig))
        kind = {"6": "crash-abort", "11": "crash-segv", "8": "crash-fpe",
                "7": "crash-bus"}.get(sig, "crash")
        where = ""
        blk = t.split("*** End of error message ***")[0]
        addrs = re.findall(re.escape(os.path.basename(self.exe)) +
                           r"\(\+(0x[0-9a-f]+)\)", blk)
        ck = tuple(addrs[:14])
        if addrs and ck in self.symcache:
            where, bt = self.symcache[ck]
            if bt:
                out.append(bt)
        elif addrs:
            try:
                r = subprocess.run(["addr2line", "-f", "-C", "-i", "-e",
                                    self.exe] + addrs[:14],
                                   stdout=subprocess.PIPE, text=True,
                                   timeout=120)
                ls = r.stdout.splitlines()
                fr = []
                for i in range(0, len(ls) - 1, 2):
                    fn, loc = ls[i], ls[i + 1]
                    mm = COMPONENT_RE.search(loc)
                    if not mm:
                        continue
                    short = short_fn(fn)
                    fr.append("%s at %s" % (short, loc[mm.start() + 1:]))
                    if not where:
                        where = short
                    if len(fr) >= 3:
                        break
                if fr:
                    out.append("backtrace: " + " <- ".join(fr))
                self.symcache[ck] = (where, "backtrace: " + " <- ".join(fr)
                                     if fr else "")
            except Exception:
                pass
        if not out:
            keep = [l for l in t.splitlines() if l.strip() and
                    not l.startswith("[") and "STAT" not in l and
                    not l.startswith("---")]
            out = keep[-4:]
        return dict(kind=kind, where=where, text=" | ".join(out)[-1500:])

    def rank_positions(self, s):
        """Last position line every rank wrote to the session log."""
        last = {}
        for l in self.all_log_text(s).splitlines():
            m = re.match(r"E4-RANK (\d+): (.*)", l)
            if m:
                last[int(m.group(1))] = m.group(2).strip()
        return "; ".join("rank %d %s" % kv for kv in sorted(last.items()))

    def stacks(self, s):
        """Stalled session: stacks of all its ranks via gdb, reduced to the
        frames inside the checked components.  -> (where, text)"""
        pids = self.rank_pids(s)
        where, parts = "", []
        # BEFORE any debugger touches them: kernel state and wait channel of
        # every thread (T = stopped, S+futex_wait = blocked, R = running ...)
        for pid in sorted(pids)[:4]:
            th = []
            try:
                for tid in sorted(os.listdir("/proc/%d/task" % pid), key=int):
                    try:
                        st = open("/proc/%d/task/%s/stat" % (pid, tid)).read()
                        state = st[st.rindex(")") + 2]
                        wch = open("/proc/%d/task/%s/wchan" % (pid, tid)
                                   ).read().strip() or "-"
                        th.append("%s:%s:%s" % (tid, state, wch))
                    except (OSError, ValueError):
                        pass
            except OSError:
                pass
            # only the interesting ones: first two threads (compute, network)
            # and anything that is neither sleeping in a worker wait nor idle
            parts.append("pid %d threads[tid:state:wchan] %s (+%d more)" % (
                pid, " ".join(th[:3]), max(0, len(th) - 3)))
        try:
            mp = s.proc.pid
            st = open("/proc/%d/stat" % mp).read()
            parts.append("mpirun %d state %s wchan %s" % (
                mp, st[st.rindex(")") + 2],
                open("/proc/%d/wchan" % mp).read().strip() or "-"))
        except (OSError, ValueError):
            pass
        for pid in sorted(pids)[:4]:
            try:
                r = subprocess.run(
                    ["gdb", "-p", str(pid), "-batch", "-ex",
                     "thread apply all bt 14"], stdout=subprocess.PIPE,
                    stderr=subprocess.DEVNULL, text=True, timeout=40)
            except Exception:
                # gdb was killed by the timeout: its tracee may be left in a
                # ptrace stop -- wake it (the session is killed right after)
                try:
                    os.kill(pid, signal.SIGCONT)
                except OSError:
                    pass
                continue
            cur, frames, raw = None, {}, {}
            for l in r.stdout.splitlines():
                m = re.match(r"Thread (\d+) ", l)
                if m:
                    cur = int(m.group(1))
                    frames[cur] = []
                    raw[cur] = []
                    continue
                # unfiltered: function (and file) of every frame, so that a
                # thread spinning in libmpi / the Galois runtime / the harness
                # is visible too
                mr = re.match(r"#\d+\s+(?:0x[0-9a-f]+ in )?(\S.*?) \(", l)
                if mr and cur is not None and len(raw[cur]) < 9:
                    fl = re.search(r" at (\S+)$| from (\S+)$", l)
                    loc = (fl.group(1) or fl.group(2)) if fl else ""
                    raw[cur].append("%s@%s" % (short_fn(mr.group(1)),
                                               os.path.basename(loc)))
                m = re.match(r"#\d+\s+(?:0x[0-9a-f]+ in )?(.*?) \(.*\) at "
                             r"(/\S+)", l)
                mm = COMPONENT_RE.search(m.group(2)) if m else None
                if mm and cur is not None:
                    frames[cur].append("%s at %s" % (
                        short_fn(m.group(1)), m.group(2)[mm.start() + 1:]))
            if 1 in raw and raw[1]:
                parts.append("pid %d compute thread, all frames: %s" % (
                    pid, " <- ".join(raw[1])))
            for th in sorted(frames):
                if frames[th]:
                    parts.append("pid %d thread %d: %s" % (
                        pid, th, " <- ".join(frames[th][:3])))
                    # thread 1 is the compute thread
                    if th == 1 and not where:
                        where = frames[th][0].split(" at ")[0]
        return where, " || ".join(parts)[:4000]

    def keep_files(self, s):
        """Debugging: preserve the raw files of the first abnormal sessions."""
        if self.kept >= 12:
            return
        self.kept += 1
        d = os.path.join(build.TMP, "e4-keep")
        os.makedirs(d, exist_ok=True)
        for p in list(self.paths(s)) + self.rank_logs(s):
            try:
                shutil.copy(p, os.path.join(d, "%d-%s" % (
                    os.getpid(), os.path.basename(p))))
            except OSError:
                pass

    def cleanup(self, s):
        self._kill_pids(self.rank_pids(s))
        for p in list(self.paths(s)) + self.rank_logs(s):
            try:
                os.unlink(p)
            except OSError:
                pass
        shutil.rmtree(self.paths(s)[0][:-3] + ".tmp", ignore_errors=True)
        shutil.rmtree(self.shm_dir(s), ignore_errors=True)


# source files of the components these checks are about (the working tree may
# live elsewhere than /repo: VERIF_REPO)
COMPONENT_RE = re.compile(r"/(libcusp|libgluon|libdist|"
                          r"libgalois/include/galois/graphs)/")


def short_fn(fn):
    """'unsigned int GingerP::getMaster<void>(unsigned int, ...)' ->
    'GingerP::getMaster'; template arguments and parameters dropped."""
    depth, o = 0, []
    for ch in fn:
        if ch == "<":
            depth += 1
        elif ch == ">":
            depth -= 1
        elif depth == 0:
            o.append(ch)
    f = "".join(o)
    f = f.split("(")[0].strip()
    f = f.split(" ")[-1]
    f = f.replace("galois::graphs::", "").replace("galois::runtime::", "")
    return f[:70]


def run_sessions(runner, sessions, deadline_at, on_result, on_end,
                 progress_every=20.0):
    """Run sessions with at most MAXRANKS ranks in flight.  on_result(s, d) for
    every finished case; on_end(s, ok, diag) -> list of sessions to run next
    (confirmation runs, the remaining cases of a crashed session, ...);
    diag = dict(kind, where, text) when the session crashed or stalled."""
    pending = list(sessions)
    running = []
    last_print = time.time()
    ncases_done = [0]

    def drain(s):
        for d in runner.poll_output(s):
            if "id" in d:
                on_result(s, d)
                ncases_done[0] += 1

    def account(s):
        gt = runner.group_time.setdefault((s.hosts, s.threads), [0.0, 0])
        gt[0] += time.time() - s.t_start
        gt[1] += len(s.done_ids)

    while pending or running:
        if time.time() >= deadline_at:
            for s in running:
                drain(s)
                runner.kill(s)
                account(s)
                runner.cleanup(s)
            log("# deadline reached: %d sessions unfinished, %d not started" %
                (len(running), len(pending)))
            return False
        used = sum(s.hosts for s in running)
        # mpirun/MPI_Init of many sessions at once stalls for minutes on a
        # loaded machine: stagger the launches
        while pending and used + pending[0].hosts <= max(
                MAXRANKS, pending[0].hosts) and sum(
                1 for x in running if not x.seen_bytes) < runner.max_starting:
            s = pending.pop(0)
            runner.start(s)
            running.append(s)
            used += s.hosts
        time.sleep(0.03)
        for s in list(running):
            drain(s)
            rc = s.proc.poll()
            if rc is not None:
                drain(s)
                running.remove(s)
                try:
                    s.logf.close()
                except Exception:
                    pass
                account(s)
                if s.finished and rc == 0:
                    pending = on_end(s, True, None) + pending
                else:
                    diag = runner.diagnose(s)
                    diag["text"] = "mpirun exit %s; %s" % (rc, diag["text"])
                    pending = on_end(s, False, diag) + pending
                runner.cleanup(s)
            elif s.finished and time.time() - s.last_progress > \
                    runner.exit_s:
                # every case is done and reported, but the ranks do not
                # leave (Galois' distributed teardown): not a verdict of any
                # case -- record where they sit, end the session, go on
                if len(runner.exit_hangs) < 3:
                    _w, st = runner.stacks(s)
                    runner.exit_hangs.append(
                        (runner.rank_positions(s) + " || " + st)[:3000])
                else:
                    runner.exit_hangs.append("")
                runner.kill(s)
                running.remove(s)
                account(s)
                pending = on_end(s, True, None) + pending
                runner.cleanup(s)
            elif time.time() - s.last_progress > (
                    # a hang only counts when it reproduces alone, and alone
                    # it gets three times the limit (a loaded machine must not
                    # turn a slow case into an alarm)
                    runner.stall_s * (3 if getattr(s, "confirm", None)
                                      is not None else 1)
                    if s.seen_bytes else runner.start_s):
                stalled = time.time() - s.last_progress
                diag = runner.diagnose(s)
                diag["kind"] = "hang"
                # (no gdb for a launch that never got going: nothing to see)
                w, st = runner.stacks(s) if s.seen_bytes else ("", "")
                st = (runner.rank_positions(s) + " || " + st).strip(" |")
                diag["where"] = w
                diag["text"] = "no progress for %.0fs (killed); stacks: %s" % (
                    stalled, st or diag["text"])
                runner.kill(s)
                running.remove(s)
                account(s)
                runner.keep_files(s)
                pending = on_end(s, False, diag) + pending
                runner.cleanup(s)
        if time.time() - last_print > progress_every:
            last_print = time.time()
            log("# t=%.0fs: %d case runs done, %d sessions running, %d "
                "pending" % (time.time() - T0, ncases_done[0], len(running),
                             len(pending)))
    return True


# --------------------------------------------------------------------------
# case lists per property and tier
# --------------------------------------------------------------------------
def pick(lst, names):
    d = {g.name: g for g in lst}
    return [d[n] for n in names]


def c19_plan(tier):
    """-> list of (hosts, threads, case).  Everything listed is run; the tier
    decides how much of the cross product is listed."""
    plan = []
    small2 = small_graphs(3, 2)       # 73 graphs
    struct = structured_graphs() + [fan_graph()]
    tiny = tiny_for_many_hosts()
    pols = list(POLICIES)
    add = plan.append
    if tier == "quick":
        # h=2: EVERY graph with n<=3, m<=3 x EVERY policy (CSR build)
        for g in small_graphs(3, 3):
            for pol in pols:
                add((2, 1, make_case(g, pol, "csr", 0, "void")))
        # h=3: every such graph x every policy
        for g in small2:
            for pol in pols:
                add((3, 1, make_case(g, pol, "csr", 0, "void")))
        # CSC (transposed) builds: every graph x every policy
        for g in small2:
            for pol in pols:
                add((2, 1, make_case(g, pol, "csc", 0, "void")))
        # structured graphs, uint32 edge data (three of them with 2 threads
        # per host)
        for h in (2, 3):
            for g in struct:
                t = 2 if (h == 2 and g.name in ("fan8", "clique4", "path5")) \
                    else 1
                for pol in pols:
                    add((h, t, make_case(g, pol, "csr", 0, "u32")))
                for pol in ("oec", "hivc", "cvc", "sugar-o"):
                    add((h, 1, make_case(g, pol, "csc", 0, "u32")))
        # symmetric-graph shortcut, read balancing, synchronous assignment
        for g in struct:
            sg = g.symmetrised()
            for pol in SYM_CLASSES:
                add((2, 1, make_case(sg, pol, "csr", 1, "u32")))
            for pol in ("oec", "cvc", "ginger-o"):
                for read in (0, 2):
                    add((2, 1, make_case(g, pol, "csr", 0, "u32", read=read)))
            for pol in ("ginger-o", "fennel-i", "sugar-o"):
                add((3, 1, make_case(g, pol, "csr", 0, "u32", casync=0)))
        # 4 hosts (2x2 cartesian grid; fewer nodes than hosts) and 1 host
        for g in struct + tiny:
            ed = "void" if g in tiny else "u32"
            for pol in pols:
                add((4, 1, make_case(g, pol, "csr", 0, ed)))
            for pol in ("oec", "iec", "hovc", "cvc", "ginger-o", "sugar-o"):
                add((1, 1, make_case(g, pol, "csr", 0, "u32")))
            for pol in ("cvc", "sugar-o", "hivc"):
                add((4, 1, make_case(g, pol, "csc", 0, "void")))
        # > 1000 out-edges: the hybrid cuts' high-degree branch
        for pol in ("hovc", "hivc", "ginger-o", "ginger-i"):
            for h in (2, 3):
                add((h, 1, make_case(heavy_graph(), pol, "csr", 0, "u32")))
    else:
        small3 = small_graphs(3, 3)   # 259 graphs
        # every graph n<=3, m<=3 x every policy, CSR, h in {2,3}
        for h in (2, 3):
            for g in small3:
                for pol in pols:
                    add((h, 1, make_case(g, pol, "csr", 0, "void")))
        # every graph with n<=3 and exactly 4 edges (495 more), and every
        # graph with exactly 4 nodes and m<=2 (153; four hosts get one node
        # each): every policy, CSR
        for g in small_graphs(3, 4):
            if len(g.edges) == 4:
                for pol in pols:
                    add((2, 1, make_case(g, pol, "csr", 0, "void")))
        for g in small_graphs(4, 2):
            if g.n == 4:
                for pol in pols:
                    for h in (2, 3, 4):
                        add((h, 1, make_case(g, pol, "csr", 0, "void")))
        # every graph n<=3, m<=2: CSC builds, uint32 data, 1 host
        for g in small2:
            for pol in pols:
                for h in (2, 3):
                    add((h, 1, make_case(g, pol, "csc", 0, "void")))
                add((2, 2, make_case(g, pol, "csr", 0, "u32")))
                add((3, 2, make_case(g, pol, "csc", 0, "u32")))
                add((1, 1, make_case(g, pol, "csr", 0, "void")))
        # structured graphs: full cross product of the options
        big = struct + tiny + [heavy_graph()]
        for h in (1, 2, 3, 4):
            for g in big:
                for pol in pols:
                    for out in ("csr", "csc"):
                        for ed in ("void", "u32"):
                            add((h, 1, make_case(g, pol, out, 0, ed)))
                        for read in (0, 2):
                            add((h, 1, make_case(g, pol, out, 0, "u32",
                                                 read=read)))
                        if POLICIES[pol][0] in CUSTOM_MASTER:
                            add((h, 1, make_case(g, pol, out, 0, "u32",
                                                 casync=0)))
                            add((h, 2, make_case(g, pol, out, 0, "u32",
                                                 rounds=1)))
                sg = g.symmetrised()
                for pol in SYM_CLASSES:
                    for ed in ("void", "u32"):
                        add((h, 1, make_case(sg, pol, "csr", 1, ed)))
        # symmetric copies of the small graphs
        seen = set()
        for g in small2:
            sg = g.symmetrised()
            if sg.key() in seen:
                continue
            seen.add(sg.key())
            for pol in SYM_CLASSES:
                for h in (2, 3):
                    add((h, 1, make_case(sg, pol, "csr", 1, "u32")))
    return plan


C18_MODES_ALL = "auto,bitset,offsets,gids,only"


def c18_plan(tier):
    """Every case = one partitioned graph on which the harness runs the whole
    sync cross product (modes x reductions x write x read x bitset x
    subsets)."""
    plan = []
    small2 = small_graphs(3, 2)
    struct = structured_graphs() + [fan_graph()]
    tiny = tiny_for_many_hosts()
    pols = list(POLICIES)
    add = plan.append

    def mk(g, pol, out, sym=0, capbits=7, forced="all"):
        # paced sessions (e4_pace.h) stay away from the asynchronous master
        # assignment: Ginger/Fennel/Sugar are partitioned with cuspAsync=false
        # here (C19 covers cuspAsync=true, unpaced)
        cls = SYM_CLASSES[pol] if sym else POLICIES[pol][0]
        return make_case(g, pol, out, sym, "void",
                         casync=0 if cls in CUSTOM_MASTER else 1,
                         capbits=capbits, modes=C18_MODES_ALL, forced=forced)
    if tier == "quick":
        # 9 small graphs chosen to cover: an edge between the hosts' blocks in
        # either direction, self loop, parallel edges, isolated node, two
        # edges into / out of one node, a 2-cycle across hosts
        names = ["n2m1_01", "n2m2_0110", "n3m1_02", "n3m2_0112", "n3m2_0121",
                 "n3m2_1020", "n3m2_0202", "n3m2_0022", "n3m2_1221"]
        gs = pick(small2, names)
        for i, g in enumerate(gs):
            # 2 hosts run unpaced (slower): every graph x 3 policies, the
            # policy triple rotating through all ten configurations
            cfg = [("oec", "csr"), ("iec", "csr"), ("hovc", "csr"),
                   ("cvc", "csr"), ("ginger-o", "csr"), ("fennel-o", "csr"),
                   ("sugar-o", "csr"), ("oec", "csc"), ("hivc", "csc"),
                   ("cvc-iec", "csc")]
            for pol, out in cfg:
                add((2, 1, mk(g, pol, out, capbits=6, forced="diag")))
            for pol in ("oec", "iec", "hovc", "cvc", "ginger-o", "fennel-o",
                        "sugar-o"):
                add((3, 1, mk(g, pol, "csr", capbits=6, forced="diag")))
        for h in (2, 3, 4):
            for g in pick(struct, ["path5", "instar5", "cycle4"]):
                for pol, out in (("oec", "csr"), ("iec", "csr"),
                                 ("cvc", "csr"), ("cvc", "csc"),
                                 ("hovc", "csr"), ("ginger-i", "csr")):
                    if h == 3 and pol in ("hovc", "ginger-i"):
                        continue
                    t = 2 if (h == 2 and g.name == "cycle4" and
                              pol == "oec") else 1
                    add((h, t, mk(g, pol, out, capbits=5, forced="diag")))
        # all encodings on all location pairs, bitsetData chosen automatically
        add((2, 1, mk(fan_graph(), "oec", "csr", capbits=4)))
        add((2, 1, mk(fan_graph(), "iec", "csr", capbits=4)))
        for g in pick(struct, ["path5", "cycle4"]):
            add((1, 1, mk(g, "oec", "csr", capbits=5)))
            sg = g.symmetrised()
            for pol in ("oec", "cvc", "hovc"):
                add((2, 1, mk(sg, pol, "csr", sym=1, capbits=5)))
    else:
        # every graph n<=3, m<=2 x every policy x CSR/CSC x h in {2,3}
        for h in (2, 3):
            for g in small2:
                for pol in pols:
                    for out in ("csr", "csc"):
                        add((h, 1, mk(g, pol, out, capbits=8, forced="diag")))
        for h in (1, 2, 3, 4):
            for g in struct + tiny:
                for pol in pols:
                    for out in ("csr", "csc"):
                        t = 2 if (h == 2 and g.name in ("cycle4", "edge2")
                                  and out == "csr") else 1
                        add((h, t, mk(g, pol, out, capbits=6)))
                sg = g.symmetrised()
                for pol in SYM_CLASSES:
                    add((h, 1, mk(sg, pol, "csr", sym=1, capbits=6)))
    return plan


# --------------------------------------------------------------------------
# main check
# --------------------------------------------------------------------------
def size_key(c, hosts):
    return (len(c["edges"]), c["n"], hosts, c["read"] != 1, 1 - c["casync"],
            c["sym"], c["edata"] != "void", c["polname"], c["out"])


def replay_path(prop, key):
    return os.path.join(REPLAY_DIR, "%s-%s.json" % (
        prop, hashlib.sha256(key.encode()).hexdigest()[:16]))


def harness_of(prop):
    return "c19_partition" if prop == "C19" else "c18_gluon"


def build_harness(prop):
    t = time.time()
    flags = ["-fno-access-control"]
    ov = os.environ.get("VERIF_E4_OVERLAY")
    if ov:
        # debugging aid: a directory that is searched BEFORE /repo's include
        # dirs, to try a candidate fix of a header-only component without
        # touching /repo (never set by ./check)
        flags.append("-I" + ov)
        hh = hashlib.sha256()
        for root, _dn, fn in sorted(os.walk(ov)):
            for f in sorted(fn):
                hh.update(open(os.path.join(root, f), "rb").read())
        flags.append("-DVERIF_OVERLAY_HASH=0x" + hh.hexdigest()[:8])
        log("# WARNING: header overlay %s in effect (not the shipped code)"
            % ov)
    exe, res = distbuild.build_dist_harness(harness_of(prop), tuple(flags))
    log("# build: dist libraries %s (%s), harness %s, %.1fs" % (
        res["dir"], "cold build %.1fs" % res["cold_build_s"] if res["cold"]
        else "cached; cold build took %.1fs" % res["cold_build_s"],
        os.path.basename(exe), time.time() - t))
    return exe


def make_overlay(diff):
    """Scratch include directory holding the patched copies of the headers a
    mutant touches (only files under some <lib>/include/ can be overlaid)."""
    root = os.path.join(build.TMP, "e4-mutant-%d" % os.getpid())
    shutil.rmtree(root, ignore_errors=True)
    src, ov = os.path.join(root, "src"), os.path.join(root, "include")
    os.makedirs(src)
    os.makedirs(ov)
    files = re.findall(r"^\+\+\+ b/(\S+)", open(diff).read(), re.M)
    for f in files:
        if "/include/" not in f:
            raise SystemExit("mutant touches %s: not a header under "
                             "<lib>/include/, use tools/try_seed.sh" % f)
        os.makedirs(os.path.dirname(os.path.join(src, f)), exist_ok=True)
        shutil.copy(os.path.join(build.REPO, f), os.path.join(src, f))
    r = subprocess.run(["patch", "-p1", "-s", "-d", src, "-i",
                        os.path.abspath(diff)])
    if r.returncode != 0:
        raise SystemExit("mutant does not apply")
    for f in files:
        rel = f.split("/include/", 1)[1]
        os.makedirs(os.path.dirname(os.path.join(ov, rel)), exist_ok=True)
        txt = open(os.path.join(src, f)).read()
        # sibling includes ("BasePolicies.h") must keep resolving
        d = os.path.dirname(rel)
        orig_dir = os.path.dirname(os.path.join(build.REPO, f))

        def fix(m):
            name = m.group(1)
            if "/" not in name and os.path.exists(os.path.join(orig_dir,
                                                               name)):
                return '#include "%s/%s"' % (d, name)
            return m.group(0)
        txt = re.sub(r'#include "([^"]+)"', fix, txt)
        open(os.path.join(ov, rel), "w").write(txt)
    log("# mutant %s: patched copies of %s in %s" % (
        os.path.basename(diff), ", ".join(files), ov))
    return ov


def chunk_sessions(plan, reps, per_session, sid0=0):
    """Group (hosts, threads, case) by (hosts, threads); chunks of
    per_session cases; every chunk `reps` times."""
    groups = {}
    cid = 0
    for hosts, threads, c in plan:
        groups.setdefault((hosts, threads), []).append((cid, c))
        cid += 1
    sessions = []
    sid = sid0
    for rep in range(reps):
        for (hosts, threads), lst in sorted(groups.items()):
            k = per_session(hosts, threads) if callable(per_session) \
                else per_session
            for i in range(0, len(lst), k):
                sessions.append(Session(sid, hosts, threads, lst[i:i + k],
                                        rep))
                sid += 1
    # interleave: big-host sessions first inside each repetition keeps the
    # rank budget full
    return sessions


def main():
    ap = argparse.ArgumentParser()
    ap.add_argument("--prop", default="C19")
    ap.add_argument("--tier", default="quick")
    ap.add_argument("--out", default="")
    ap.add_argument("--deadline", type=float, default=240)
    ap.add_argument("--replay", default="")
    ap.add_argument("--reps", type=int, default=0)
    ap.add_argument("--limit", type=int, default=0,
                    help="debug: only the first N cases of the plan")
    ap.add_argument("--grep", default="", help="debug: case name substring")
    ap.add_argument("--keep", action="store_true")
    ap.add_argument("--only-pols", default="",
                    help="debug: comma separated policy names")
    ap.add_argument("--only-hosts", default="",
                    help="debug: comma separated host counts")
    ap.add_argument("--min-edges", type=int, default=0, help="debug")
    ap.add_argument("--mutant", default="",
                    help="demonstrate detection: apply this unified diff "
                         "(paths relative to the repo root, header-only "
                         "components) to a scratch copy that is searched "
                         "before the tree's include dirs; /repo is not "
                         "touched.  Exit 1 (finding) is the expected outcome")
    a = ap.parse_args()
    if a.replay:
        return replay(a.replay)
    if a.mutant:
        os.environ["VERIF_E4_OVERLAY"] = make_overlay(a.mutant)
    prop, tier = a.prop, a.tier
    deadline_at = T0 + a.deadline
    exe = build_harness(prop)
    workdir = os.path.join(build.TMP, "e4-%s-%d" % (prop, os.getpid()))
    if os.path.exists(workdir):
        shutil.rmtree(workdir)
    os.makedirs(workdir)
    try:
        return run_check(a, prop, tier, exe, workdir, deadline_at)
    finally:
        for r in RUNNERS:
            r.kill_all()
        if not a.keep:
            shutil.rmtree(workdir, ignore_errors=True)


def run_check(a, prop, tier, exe, workdir, deadline_at):
    files = Files(os.path.join(workdir, "graphs"))
    plan = c19_plan(tier) if prop == "C19" else c18_plan(tier)
    if a.grep:
        plan = [p for p in plan if a.grep in case_name(p[2], p[0])]
    if a.only_pols:
        keep = set(a.only_pols.split(","))
        plan = [p for p in plan if p[2]["polname"] in keep]
    if a.only_hosts:
        keep = set(int(x) for x in a.only_hosts.split(","))
        plan = [p for p in plan if p[0] in keep]
    if a.min_edges:
        plan = [p for p in plan if len(p[2]["edges"]) >= a.min_edges]
    if a.limit:
        plan = plan[:a.limit]
    reps = a.reps or (3 if (tier != "quick" and prop == "C19") else 2)
    if prop == "C19":
        per = lambda h, t: 64  # noqa: E731
        stall = 60
    else:
        per = lambda h, t: 8  # noqa: E731
        stall = 120
    global MAXRANKS
    if prop == "C18" and "VERIF_E4_RANKS" not in os.environ and \
            os.environ.get("VERIF_E4_PACE"):
        # paced ranks wake up ~50k times a second per thread: beyond ~8 ranks
        # the timer traffic itself becomes the bottleneck (measured)
        MAXRANKS = 8
    sessions = chunk_sessions(plan, reps, per)
    # round-robin the groups so sessions of different host counts mix
    sessions.sort(key=lambda s: (s.rep, s.sid % 7, -s.hosts))
    by_cid = {}
    cid = 0
    for hosts, threads, c in plan:
        by_cid[cid] = (hosts, threads, c)
        cid += 1
    log("# %s %s: %d cases x %d repetitions in %d mpirun sessions "
        "(<= %d ranks at a time), deadline %.0fs" %
        (prop, tier, len(plan), reps, len(sessions), MAXRANKS, a.deadline))
    runner = Runner(exe, workdir, files, stall)
    if prop == "C18":
        # the idle-poll pacing shim (e4_pace.h) is off everywhere since the
        # real cause of the crawling sessions was found (mpirun's default core
        # binding, see Runner.start); VERIF_E4_PACE=1 brings it back
        runner.nopace_hosts = () if os.environ.get("VERIF_E4_PACE") else \
            (1, 2, 3, 4)
    RUNNERS.append(runner)

    cells = {}      # cell name -> stats
    failures = {}   # key -> list of (size_key, cid, hosts, threads, msg, at)
    done_runs = {}  # cid -> number of completed runs
    sigs = {}       # cid -> set of outcome signatures
    enc_total = {}
    unconfirmed = []
    crash_runs = {}  # cid -> runs that ended in a crash / hang
    launch_failures = [0]
    partition_failures = {}  # C18 only: C19 key -> cids
    next_sid = [len(sessions) + 1000]

    def cell_of(cid):
        hosts, threads, c = by_cid[cid]
        nm = cell_name(prop, c, hosts, threads)
        if nm not in cells:
            cells[nm] = dict(name=nm, executions=0, inputs=set(),
                             transitions=0, nontrivial=set(), outcomes=set(),
                             samples=[], viol={}, planned=set(), wall=0.0,
                             encodings={}, syncs=0, states=0)
        return cells[nm]

    for cid in by_cid:
        cell_of(cid)["planned"].add(cid)

    def note_failure(cid, key, msg, at=None):
        hosts, threads, c = by_cid[cid]
        failures.setdefault(key, []).append(
            (size_key(c, hosts), cid, hosts, threads, msg, at))

    def on_result(s, d):
        cid = d["id"]
        hosts, threads, c = by_cid[cid]
        cell = cell_of(cid)
        st = d.get("stats", {})
        cell["executions"] += 1
        done_runs[cid] = done_runs.get(cid, 0) + 1
        cell["inputs"].add(cid)
        if prop == "C19":
            cell["transitions"] += hosts
            if st.get("mirrors", 0) > 0:
                cell["nontrivial"].add(cid)
            cell["outcomes"].add(st.get("sig"))
            sigs.setdefault(cid, set()).add(st.get("sig"))
        else:
            cell["transitions"] += st.get("syncs", 0)
            cell["syncs"] += st.get("syncs", 0)
            if done_runs[cid] == 1:
                cell["states"] += st.get("syncs", 0)
                cell.setdefault("nontrivial_n", 0)
                cell["nontrivial_n"] += st.get("nontrivial", 0)
            if done_runs[cid] == 1:
                cell["outcomes_n"] = cell.get("outcomes_n", 0) + \
                    st.get("outcomes_n", 0)
            for k, v in st.get("encodings", {}).items():
                cell["encodings"][k] = cell["encodings"].get(k, 0) + v
                enc_total[k] = enc_total.get(k, 0) + v
        if len(cell["samples"]) < 3 and done_runs[cid] == 1:
            smp = dict(case=case_name(c, hosts), edges=c["edges"])
            smp.update({k: v for k, v in st.items()
                        if k in ("proxies", "mirrors", "vertex_cut",
                                 "transposed", "grid", "syncs", "encodings")})
            cell["samples"].append(smp)
        for v in d.get("viol", []):
            note_failure(cid, v["key"], v["msg"], v.get("at"))

    def comp_of(c):
        pre = "cusp" if prop == "C19" else "gluon"
        return "%s:%s:%s->%s%s" % (pre, c["policy"], c["in"], c["out"],
                                   ":sym" if c["sym"] else "")

    # crash / hang bookkeeping: key -> dict(confirmed, attempts, inflight,
    # waiting=[(cid, msg)])
    abn = {}
    crashed = set()  # cids whose run ended a session (counted as explored)

    def launch_confirm(key):
        st = abn[key]
        if st["confirmed"] or st["inflight"] or st["attempts"] >= 6 or \
                not st["waiting"]:
            return []
        cid = st["waiting"][-1][0]
        hosts, threads, c = by_cid[cid]
        ns = Session(next_sid[0], hosts, threads, [(cid, c)], 0)
        next_sid[0] += 1
        ns.confirm = key
        st["inflight"] = True
        st["attempts"] += 1
        return [ns]

    def flush_confirmed(key):
        st = abn[key]
        for cid, msg in st["waiting"]:
            note_failure(cid, key, msg)
        st["waiting"] = []

    def on_end(s, ok, diag):
        """A session ended.  Crash / stall: blame the case in flight, confirm
        it by running that case alone (asynchronously, at most a few times per
        key), continue with the remaining cases."""
        ckey = getattr(s, "confirm", None)
        if ckey is not None:
            st = abn[ckey]
            st["inflight"] = False
            if not ok and s.cur is not None:
                st["confirmed"] = True
                flush_confirmed(ckey)
                return []
            return launch_confirm(ckey)
        if ok:
            return []
        new = []
        rest = [(cid, c) for (cid, c) in s.cases if cid not in s.done_ids]
        blamed = s.cur
        if blamed is not None:
            hosts, threads, c = by_cid[blamed]
            kind, where = diag["kind"], diag["where"]
            pre = "cusp" if prop == "C19" else "gluon"
            if prop == "C18" and s.stage != blamed:
                # died while PARTITIONING: that is property C19's finding
                # (its check reports it with the same location); here the
                # case is only counted as not explorable
                k19 = "cusp:%s%s" % (kind, "@" + where if where else "")
                if k19 not in partition_failures:
                    log("# %s in the partitioning stage of %s (C19's "
                        "finding, not a Gluon verdict): %s" % (
                            kind, case_name(c, hosts), diag["text"][-300:]))
                partition_failures.setdefault(k19, set()).add(blamed)
                crash_runs[blamed] = crash_runs.get(blamed, 0) + 1
                rest = [(cid, c2) for (cid, c2) in rest if cid != blamed]
                if rest:
                    ns = Session(next_sid[0], s.hosts, s.threads, rest, s.rep)
                    next_sid[0] += 1
                    new.append(ns)
                return new
            if where:
                key = "%s:%s@%s" % (pre, kind, where)
            else:
                key = "%s:%s" % (comp_of(c), kind)
            msg = ("%s of the %d-host session while case '%s' was running; "
                   "%s" % (kind, hosts, case_name(c, hosts), diag["text"]))
            st = abn.setdefault(key, dict(confirmed=False, attempts=0,
                                          inflight=False, waiting=[]))
            if len(st["waiting"]) + len(failures.get(key, [])) < 3:
                log("# session %d (h=%d) %s in case %s: %s" % (
                    s.sid, s.hosts, kind, case_name(c, hosts),
                    diag["text"][-400:]))
            crashed.add(blamed)
            crash_runs[blamed] = crash_runs.get(blamed, 0) + 1
            if st["confirmed"]:
                note_failure(blamed, key, msg)
            else:
                st["waiting"].append((blamed, msg))
                new += launch_confirm(key)
            rest = [(cid, c2) for (cid, c2) in rest if cid != blamed]
        else:
            log("# session %d ended abnormally outside a case: %s" %
                (s.sid, diag["text"][-300:]))
            s.retries = getattr(s, "retries", 0) + 1
            launch_failures[0] += 1
            if s.retries > 5:
                log("# giving up: mpirun sessions do not start")
                raise SystemExit(2)
        if rest:
            ns = Session(next_sid[0], s.hosts, s.threads, rest, s.rep)
            ns.retries = getattr(s, "retries", 0)
            next_sid[0] += 1
            new.append(ns)
        return new

    t_run = time.time()
    completed = run_sessions(runner, sessions, deadline_at, on_result,
                             on_end)
    wall = time.time() - t_run
    for key, st in abn.items():
        for cid, msg in st["waiting"]:
            unconfirmed.append(dict(
                key=key, case=case_name(by_cid[cid][2], by_cid[cid][0]),
                msg="not reproduced when the case was run alone (%d "
                    "attempts); %s" % (st["attempts"], msg[:4500])))

    # ---- aggregate ---------------------------------------------------------
    os.makedirs(REPLAY_DIR, exist_ok=True)
    key_to_replay = {}
    for key, lst in failures.items():
        lst.sort(key=lambda x: x[0])
        _sk, cid, hosts, threads, msg, at = lst[0]
        c = dict(by_cid[cid][2])
        if at:
            c = dict(c, opt=dict(c["opt"], **parse_at(at)))
        path = replay_path(prop, key)
        with open(path, "w") as f:
            json.dump(dict(property=prop, harness=harness_of(prop), key=key,
                           msg=msg, hosts=hosts, threads=threads, case=c,
                           failing_inputs=len({x[1] for x in lst}),
                           note="schedules uncontrolled: re-run with "
                                "./check %s --replay <this file>" % prop),
                      f, indent=1)
        key_to_replay[key] = path
        cell = cell_of(cid)
        cell["viol"][key] = dict(
            key=key, msg="%s [smallest of %d failing inputs: %s]" % (
                msg, len({x[1] for x in lst}), case_name(by_cid[cid][2],
                                                         hosts)),
            confirmed=True, replay=path)

    out_cases = []
    total_exec = total_inputs = 0
    for nm in sorted(cells):
        cell = cells[nm]
        full = all(done_runs.get(cid, 0) + crash_runs.get(cid, 0) >= reps
                   for cid in cell["planned"])
        total_exec += cell["executions"]
        total_inputs += len(cell["inputs"])
        oc = dict(
            name=nm, exhaustive=bool(full),
            executions=cell["executions"],
            states=(len(cell["inputs"]) if prop == "C19" else cell["states"]),
            transitions=cell["transitions"],
            distinct_nontrivial=(len(cell["nontrivial"]) if prop == "C19"
                                 else cell.get("nontrivial_n", 0)),
            distinct_outcomes=(len(cell["outcomes"]) if prop == "C19"
                               else cell.get("outcomes_n", 0)),
            inputs_planned=len(cell["planned"]),
            inputs_completed=sum(1 for cid in cell["planned"]
                                 if done_runs.get(cid, 0) +
                                 crash_runs.get(cid, 0) >= reps),
            inputs_crashed=sum(1 for cid in cell["planned"]
                               if crash_runs.get(cid, 0)),
            repetitions=reps,
            schedules="uncontrolled, %d repetitions" % reps,
            violations=list(cell["viol"].values()),
            samples=cell["samples"], wall_s=round(wall, 1))
        if prop == "C18":
            oc["encodings"] = cell["encodings"]
        out_cases.append(oc)
    nondet = sum(1 for v in sigs.values() if len(v) > 1)
    doc = dict(property=prop, tier=tier, wall_s=round(time.time() - T0, 2),
               cases=out_cases, repetitions=reps,
               schedules="uncontrolled, %d repetitions" % reps,
               inputs_with_differing_outcomes_across_repetitions=nondet,
               unconfirmed=unconfirmed,
               sessions_not_exiting_after_all_work=dict(
                   count=len(runner.exit_hangs),
                   examples=[x for x in runner.exit_hangs if x][:3]))
    if prop == "C18":
        doc["encodings_seen"] = enc_total
        doc["partition_stage_failures"] = {
            k: len(v) for k, v in partition_failures.items()}
    if a.out:
        with open(a.out, "w") as f:
            json.dump(doc, f, indent=1)
    nviol = len(failures)
    for key in sorted(failures):
        lst = failures[key]
        log("FINDING key=%s failing_inputs=%d replay=%s\n   %s" % (
            key, len({x[1] for x in lst}), key_to_replay[key], lst[0][4]))
    for (h, t), (sec, n) in sorted(runner.group_time.items()):
        log("# sessions h=%d t=%d: %d case runs in %.0f session-seconds "
            "(%.0f ms per case run)" % (h, t, n, sec, 1000.0 * sec / max(n, 1)))
    for k, v in sorted(partition_failures.items()):
        log("# %d cases could not be explored: %s while partitioning "
            "(reported by C19)" % (len(v), k))
    if runner.exit_hangs:
        log("# %d sessions had finished every case but their processes did "
            "not exit within %ds and were killed (teardown of the "
            "distributed runtime, outside this property); e.g. %s" % (
                len(runner.exit_hangs), runner.exit_s,
                runner.exit_hangs[0][:1500]))
    if launch_failures[0]:
        log("# %d mpirun launches failed or stalled in MPI_Init and were "
            "repeated (machinery, not a verdict)" % launch_failures[0])
    for u in unconfirmed:
        log("# UNCONFIRMED %s in %s: %s" % (u["key"], u["case"], u["msg"]))
    log("# done: %s %s: %d distinct inputs x configs (%d planned), %d "
        "executions, %d cells, %d findings, exhaustive=%s, schedules "
        "uncontrolled (%d repetitions), %.1fs%s" % (
            prop, tier, total_inputs, len(plan), total_exec, len(cells),
            nviol, bool(completed), reps, time.time() - T0,
            (", encodings " + json.dumps(enc_total, sort_keys=True))
            if prop == "C18" else ""))
    return 1 if nviol else 0


def parse_at(at):
    """'k=v k=v' -> dict (harness-specific narrowing options for replay)"""
    d = {}
    for tok in at.split():
        if "=" in tok:
            k, v = tok.split("=", 1)
            d[k] = v
    return d


# --------------------------------------------------------------------------
# replay
# --------------------------------------------------------------------------
def replay(path):
    doc = json.load(open(path))
    prop = doc["property"]
    exe = build_harness(prop)
    workdir = os.path.join(build.TMP, "e4-replay-%d" % os.getpid())
    if os.path.exists(workdir):
        shutil.rmtree(workdir)
    os.makedirs(workdir)
    try:
        files = Files(os.path.join(workdir, "graphs"))
        runner = Runner(exe, workdir, files, 60)
        RUNNERS.append(runner)
        c, hosts, threads = doc["case"], doc["hosts"], doc["threads"]
        log("# replay %s: %s" % (doc["key"], case_name(c, hosts)))
        log("#   edges %s  options %s" % (c["edges"] if len(c["edges"]) < 40
                                          else "(%d edges)" % len(c["edges"]),
                                          c.get("opt", {})))
        log("#   recorded: %s" % doc["msg"])
        hit = 0
        runs = 3
        for i in range(runs):
            s = Session(i, hosts, threads, [(0, c)], i)
            runner.start(s)
            res = []
            status = "ok"
            while True:
                time.sleep(0.05)
                res += [d for d in runner.poll_output(s) if "id" in d]
                rc = s.proc.poll()
                if rc is not None:
                    res += [d for d in runner.poll_output(s) if "id" in d]
                    if not (s.finished and rc == 0):
                        dg = runner.diagnose(s)
                        status = "%s%s (mpirun exit %s) %s" % (
                            dg["kind"], "@" + dg["where"] if dg["where"]
                            else "", rc, dg["text"])
                    break
                if time.time() - s.last_progress > runner.stall_s:
                    runner.kill(s)
                    status = "hang " + runner.diagnose(s)["text"]
                    break
            try:
                s.logf.close()
            except Exception:
                pass
            viol = [v for d in res for v in d.get("viol", [])]
            keys = {v["key"] for v in viol}
            if status != "ok":
                kind = status.split()[0]
                if doc["key"].endswith(kind) or \
                        doc["key"].endswith(":" + kind.split("@")[0]):
                    keys.add(doc["key"])
                log("run %d: %s" % (i + 1, status))
            for v in viol:
                log("run %d: VIOLATION %s\n   %s" % (i + 1, v["key"],
                                                     v["msg"]))
            if not viol and status == "ok":
                log("run %d: no violation (stats %s)" % (
                    i + 1, json.dumps(res[0].get("stats", {})) if res
                    else "?"))
            if doc["key"] in keys:
                hit += 1
            runner.cleanup(s)
        log("# replay: key %s reproduced in %d of %d runs (schedules "
            "uncontrolled)" % (doc["key"], hit, runs))
        return 1 if hit else 0
    finally:
        for r in RUNNERS:
            r.kill_all()
        shutil.rmtree(workdir, ignore_errors=True)


if __name__ == "__main__":
    sys.exit(main())

// C03: do_all / on_each run each element / thread id exactly once and join.
// Engine E1 (gsched).  DESIGN.md 7/C03.
#include "gsched.h"

#include "galois/Bag.h"
#include "galois/Galois.h"

#include <list>
#include <string>
#include <vector>

enum { K_EXEC = 1, K_RET = 9, K_TID = 2 };

enum { MAXE = 32 };
static int counts[6][MAXE]; // [region][element]
static int g_wild;           // operator applied to something outside the range
static int tidcounts[6][8];
VF_NOINSTR static void hit(int region, int e) {
  if (e < 0 || e >= MAXE)
    g_wild++; // walked off the end of the container: not an element at all
  else
    counts[region][e]++;
}
VF_NOINSTR static void hit_tid(int region, int t) { tidcounts[region][t]++; }

static std::string g_tag;

VF_NOINSTR static void check_region(int region, int n) {
  for (int e = 0; e < n; ++e)
    if (counts[region][e] != 1)
      vf_fail((g_tag + (counts[region][e] ? ":element-twice" : ":element-lost"))
                  .c_str(),
              "region %d: element %d of %d was processed %d times", region, e,
              n, counts[region][e]);
  if (g_wild)
    vf_fail((g_tag + ":element-out-of-range").c_str(),
            "region %d: the operator ran %d times on values that are not "
            "elements of the range",
            region, g_wild);
  for (int e = n; e < MAXE; ++e)
    if (counts[region][e])
      vf_fail((g_tag + ":element-out-of-range").c_str(),
              "region %d: element %d processed but range has %d", region, e, n);
}
VF_NOINSTR static void check_tids(int region, int active) {
  for (int t = 0; t < 8; ++t) {
    int want = t < active ? 1 : 0;
    if (tidcounts[region][t] != want)
      vf_fail((g_tag + ":on_each-tid-count").c_str(),
              "region %d: thread id %d ran %d times with %d active threads",
              region, t, tidcounts[region][t], active);
  }
}

template <int CS>
static void run_doall(const std::string& container, int n, bool steal,
                      int region) {
  auto fn = [region](int e) {
    hit(region, e);
    vf_log(K_EXEC, e, region);
  };
  if (container == "vector") {
    std::vector<int> v;
    for (int i = 0; i < n; ++i)
      v.push_back(i);
    if (steal)
      galois::do_all(galois::iterate(v), fn, galois::steal(),
                     galois::chunk_size<CS>());
    else
      galois::do_all(galois::iterate(v), fn, galois::chunk_size<CS>());
  } else if (container == "list") {
    std::list<int> v;
    for (int i = 0; i < n; ++i)
      v.push_back(i);
    if (steal)
      galois::do_all(galois::iterate(v), fn, galois::steal(),
                     galois::chunk_size<CS>());
    else
      galois::do_all(galois::iterate(v), fn, galois::chunk_size<CS>());
  } else if (container == "int") {
    if (steal)
      galois::do_all(galois::iterate(0, n), fn, galois::steal(),
                     galois::chunk_size<CS>());
    else
      galois::do_all(galois::iterate(0, n), fn, galois::chunk_size<CS>());
  } else { // InsertBag: container with local iterators, filled in parallel
    galois::InsertBag<int> bag;
    // fill: element i is inserted by thread i % active (outside the oracle)
    unsigned act = galois::getActiveThreads();
    galois::on_each([&](unsigned tid, unsigned) {
      for (int i = 0; i < n; ++i)
        if ((unsigned)i % act == tid)
          bag.push(i);
    });
    if (steal)
      galois::do_all(galois::iterate(bag), fn, galois::steal(),
                     galois::chunk_size<CS>());
    else
      galois::do_all(galois::iterate(bag), fn, galois::chunk_size<CS>());
  }
  vf_log(K_RET, region, 0);
}

static void doall_case(std::string container, int n, int cs, bool steal,
                       std::vector<int> topo, int T, int T2, int n2) {
  vf_set_topology(topo.data(), (int)topo.size());
  g_tag = std::string("do_all:") + container + (steal ? ":steal" : ":nosteal");
  vf_tag(g_tag.c_str());
  galois::SharedMemSys G;
  galois::setActiveThreads(T);
  vf_window_begin();
  if (cs == 1)
    run_doall<1>(container, n, steal, 0);
  else if (cs == 2)
    run_doall<2>(container, n, steal, 0);
  else
    run_doall<3>(container, n, steal, 0);
  vf_window_end();
  int l1 = vf_log_count();
  check_region(0, n);
  if (T2) { // second region with a different thread count
    galois::setActiveThreads(T2);
    vf_window_begin();
    if (cs == 1)
      run_doall<1>(container, n2, steal, 1);
    else if (cs == 2)
      run_doall<2>(container, n2, steal, 1);
    else
      run_doall<3>(container, n2, steal, 1);
    vf_window_end();
    check_region(1, n2);
    check_region(0, n); // the first region's counts must not have moved
    for (int i = l1; i < vf_log_count(); ++i)
      if (vf_log_get(i)->kind == K_EXEC && vf_log_get(i)->b == 0)
        vf_fail((g_tag + ":work-after-return").c_str(),
                "element %ld of region 0 ran after do_all returned",
                vf_log_get(i)->a);
  }
  int l2 = vf_log_count();
  galois::on_each([](unsigned, unsigned) {}); // stragglers
  if (vf_log_count() != l2)
    vf_fail((g_tag + ":work-after-return").c_str(),
            "%d invocations after do_all returned", vf_log_count() - l2);
  uint64_t o = 0;
  for (int i = 0; i < l2; ++i)
    if (vf_log_get(i)->kind == K_EXEC)
      o = o * 5 + vf_log_get(i)->tid;
  vf_outcome(o);
  vf_finish();
}

static void oneach_case(std::vector<int> topo, std::vector<int> actives) {
  vf_set_topology(topo.data(), (int)topo.size());
  g_tag = "on_each";
  vf_tag(g_tag.c_str());
  galois::SharedMemSys G;
  int region = 0;
  for (int act : actives) {
    galois::setActiveThreads(act);
    int r = region;
    vf_window_begin();
    galois::on_each([r, act](unsigned tid, unsigned numT) {
      hit_tid(r, (int)tid);
      vf_log(K_TID, tid, r);
      if ((int)numT != act)
        vf_note_fail("on_each:wrong-thread-count",
                     "on_each passed numThreads=%u with %d active", numT, act);
      if (galois::substrate::ThreadPool::getTID() != tid)
        vf_note_fail("on_each:wrong-tid", "tid argument %u on pool thread %u",
                     tid, galois::substrate::ThreadPool::getTID());
    });
    vf_window_end();
    vf_log(K_RET, r, 0);
    check_tids(r, act);
    region++;
  }
  // nothing of an earlier region may be logged after its return marker
  int n = vf_log_count();
  int returned[8] = {0};
  for (int i = 0; i < n; ++i) {
    const vf_log_entry* e = vf_log_get(i);
    if (e->kind == K_RET)
      returned[e->a] = 1;
    else if (e->kind == K_TID && returned[e->b])
      vf_fail("on_each:work-after-return",
              "thread %ld of region %ld ran after on_each returned", e->a,
              e->b);
  }
  for (int r = 0; r < region; ++r)
    check_tids(r, actives[r]);
  vf_finish();
}

static std::string topo_str(const std::vector<int>& t) {
  std::string s = "[";
  for (size_t i = 0; i < t.size(); ++i)
    s += (i ? "," : "") + std::to_string(t[i]);
  return s + "]";
}

int main(int argc, char** argv) {
  std::vector<VfCase> cases;
  auto add_da = [&](std::string cont, int n, int cs, bool steal,
                    std::vector<int> topo, int T, int T2, int n2, int qb,
                    int tb, int w = 1) {
    VfCase c;
    c.name = "do_all cont=" + cont + " n=" + std::to_string(n) +
             " cs=" + std::to_string(cs) + (steal ? " steal" : " nosteal") +
             " topo=" + topo_str(topo) + " T=" + std::to_string(T);
    if (T2)
      c.name += " then T=" + std::to_string(T2) + " n=" + std::to_string(n2);
    c.quick_bound    = qb;
    c.thorough_bound = tb;
    c.weight         = w;
    c.body = [=]() { doall_case(cont, n, cs, steal, topo, T, T2, n2); };
    cases.push_back(c);
  };
  // sizes 0..6, both steal modes, chunk sizes 1..3 on the main topologies
  for (bool steal : {true, false}) {
    for (int n : {0, 1, 2, 3, 5, 6}) {
      int cs = 1 + n % 3;
      add_da("vector", n, cs, steal, {2}, 2, 0, 0, n <= 3 ? 1 : -1, 2, 2);
      add_da("vector", n, cs, steal, {1, 1}, 2, 0, 0, -1, 2, 2);
    }
    add_da("vector", 4, 1, steal, {2}, 2, 0, 0, 1, 3, 4);
    // blocks long enough for a thief's "half of what I saw" to exceed, by
    // more than a chunk, what is left when it gets the victim's lock
    add_da("vector", 12, 1, steal, {2}, 2, 0, 0, steal ? 2 : 1, 2, 4);
    add_da("vector", 14, 2, steal, {1, 1}, 2, 0, 0, -1, 2, 4);
    add_da("vector", 5, 2, steal, {3}, 3, 0, 0, 1, 1, 2);
    add_da("vector", 5, 1, steal, {2, 1}, 3, 0, 0, 1, 1, 2);
    add_da("vector", 4, 1, steal, {1, 1, 1}, 3, 0, 0, -1, 1, 2);
    add_da("list", 4, 1, steal, {2}, 2, 0, 0, 1, 2, 2);
    add_da("list", 5, 2, steal, {1, 1}, 2, 0, 0, -1, 2, 2);
    add_da("int", 4, 1, steal, {2}, 2, 0, 0, 1, 2, 2);
    add_da("int", 6, 3, steal, {1, 1}, 2, 0, 0, -1, 2, 2);
    add_da("bag", 4, 1, steal, {2}, 2, 0, 0, 1, 2, 2);
    add_da("bag", 5, 2, steal, {2, 1}, 3, 0, 0, -1, 1, 2);
    // consecutive regions with different thread counts
    add_da("vector", 4, 1, steal, {3}, 3, 2, 3, 1, 1, 2);
    add_da("vector", 3, 1, steal, {2, 1}, 1, 3, 4, 1, 1, 2);
    add_da("vector", 3, 2, steal, {1, 1}, 2, 1, 3, -1, 2, 2);
  }
  add_da("vector", 3, 1, true, {1}, 1, 0, 0, 0, 0);
  auto add_oe = [&](std::vector<int> topo, std::vector<int> actives, int qb,
                    int tb) {
    VfCase c;
    c.name = "on_each topo=" + topo_str(topo) + " active=";
    for (size_t i = 0; i < actives.size(); ++i)
      c.name += (i ? "," : "") + std::to_string(actives[i]);
    c.quick_bound    = qb;
    c.thorough_bound = tb;
    c.body           = [=]() { oneach_case(topo, actives); };
    cases.push_back(c);
  };
  add_oe({1}, {1, 1}, 0, 0);
  add_oe({2}, {2, 2}, 1, 3);
  add_oe({3}, {3, 2}, 1, 2);
  add_oe({3}, {1, 3}, 1, 2);
  add_oe({2, 1}, {3, 2, 3}, 1, 2);
  add_oe({4}, {4, 2}, 1, 2); // a leaf of the 2-thread tree had children at 4
  add_oe({2, 2}, {4, 3}, -1, 2);
  add_oe({4}, {4, 2, 4, 2}, 0, 1);
  add_oe({1, 1, 1, 1}, {2, 4}, -1, 2);
  return vf_main(argc, argv, "C03", cases);
}

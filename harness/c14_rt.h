// C14: containers that need the Galois runtime: priority queues, InsertBag,
// LargeArray.
#ifndef VERIF_C14_RT_H
#define VERIF_C14_RT_H

#include "c14_elem.h"

#include "galois/Bag.h"
#include "galois/Galois.h"
#include "galois/LargeArray.h"
#include "galois/PriorityQueue.h"

#include <memory>
#include <set>

namespace c14 {

void need_runtime();
bool parent_root(const std::vector<int>& hist); // true: do not touch the runtime

// ===========================================================================
// Priority queues against std::multiset / std::set
// ===========================================================================
static const char* const PQ_OPS[] = {"push(0)", "push_back(1)", "insert(2)",
                                     "pop", "clear", "remove(0)", "remove(1)",
                                     "remove(2)"};
static const int PQ_NOPS = 8;

// Q: queue type; IsSet: duplicates are rejected; Cmp: ordering;
// GuardRemove: keep remove() away from an empty queue
template <class Q, bool IsSet, class Cmp, bool GuardRemove>
struct PqCase {
  static std::string NAME;
  typedef std::multiset<int, Cmp> R;

  static std::vector<int> order(const Q& q, const char* after, size_t bound) {
    std::vector<int> v;
    size_t n = 0;
    for (auto it = q.begin(); it != q.end(); ++it) {
      if (n++ > bound)
        sx::fail(NAME + ":traversal-overruns", "after %s", after);
      v.push_back(*it);
    }
    return v;
  }

  static void check(Q& q, const R& r, const char* after) {
    const std::string& C = NAME;
    if (q.size() != r.size() || q.empty() != r.empty())
      sx::fail(C + ":size", "after %s: size()/empty() = %zu/%d, reference "
                            "%zu/%d",
               after, (size_t)q.size(), (int)q.empty(), r.size(),
               (int)r.empty());
    auto got = order(q, after, r.size() + 2);
    std::vector<int> want(r.begin(), r.end());
    if (IsSet) {
      // an ordered set iterates in order
      expect_seq(C + ":traversal-order", after, "begin()..end()", got, want);
    } else {
      // a heap iterates in unspecified order: compare as multisets
      std::vector<int> g(got);
      Cmp cmp;
      std::sort(g.begin(), g.end(), cmp);
      expect_seq(C + ":contents", after, "sorted contents", g, want);
    }
    if (!r.empty()) {
      int t = q.top();
      if (t != *r.begin())
        sx::fail(C + ":top", "after %s: top() = %d, reference %d (contents %s)",
                 after, t, *r.begin(), vstr(want).c_str());
    }
    for (int x = 0; x <= 3; ++x)
      if (q.find(x) != (r.count(x) != 0))
        sx::fail(C + ":find", "after %s: find(%d) = %d, reference %d", after, x,
                 (int)q.find(x), (int)(r.count(x) != 0));
  }

  static std::string run(const std::vector<int>& hist) {
    if (parent_root(hist))
      return "[]";
    need_runtime();
    const std::string& C = NAME;
    Q q;
    R r;
    check(q, r, "construction");
    for (int op : hist) {
      const char* nm = PQ_OPS[op];
      switch (op) {
      case 0:
        q.push(0);
        if (!IsSet || !r.count(0))
          r.insert(0);
        break;
      case 1:
        q.push_back(1);
        if (!IsSet || !r.count(1))
          r.insert(1);
        break;
      case 2:
        q.insert(2);
        if (!IsSet || !r.count(2))
          r.insert(2);
        break;
      case 3:
        if (!r.empty()) { // pop on empty asserts: outside the contract
          int v = q.pop();
          if (v != *r.begin())
            sx::fail(C + ":pop", "after %s: returned %d, reference %d", nm, v,
                     *r.begin());
          r.erase(r.begin());
        }
        break;
      case 4:
        q.clear();
        r.clear();
        break;
      case 5:
      case 6:
      case 7: {
        int x = op - 5;
        if (GuardRemove && r.empty())
          break;
        size_t before = r.count(x);
        bool ret = false;
        if (!GuardRemove && r.empty()) {
          // remove() of an absent value from an EMPTY queue: the header
          // states no precondition and returns "was it removed"; the
          // unchanged library dereferences the empty container here.
          if (!survives([&]() { ret = q.remove(x); }, 3, 30))
            sx::fail(C + (survive_sig() == SIGALRM
                              ? ":remove-on-empty-never-returns"
                              : ":remove-on-empty-dies"),
                     "%s on an empty queue %s", nm,
                     survive_sig() == SIGALRM
                         ? "did not return within 3 s"
                         : survive_sig() == SIGABRT ? "aborts (failed assert)"
                                                    : "faults (SIGSEGV)");
        } else {
          ret = q.remove(x);
        }
        if (ret != (before > 0))
          sx::fail(C + ":remove-return", "after %s: returned %d, %zu copies "
                                         "were present",
                   nm, (int)ret, before);
        // The header does not say whether remove() takes out one copy or all
        // of them; accept either, follow the implementation.
        auto got     = order(q, nm, r.size() + 2);
        size_t after = std::count(got.begin(), got.end(), x);
        if (before > 0 && !(after == before - 1 || after == 0))
          sx::fail(C + ":remove-count", "after %s: %zu copies before, %zu "
                                        "after",
                   nm, before, after);
        if (before == 0 && after != 0)
          sx::fail(C + ":remove-count", "after %s: value appeared", nm);
        while (r.count(x) > after)
          r.erase(r.find(x));
      } break;
      }
      check(q, r, nm);
      // non-trivial: >= 3 elements (a heap with both children) were held;
      // for the remove-on-empty variant: the queue held something before
      if (r.size() >= (GuardRemove ? 3u : 1u))
        sx::mark_nontrivial();
    }
    std::string key = vstr(order(q, "end", r.size() + 2));
    sx::outcome(sx::hash_str(key));
    return key;
  }

  static sx::BfsCase make(const std::string& name, int qd, int td) {
    NAME = name;
    sx::BfsCase c;
    c.name   = name + (GuardRemove ? " vs std::multiset"
                                   : " remove() on an empty queue");
    c.nops   = PQ_NOPS;
    c.opname = [](int i) { return std::string(PQ_OPS[i]); };
    c.run    = run;
    c.quick_depth    = qd;
    c.thorough_depth = td;
    return c;
  }
};
template <class Q, bool IsSet, class Cmp, bool G>
std::string PqCase<Q, IsSet, Cmp, G>::NAME;

// range constructors: every sequence over {0,1,2} of length <= 4 (thorough 6)
struct PqRange {
  static uint64_t count(bool th) {
    int maxn   = th ? 6 : 4;
    uint64_t s = 0, p = 1;
    for (int n = 0; n <= maxn; ++n) {
      s += p;
      p *= 3;
    }
    return s * 4;
  }
  static std::vector<int> decode(uint64_t idx, int& kind) {
    kind = idx % 4;
    idx /= 4;
    std::vector<int> v;
    uint64_t p = 1;
    int n      = 0;
    while (idx >= p) {
      idx -= p;
      p *= 3;
      ++n;
    }
    for (int i = 0; i < n; ++i) {
      v.push_back(idx % 3);
      idx /= 3;
    }
    return v;
  }
  static const char* kname(int k) {
    static const char* const N[] = {"MinHeap<int>",
                                    "MinHeap<int,std::greater>",
                                    "ThreadSafeMinHeap<int>",
                                    "ThreadSafeOrderedSet<int>"};
    return N[k];
  }
  static std::string describe(uint64_t idx, bool) {
    int kind;
    auto v = decode(idx, kind);
    return std::string(kname(kind)) + "(first,last) over " + vstr(v);
  }
  template <class Q>
  static void drain(const char* name, Q& q, std::vector<int> want,
                    const std::vector<int>& in) {
    std::string C = std::string(name) + ":range-constructor";
    if (q.size() != want.size())
      sx::fail(C + "-size", "built from %s: size() = %zu, reference %zu",
               vstr(in).c_str(), (size_t)q.size(), want.size());
    if (!want.empty() && q.top() != want.front())
      sx::fail(C + "-top", "built from %s: top() = %d, reference %d",
               vstr(in).c_str(), (int)q.top(), want.front());
    std::vector<int> got;
    while (!q.empty() && got.size() <= want.size())
      got.push_back(q.pop());
    expect_seq(C + "-pop-order", "range construction", "sequence of pop()",
               got, want);
  }
  static void run(uint64_t idx, bool) {
    need_runtime();
    int kind;
    auto v = decode(idx, kind);
    std::vector<int> asc(v), desc(v);
    std::sort(asc.begin(), asc.end());
    std::sort(desc.begin(), desc.end(), std::greater<int>());
    switch (kind) {
    case 0: {
      galois::MinHeap<int> q(v.begin(), v.end());
      drain(kname(kind), q, asc, v);
    } break;
    case 1: {
      galois::MinHeap<int, std::greater<int>> q(v.begin(), v.end());
      drain(kname(kind), q, desc, v);
    } break;
    case 2: {
      galois::ThreadSafeMinHeap<int> q(v.begin(), v.end());
      drain(kname(kind), q, asc, v);
    } break;
    case 3: {
      galois::ThreadSafeOrderedSet<int> q(v.begin(), v.end());
      asc.erase(std::unique(asc.begin(), asc.end()), asc.end());
      drain(kname(kind), q, asc, v);
    } break;
    }
    // non-trivial: the input is not already in pop order
    if (v != (kind == 1 ? desc : asc))
      sx::mark_nontrivial();
    sx::outcome(sx::hash_str(vstr(asc)) + kind);
  }
};

// ===========================================================================
// InsertBag<Elem,BlockSize> used by one thread.  Contents are an unordered
// multiset (the header documents no order); pop() is documented to remove
// "the last element pushed by this thread", and to support an
// implementation-dependent number of consecutive pops: an out_of_range from
// pop() is therefore accepted and leaves the bag unchanged.
// ===========================================================================
static const char* const IB_OPS[] = {
    "push(0) [copy]", "push_back(1) [move]", "emplace(2)", "pop", "clear",
    "clear_serial", "move-construct", "move-assign over a 1-element bag",
    "swap through an empty bag"};
static const int IB_NOPS = 9;

template <unsigned BlockSize>
struct InsertBagCase {
  typedef galois::InsertBag<Elem, BlockSize> B;
  static unsigned per_block() {
    unsigned off = 1 + 32 / sizeof(Elem);
    return BlockSize / sizeof(Elem) - off;
  }
  static std::string comp() {
    return "InsertBag<" + std::to_string(per_block()) + "/block>";
  }

  static std::string shape(B& b, int& nblocks, bool& has_empty_block) {
    std::ostringstream o;
    nblocks         = 0;
    has_empty_block = false;
    int guard       = 0;
    for (auto* h = b.heads.getRemote(0)->first; h && guard < 64;
         h = h->next, ++guard) {
      o << "(";
      for (Elem* p = h->dbegin; p != h->dend; ++p)
        o << (p != h->dbegin ? "," : "") << p->v;
      o << ")";
      if (h->dbegin == h->dend)
        has_empty_block = true;
      nblocks++;
    }
    return o.str();
  }

  static std::vector<int> sorted(std::vector<int> v) {
    std::sort(v.begin(), v.end());
    return v;
  }

  static void check(B& b, const std::vector<int>& m, const char* after,
                    long extra_live) {
    const std::string C = comp();
    check_live(C, after, (long)m.size() + extra_live);
    if (b.empty() != m.empty())
      sx::fail(C + ":empty", "after %s: empty() = %d but the bag holds %zu "
                             "elements",
               after, (int)b.empty(), m.size());
    size_t bound = m.size() + 2;
    auto want    = sorted(m);
    expect_seq(C + ":contents", after, "sorted begin()..end()",
               sorted(walk(C, after, "forward-traversal", b.begin(), b.end(),
                           bound)),
               want);
    // (const begin()/end() do not compile: see the compile probes)
    // one thread: the local range is everything
    expect_seq(C + ":local-contents", after, "sorted local_begin()..local_end()",
               sorted(walk(C, after, "local-traversal", b.local_begin(),
                           b.local_end(), bound)),
               want);
    if ((size_t)std::distance(b.begin(), b.end()) != m.size())
      sx::fail(C + ":distance", "after %s: distance(begin,end) = %ld, "
                                "reference %zu",
               after, (long)std::distance(b.begin(), b.end()), m.size());
  }

  static void expect_ref(Elem& r, int v, const char* after) {
    if (bad_obj(r) || r.v != v)
      sx::fail(comp() + ":push-return", "after %s: returned reference does "
                                        "not designate the new element",
               after);
  }

  static std::string run(const std::vector<int>& hist) {
    if (parent_root(hist))
      return "";
    need_runtime();
    reg().reset();
    const std::string C = comp();
    std::string key;
    {
      std::unique_ptr<B> b(new B());
      std::vector<int> m; // in push order (pop removes the back)
      check(*b, m, "construction", 0);
      for (int op : hist) {
        const char* nm = IB_OPS[op];
        switch (op) {
        case 0: {
          Elem x(0);
          expect_ref(b->push(x), 0, nm);
          m.push_back(0);
        } break;
        case 1:
          expect_ref(b->push_back(Elem(1)), 1, nm);
          m.push_back(1);
          break;
        case 2:
          expect_ref(b->emplace(2), 2, nm);
          m.push_back(2);
          break;
        case 3:
          if (!m.empty()) { // nothing pushed: nothing to pop
            bool refused = false;
            try {
              b->pop();
            } catch (const std::out_of_range&) {
              refused = true; // documented: implementation dependent
            }
            if (!refused)
              m.pop_back();
          }
          break;
        case 4:
          b->clear();
          m.clear();
          break;
        case 5:
          b->clear_serial();
          m.clear();
          break;
        case 6: {
          std::unique_ptr<B> n(new B(std::move(*b)));
          b.reset();
          b = std::move(n);
        } break;
        case 7: {
          std::unique_ptr<B> n(new B());
          n->push(Elem(7));
          *n = std::move(*b);
          b.reset();
          b = std::move(n);
        } break;
        case 8: {
          B other;
          b->swap(other);
          std::vector<int> none;
          check(*b, none, "swap (now empty side)", (long)m.size());
          other.swap(*b);
        } break;
        }
        check(*b, m, nm, 0);
        int nb;
        bool he;
        shape(*b, nb, he);
        if (nb >= 2) // non-trivial: the bag spanned >= 2 blocks
          sx::mark_nontrivial();
      }
      int nb;
      bool he;
      key = shape(*b, nb, he);
    }
    check_live(C, "destruction", 0);
    sx::outcome(sx::hash_str(key));
    return key;
  }

  static sx::BfsCase make(int qd, int td) {
    sx::BfsCase c;
    c.name   = "InsertBag<Elem," + std::to_string(BlockSize) + "> (" +
             std::to_string(per_block()) + " per block) vs multiset";
    c.nops   = IB_NOPS;
    c.opname = [](int i) { return std::string(IB_OPS[i]); };
    c.run    = run;
    c.quick_depth    = qd;
    c.thorough_depth = td;
    c.weight         = 2;
    return c;
  }
};

// ===========================================================================
// LargeArray<Elem>: allocation policies x manual element lifetime.
// Contract followed by the harness (the destructor destroys all size()
// elements): destroy() only when every slot is alive, deallocate() only when
// none is, and the array is left deallocated before it dies.
// ===========================================================================
static const char* const LG_OPS[] = {
    "allocateInterleaved(2)", "allocateBlocked(2)", "allocateLocal(3)",
    "allocateFloating(1)", "allocateSpecified(2)", "allocateInterleaved(0)",
    "wrap external buffer of 2", "create(2,const Elem& 0)",
    "construct(1) [all]",
    "constructAt(0,2)", "constructAt(last,2)", "destroyAt(0)",
    "destroyAt(last)", "set(0,3)", "a[last]=4", "destroy() [all]",
    "deallocate()", "move-construct", "move-assign", "swap(a,empty)",
    "create(2,Elem&& 1)"};
static const int LG_NOPS = 21;

inline std::string lg_run(const std::vector<int>& hist) {
  if (parent_root(hist))
    return "k-1:";
  need_runtime();
  reg().reset();
  typedef galois::LargeArray<Elem> A;
  const std::string C = "LargeArray";
  std::string key;
  alignas(16) static char ext[2 * sizeof(Elem)];
  {
    std::unique_ptr<A> a(new A());
    bool alloc = false;
    int kind   = -1;
    std::vector<int> m; // -1 = slot not constructed
    auto nlive = [&]() {
      long n = 0;
      for (int x : m)
        n += x >= 0;
      return n;
    };
    auto check = [&](const char* after) {
      check_live(C, after, nlive());
      const A& ca = *a;
      if (a->size() != m.size())
        sx::fail(C + ":size", "after %s: size() = %zu, reference %zu", after,
                 a->size(), m.size());
      if ((size_t)(a->end() - a->begin()) != m.size() ||
          (size_t)(ca.end() - ca.begin()) != m.size())
        sx::fail(C + ":iterator-range", "after %s: end()-begin() != size()",
                 after);
      if (!alloc && (a->data() != nullptr || a->begin() != nullptr))
        sx::fail(C + ":deallocated-pointer", "after %s: data() not null "
                                             "while deallocated",
                 after);
      for (size_t i = 0; i < m.size(); ++i) {
        if (&(*a)[i] != a->data() + i || &a->at(i) != a->data() + i ||
            &ca[i] != ca.data() + i || &ca.at(i) != ca.data() + i ||
            a->begin() + i != a->data() + i)
          sx::fail(C + ":addressing", "after %s: slot %zu not contiguous",
                   after, i);
        if (m[i] < 0)
          continue;
        if (const char* bad = bad_obj((*a)[i]))
          sx::fail(C + ":" + bad, "after %s: slot %zu (value %d, reference %d)",
                   after, i, (*a)[i].v, m[i]);
        if ((*a)[i].v != m[i] || ca.at(i).v != m[i] ||
            (a->begin() + i)->v != m[i])
          sx::fail(C + ":element", "after %s: slot %zu holds %d, reference %d",
                   after, i, (*a)[i].v, m[i]);
      }
    };
    auto did_alloc = [&](int k, size_t n) {
      alloc = n > 0 || k == 6;
      kind  = k;
      m.assign(n, -1);
    };
    check("construction");
    for (int op : hist) {
      const char* nm = LG_OPS[op];
      size_t n       = m.size();
      long nl        = nlive();
      if (op <= 7 || op == 20) {
        if (alloc || kind == 5)
          goto done; // allocate asserts !m_data
        switch (op) {
        case 0:
          a->allocateInterleaved(2);
          did_alloc(0, 2);
          break;
        case 1:
          a->allocateBlocked(2);
          did_alloc(1, 2);
          break;
        case 2:
          a->allocateLocal(3);
          did_alloc(2, 3);
          break;
        case 3:
          a->allocateFloating(1);
          did_alloc(3, 1);
          break;
        case 4: {
          std::vector<uint32_t> ranges = {0, 2};
          a->allocateSpecified(2, ranges);
          did_alloc(4, 2);
        } break;
        case 5:
          a->allocateInterleaved(0);
          did_alloc(5, 0);
          break;
        case 6:
          a.reset(new A(ext, 2));
          did_alloc(6, 2);
          break;
        case 7: {
          Elem x(0);
          a->create(2, x);
          did_alloc(7, 2);
          m.assign(2, 0);
        } break;
        case 20:
          // std::vector<T>(n, T(1)) gives n equal elements
          a->create(2, Elem(1));
          did_alloc(7, 2);
          m.assign(2, 1);
          break;
        }
      } else if (op == 8) {
        if (alloc && nl == 0 && n > 0) {
          a->construct(1);
          m.assign(n, 1);
        }
      } else if (op == 9 || op == 10) {
        if (n > 0) {
          size_t i = op == 9 ? 0 : n - 1;
          if (m[i] < 0) {
            a->constructAt(i, 2);
            m[i] = 2;
          }
        }
      } else if (op == 11 || op == 12) {
        if (n > 0) {
          size_t i = op == 11 ? 0 : n - 1;
          if (m[i] >= 0) {
            a->destroyAt(i);
            m[i] = -1;
          }
        }
      } else if (op == 13) {
        if (n > 0 && m[0] >= 0) {
          a->set(0, Elem(3));
          m[0] = 3;
        }
      } else if (op == 14) {
        if (n > 0 && m[n - 1] >= 0) {
          (*a)[n - 1] = Elem(4);
          m[n - 1]    = 4;
        }
      } else if (op == 15) {
        if (alloc && n > 0 && nl == (long)n) {
          a->destroy();
          m.assign(n, -1);
        }
      } else if (op == 16) {
        if (nl == 0) {
          a->deallocate();
          alloc = false;
          kind  = -1;
          m.clear();
        }
      } else if (op == 17) {
        std::unique_ptr<A> b(new A(std::move(*a)));
        a.reset(); // moved-from: empty, nothing to destroy
        a = std::move(b);
      } else if (op == 18) {
        std::unique_ptr<A> b(new A());
        *b = std::move(*a);
        a.reset();
        a = std::move(b);
      } else if (op == 19) {
        A other;
        swap(*a, other);
        if (a->size() != 0 || a->data() != nullptr)
          sx::fail(C + ":swap", "after %s: swapped-in empty array is not "
                                "empty",
                   nm);
        swap(other, *a);
      }
    done:
      check(nm);
      if (nlive() >= 2) // non-trivial: >= 2 elements alive at once
        sx::mark_nontrivial();
    }
    std::ostringstream o;
    o << "k" << kind << ":";
    for (int x : m)
      o << x << ",";
    key = o.str();
    // leave it the way the destructor requires
    for (size_t i = 0; i < m.size(); ++i)
      if (m[i] >= 0)
        a->destroyAt(i);
    a->deallocate();
    a.reset();
  }
  check_live(C, "destruction", 0);
  sx::outcome(sx::hash_str(key));
  return key;
}

} // namespace c14
#endif

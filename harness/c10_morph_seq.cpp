// C10 (sequential half): morph-graph mutation is structurally consistent.
// Engine E2 (seqx history BFS).  DESIGN.md 7/C10, bullet "E2".
//
// One BFS case per flavour of galois::graphs::MorphGraph (and of its two
// near-copies Morph_SepInOut_Graph and MorphHyperGraph) and per start state:
//   "from created nodes": three nodes exist through createNode() only, the
//                         alphabet's addNode(i) brings them into the graph;
//   "from added nodes"  : the same three nodes were already added (this is the
//                         prefix addNode(0);addNode(1);addNode(2) taken as the
//                         root, so that the depth bound is spent on edges).
// Every call is made by one thread outside any parallel loop with
// MethodFlag::UNPROTECTED.
//
// Alphabet (simplest first; (i,j) ranges over all 9 ordered pairs, the six
// with i != j before the three self loops):
//   addNode(i)            only for a node that was never added
//   addEdge(i,j)          both live; a NEW edge gets data 1+3i+j, an existing
//                         one is returned unchanged (any of the parallel ones)
//   addMultiEdge(i,j,v)   both live; v = 11+3i+j
//   update(i,j)           getEdgeData(findEdge(i,j)) ^= 32, when the model has
//                         the edge
//   removeNode(i)         any state of i (documented no-op unless i is live)
//   removeInEdge(i,j)     Morph_SepInOut_Graph in/out only, through findInEdge
//   removeEdge(i,j)       removeEdge(i, findEdge(i,j)), when the model has it
// A violation seen right after an operation on a pair (i,i) carries
// "self-loop-" in its key: the header neither forbids nor mentions self loops,
// so these are kept apart from the findings that need none.
// Re-adding a removed node is not in the alphabet (the API does not define it).
//
// Reference model: live set + a list of edges (u,v,data).  Directed: u->v.
// Undirected: one record is the symmetric pair {u,v} sharing one data cell (a
// self loop therefore shows up twice in edges(u), which is how the pair is
// stored).  In/out: the in-view is derived from the same records.  removeNode
// drops every incident record: on directed graphs the header only promises
// that the OUTGOING edges go away, the edges pointing to the removed node
// merely must not be yielded any more -- observationally the same thing since
// the node never comes back.
//
// Oracle after every step (an exploration run checks after its LAST step, all
// its proper prefixes were checked as runs of their own on the level before;
// a replay checks after each step -- see run()):
// containsNode; node iteration (each live node once,
// size(), std::distance); for each live node the multiset of (dst,data) from
// edge_begin..edge_end, edges(n), out_edges(n) and (in/out) in_edges(n); no
// edge to a node that is not live; sortedness by destination handle for the
// sorted flavours; reverse entries exist and share the data CELL (compared by
// address, as multisets per node pair because of parallel edges);
// findEdge / findEdgeSortedByDst / findInEdge for every ordered pair (any
// matching parallel edge is accepted).
//
// Deduplication key: live states + the per-node edge storage in storage order
// (destination index, in-edge tag, stale mark, data; no addresses).  This is
// finer than the model state on purpose: unsorted flavours erase by
// swap-with-last and reuse stale slots, so two histories with the same model
// state can behave differently later.  (The TU is compiled with
// -fno-access-control; private members are read for the KEY only, never for
// the oracle.)
//
// Non-trivial run: some step removed at least one edge record (removeEdge,
// removeInEdge, or removeNode of a node with incident edges).
#include "seqx.h"

#include "galois/Galois.h"
#include "galois/graphs/MorphGraph.h"
// The three headers define the same helper templates in the same namespace;
// every header they include is already in (include guards), so renaming the
// two helper names only touches the graph header itself.
#define UEdgeInfoBase SepInOut_UEdgeInfoBase
#define EdgeFactory SepInOut_EdgeFactory
#include "galois/graphs/Morph_SepInOut_Graph.h"
#undef UEdgeInfoBase
#undef EdgeFactory
#define UEdgeInfoBase Hyper_UEdgeInfoBase
#define EdgeFactory Hyper_EdgeFactory
#include "galois/graphs/MorphHyperGraph.h"
#undef UEdgeInfoBase
#undef EdgeFactory

#include <algorithm>
#include <cstdarg>
#include <functional>
#include <map>
#include <memory>
#include <sstream>
#include <string>
#include <type_traits>
#include <vector>

static const galois::MethodFlag UP = galois::MethodFlag::UNPROTECTED;

static pid_t g_main_pid;
static bool g_replay_mode;

static void need_runtime() {
  static galois::SharedMemSys* G = nullptr;
  if (!G) {
    G = new galois::SharedMemSys();
    galois::setActiveThreads(1);
  }
}

enum { NEVER = 0, LIVE = 1, REMOVED = 2 };
enum { MORPH = 0, SEPINOUT = 1, HYPER = 2 };

static const int NN = 3, NP = 9;
enum Kind {
  K_ADDNODE,
  K_ADDEDGE,
  K_ADDMULTI,
  K_UPDATE,
  K_RMNODE,
  K_RMINEDGE,
  K_RMEDGE
};
struct OpDesc {
  Kind k;
  int i, j;
};
// Simplest first.  Within a group the six pairs i != j come before the three
// self loops, and removeEdge on a self loop is placed at the very end of the
// alphabet: seqx skips the remaining operations of a state when one of them
// kills the worker, and that is the operation that does (boost assertion in
// the sorted in/out flavour), so nothing else is lost.
static std::vector<OpDesc> make_ops(bool withRemoveInEdge) {
  std::vector<OpDesc> v;
  auto pairs = [&](Kind k, bool self) {
    for (int i = 0; i < NN; ++i)
      for (int j = 0; j < NN; ++j)
        if ((i == j) == self)
          v.push_back({k, i, j});
  };
  for (int i = 0; i < NN; ++i)
    v.push_back({K_ADDNODE, i, i});
  for (Kind k : {K_ADDEDGE, K_ADDMULTI, K_UPDATE}) {
    pairs(k, false);
    pairs(k, true);
  }
  for (int i = 0; i < NN; ++i)
    v.push_back({K_RMNODE, i, i});
  if (withRemoveInEdge) {
    pairs(K_RMINEDGE, false);
    pairs(K_RMINEDGE, true);
  }
  pairs(K_RMEDGE, false);
  pairs(K_RMEDGE, true);
  return v;
}
static const std::vector<OpDesc> OPS_BASE = make_ops(false);
static const std::vector<OpDesc> OPS_SEP  = make_ops(true);

static std::string opname(const OpDesc& o) {
  char b[64];
  switch (o.k) {
  case K_ADDNODE:
    snprintf(b, sizeof b, "addNode(%d)", o.i);
    break;
  case K_RMNODE:
    snprintf(b, sizeof b, "removeNode(%d)", o.i);
    break;
  case K_ADDEDGE:
    snprintf(b, sizeof b, "addEdge(%d,%d)", o.i, o.j);
    break;
  case K_ADDMULTI:
    snprintf(b, sizeof b, "addMultiEdge(%d,%d,%d)", o.i, o.j,
             11 + 3 * o.i + o.j);
    break;
  case K_UPDATE:
    snprintf(b, sizeof b, "update(%d,%d)", o.i, o.j);
    break;
  case K_RMEDGE:
    snprintf(b, sizeof b, "removeEdge(%d,%d)", o.i, o.j);
    break;
  case K_RMINEDGE:
    snprintf(b, sizeof b, "removeInEdge(%d,%d)", o.i, o.j);
    break;
  }
  return b;
}

typedef std::pair<int, int> PI;

static std::string pstr(const std::vector<PI>& v) {
  std::ostringstream o;
  o << "{";
  for (size_t i = 0; i < v.size(); ++i)
    o << (i ? " " : "") << v[i].first << ":" << v[i].second;
  o << "}";
  return o.str();
}
static std::string istr(const std::vector<int>& v) {
  std::ostringstream o;
  o << "{";
  for (size_t i = 0; i < v.size(); ++i)
    o << (i ? " " : "") << v[i];
  o << "}";
  return o.str();
}

// ---------------------------------------------------------------------------
// reference model
// ---------------------------------------------------------------------------
struct MEdge {
  int u, v, d;
};
template <bool Directed>
struct Model {
  int st[NN] = {NEVER, NEVER, NEVER};
  std::vector<MEdge> es;

  static bool match(const MEdge& e, int i, int j) {
    return (e.u == i && e.v == j) || (!Directed && e.u == j && e.v == i);
  }
  bool live(int i) const { return st[i] == LIVE; }
  // data of every record that is an edge i->j (undirected: i--j)
  std::vector<int> datas(int i, int j) const {
    std::vector<int> r;
    for (auto& e : es)
      if (match(e, i, j))
        r.push_back(e.d);
    std::sort(r.begin(), r.end());
    return r;
  }
  bool remove_one(int i, int j, int d) {
    for (size_t k = 0; k < es.size(); ++k)
      if (match(es[k], i, j) && es[k].d == d) {
        es.erase(es.begin() + k);
        return true;
      }
    return false;
  }
  bool replace_one(int i, int j, int d, int nd) {
    for (auto& e : es)
      if (match(e, i, j) && e.d == d) {
        e.d = nd;
        return true;
      }
    return false;
  }
  size_t remove_incident(int n) {
    size_t before = es.size();
    es.erase(std::remove_if(es.begin(), es.end(),
                            [n](const MEdge& e) { return e.u == n || e.v == n; }),
             es.end());
    return before - es.size();
  }
  std::vector<PI> out(int n) const {
    std::vector<PI> r;
    for (auto& e : es) {
      if (e.u == n)
        r.push_back({e.v, e.d});
      if (!Directed && e.v == n) // the symmetric entry (twice for a self loop)
        r.push_back({e.u, e.d});
    }
    std::sort(r.begin(), r.end());
    return r;
  }
  std::vector<PI> in(int n) const { // directed in/out graphs
    std::vector<PI> r;
    for (auto& e : es)
      if (e.v == n)
        r.push_back({e.u, e.d});
    std::sort(r.begin(), r.end());
    return r;
  }
  std::vector<int> live_nodes() const {
    std::vector<int> r;
    for (int i = 0; i < NN; ++i)
      if (live(i))
        r.push_back(i);
    return r;
  }
};

// ---------------------------------------------------------------------------
// flavour description
// ---------------------------------------------------------------------------
template <template <class, class, bool, bool, bool, bool, class> class TT,
          class E, bool D, bool IO, bool NL, bool S, int Fam>
struct Cfg {
  typedef TT<int, E, D, IO, NL, S, E> G;
  static constexpr bool Directed = D;
  static constexpr bool InOut    = D && IO; // directed, tracks in-edges
  static constexpr bool Sorted   = S;
  static constexpr bool HasData  = !std::is_void<E>::value;
  static constexpr int Family    = Fam;
  // Morph_SepInOut_Graph only
  static constexpr bool HasRemoveInEdge = Fam == SEPINOUT && D && IO;
};

struct Ctx {
  std::string comp, after;
  bool self = false; // the step being checked operates on a pair (i,i)
  [[noreturn]] void fail(const char* symptom, const char* fmt, ...) const
      __attribute__((format(printf, 3, 4))) {
    char buf[900];
    va_list ap;
    va_start(ap, fmt);
    vsnprintf(buf, sizeof buf, fmt, ap);
    va_end(ap);
    sx::fail(comp + ":" + (self ? "self-loop-" : "") + symptom,
             "after %s: %s", after.c_str(), buf);
  }
};

template <class C>
struct Runner {
  typedef typename C::G G;
  typedef typename G::GraphNode GNode;
  typedef Model<C::Directed> M;

  struct World {
    std::unique_ptr<G> g;
    GNode n[NN];
    std::map<GNode, int> id;
    World() : g(new G()) {
      for (int i = 0; i < NN; ++i) {
        n[i]     = g->createNode(100 + i);
        id[n[i]] = i;
      }
    }
  };

  struct Ent {
    int dst, data;
    const void* cell;
    GNode h;
  };

  template <class It>
  static int edata(G& g, It it) {
    if constexpr (C::HasData)
      return (int)g.getEdgeData(it);
    else
      return 0;
  }
  template <class It>
  static const void* ecell(G& g, It it) {
    if constexpr (C::HasData)
      return (const void*)&g.getEdgeData(it);
    else
      return nullptr;
  }
  template <class It>
  static void setdata(G& g, It it, int v) {
    if constexpr (C::HasData)
      g.getEdgeData(it) = v;
  }

  static int idx(World& w, GNode x, const Ctx& cx, const char* what) {
    auto it = w.id.find(x);
    if (it == w.id.end())
      cx.fail("unknown-node-handle", "%s yielded a handle that createNode "
                                     "never returned",
              what);
    return it->second;
  }

  template <class It>
  static Ent ent(World& w, It it, const Ctx& cx, const char* what) {
    Ent x;
    x.h    = w.g->getEdgeDst(it);
    x.dst  = idx(w, x.h, cx, what);
    x.data = edata(*w.g, it);
    x.cell = ecell(*w.g, it);
    return x;
  }
  template <class It>
  static std::vector<Ent> walk(World& w, It b, It e, const Ctx& cx,
                               const char* what, int n, size_t bound) {
    std::vector<Ent> v;
    for (; b != e; ++b) {
      if (v.size() > bound)
        cx.fail("edge-traversal-overruns", "%s of node %d yields more than "
                                           "%zu edges",
                what, n, bound);
      v.push_back(ent(w, b, cx, what));
    }
    return v;
  }
  template <class R>
  static std::vector<Ent> walk_range(World& w, R&& r, const Ctx& cx,
                                     const char* what, int n, size_t bound) {
    std::vector<Ent> v;
    for (auto it : r) {
      if (v.size() > bound)
        cx.fail("edge-traversal-overruns", "%s of node %d yields more than "
                                           "%zu edges",
                what, n, bound);
      v.push_back(ent(w, it, cx, what));
    }
    return v;
  }
  static std::vector<PI> pairs(const std::vector<Ent>& v, bool sorted) {
    std::vector<PI> r;
    for (auto& e : v)
      r.push_back({e.dst, e.data});
    if (sorted)
      std::sort(r.begin(), r.end());
    return r;
  }
  // data cells / data of the entries of `v` that point to node `to`
  static std::vector<const void*> cells_to(const std::vector<Ent>& v, int to) {
    std::vector<const void*> r;
    for (auto& e : v)
      if (e.dst == to)
        r.push_back(e.cell);
    std::sort(r.begin(), r.end(), std::less<const void*>());
    return r;
  }
  static std::vector<int> datas_to(const std::vector<Ent>& v, int to) {
    std::vector<int> r;
    for (auto& e : v)
      if (e.dst == to)
        r.push_back(e.data);
    std::sort(r.begin(), r.end());
    return r;
  }

  // ---- full observable check ------------------------------------------------
  static void check(World& w, const M& m, const Ctx& cx) {
    G& g = *w.g;
    // 1. membership
    for (int i = 0; i < NN; ++i)
      if (g.containsNode(w.n[i], UP) != m.live(i))
        cx.fail("containsNode", "containsNode(%d) = %d, reference %d", i,
                (int)g.containsNode(w.n[i], UP), (int)m.live(i));
    // 2. node iteration
    std::vector<int> want_nodes = m.live_nodes();
    {
      std::vector<int> got;
      for (auto it = g.begin(), e = g.end(); it != e; ++it) {
        if (got.size() > NN + 2)
          cx.fail("node-traversal-overruns", "begin()..end() yields more than "
                                             "%d nodes",
                  NN + 2);
        got.push_back(idx(w, *it, cx, "begin()..end()"));
      }
      for (int x : got)
        if (!m.live(x))
          cx.fail("node-iteration-yields-inactive-node",
                  "begin()..end() yields node %d which is %s", x,
                  m.st[x] == REMOVED ? "removed" : "not added");
      std::sort(got.begin(), got.end());
      if (got != want_nodes)
        cx.fail("node-iteration", "begin()..end() yields %s, live nodes are %s",
                istr(got).c_str(), istr(want_nodes).c_str());
      std::vector<int> got2;
      for (GNode x : g) {
        if (got2.size() > NN + 2)
          break;
        got2.push_back(idx(w, x, cx, "range-for over the graph"));
      }
      std::sort(got2.begin(), got2.end());
      if (got2 != want_nodes)
        cx.fail("node-iteration", "range-for yields %s, live nodes are %s",
                istr(got2).c_str(), istr(want_nodes).c_str());
      if (g.size() != want_nodes.size() ||
          (size_t)std::distance(g.begin(), g.end()) != want_nodes.size())
        cx.fail("size", "size() = %u, distance(begin,end) = %ld, %zu live "
                        "nodes",
                g.size(), (long)std::distance(g.begin(), g.end()),
                want_nodes.size());
    }
    // 3. collect the edge views of every live node
    size_t bound = 2 * m.es.size() + 4;
    std::vector<Ent> out[NN], in[NN];
    for (int n : want_nodes) {
      out[n] = walk(w, g.edge_begin(w.n[n], UP), g.edge_end(w.n[n], UP), cx,
                    "edge_begin..edge_end", n, bound);
      auto viaRange =
          walk_range(w, g.edges(w.n[n], UP), cx, "edges(n)", n, bound);
      auto viaOut =
          walk_range(w, g.out_edges(w.n[n], UP), cx, "out_edges(n)", n, bound);
      if (pairs(viaRange, false) != pairs(out[n], false) ||
          pairs(viaOut, false) != pairs(out[n], false))
        cx.fail("edge-ranges-disagree",
                "node %d: edge_begin..edge_end %s, edges(n) %s, out_edges(n) "
                "%s",
                n, pstr(pairs(out[n], false)).c_str(),
                pstr(pairs(viaRange, false)).c_str(),
                pstr(pairs(viaOut, false)).c_str());
      if constexpr (C::InOut) {
        in[n] = walk(w, g.in_edge_begin(w.n[n], UP), g.in_edge_end(w.n[n], UP),
                     cx, "in_edge_begin..in_edge_end", n, bound);
        auto r = walk_range(w, g.in_edges(w.n[n], UP), cx, "in_edges(n)", n,
                            bound);
        if (pairs(r, false) != pairs(in[n], false))
          cx.fail("edge-ranges-disagree",
                  "node %d: in_edge_begin..in_edge_end %s, in_edges(n) %s", n,
                  pstr(pairs(in[n], false)).c_str(),
                  pstr(pairs(r, false)).c_str());
      } else if constexpr (!C::Directed) {
        // undirected: the in-edge API is documented as the same view
        auto a = walk(w, g.in_edge_begin(w.n[n], UP), g.in_edge_end(w.n[n], UP),
                      cx, "in_edge_begin..in_edge_end", n, bound);
        auto r = walk_range(w, g.in_edges(w.n[n], UP), cx, "in_edges(n)", n,
                            bound);
        if (pairs(a, false) != pairs(out[n], false) ||
            pairs(r, false) != pairs(out[n], false))
          cx.fail("in-edges-differ-from-edges",
                  "undirected node %d: edges %s, in_edge_begin.. %s, "
                  "in_edges(n) %s",
                  n, pstr(pairs(out[n], false)).c_str(),
                  pstr(pairs(a, false)).c_str(), pstr(pairs(r, false)).c_str());
      }
    }
    // 4. structural invariants on the implementation alone
    for (int n : want_nodes) {
      for (auto& e : out[n])
        if (!m.live(e.dst))
          cx.fail("edge-to-removed-node", "edges(%d) yields an edge to node "
                                          "%d which is %s",
                  n, e.dst, m.st[e.dst] == REMOVED ? "removed" : "not added");
      for (auto& e : in[n])
        if (!m.live(e.dst))
          cx.fail("edge-to-removed-node", "in_edges(%d) yields an edge from "
                                          "node %d which is %s",
                  n, e.dst, m.st[e.dst] == REMOVED ? "removed" : "not added");
      if (C::Sorted) {
        std::less<GNode> lt;
        for (size_t k = 1; k < out[n].size(); ++k)
          if (lt(out[n][k].h, out[n][k - 1].h))
            cx.fail("neighbours-not-sorted",
                    "edges(%d) = %s is not ordered by destination handle "
                    "(position %zu)",
                    n, pstr(pairs(out[n], false)).c_str(), k);
        for (size_t k = 1; k < in[n].size(); ++k)
          if (lt(in[n][k].h, in[n][k - 1].h))
            cx.fail("in-neighbours-not-sorted",
                    "in_edges(%d) = %s is not ordered by source handle "
                    "(position %zu)",
                    n, pstr(pairs(in[n], false)).c_str(), k);
      }
    }
    if (!C::Directed || C::InOut) {
      for (int a : want_nodes)
        for (int b : want_nodes) {
          if (!C::Directed && a >= b)
            continue; // unordered pairs; a self loop has no second endpoint
          // entries a->b against the reverse entries stored at b
          const std::vector<Ent>& rev = C::InOut ? in[b] : out[b];
          auto fc = cells_to(out[a], b), rc = cells_to(rev, a);
          auto fd = datas_to(out[a], b), rd = datas_to(rev, a);
          const char* rn = C::InOut ? "in_edges" : "edges";
          if (fc.size() != rc.size())
            cx.fail("reverse-entry-missing",
                    "edges(%d) has %zu entries to %d but %s(%d) has %zu "
                    "entries for %d",
                    a, fc.size(), b, rn, b, rc.size(), a);
          if (C::HasData && fc != rc)
            cx.fail("reverse-entry-cell-not-shared",
                    "the %zu entries %d->%d (data %s) and their reverse "
                    "entries in %s(%d) (data %s) do not refer to the same "
                    "data cells",
                    fc.size(), a, b, istr(fd).c_str(), rn, b,
                    istr(rd).c_str());
          if (fd != rd)
            cx.fail("reverse-entry-data-differs",
                    "entries %d->%d carry %s, reverse entries in %s(%d) "
                    "carry %s",
                    a, b, istr(fd).c_str(), rn, b, istr(rd).c_str());
        }
    }
    // 5. against the model
    for (int n : want_nodes) {
      auto got = pairs(out[n], true), want = m.out(n);
      if (got != want)
        cx.fail("out-edges", "edges(%d) yields (dst:data) %s, reference %s", n,
                pstr(got).c_str(), pstr(want).c_str());
      if (C::InOut) {
        auto gi = pairs(in[n], true), wi = m.in(n);
        if (gi != wi)
          cx.fail("in-edges", "in_edges(%d) yields (src:data) %s, reference "
                              "%s",
                  n, pstr(gi).c_str(), pstr(wi).c_str());
      }
    }
    // 6. point queries for every ordered pair
    for (int i = 0; i < NN; ++i)
      for (int j = 0; j < NN; ++j) {
        auto ds   = m.datas(i, j);
        bool want = m.live(i) && m.live(j) && !ds.empty();
        auto probe = [&](const char* fn, auto it, auto end, GNode wantDst,
                         const std::vector<int>& wd, bool wantFound) {
          bool found = it != end;
          std::string key(fn);
          if (found != wantFound)
            cx.fail(key.c_str(), "%s(%d,%d) %s, reference has %zu such "
                                 "edge(s)",
                    fn, i, j, found ? "finds an edge" : "returns end",
                    wantFound ? wd.size() : (size_t)0);
          if (!found)
            return;
          if (g.getEdgeDst(it) != wantDst)
            cx.fail((key + "-wrong-endpoint").c_str(),
                    "%s(%d,%d) returns an edge whose other endpoint is node "
                    "%d",
                    fn, i, j, idx(w, g.getEdgeDst(it), cx, fn));
          int d = edata(g, it);
          if (C::HasData && !std::binary_search(wd.begin(), wd.end(), d))
            cx.fail((key + "-wrong-data").c_str(),
                    "%s(%d,%d) returns an edge with data %d, reference data "
                    "%s",
                    fn, i, j, d, istr(wd).c_str());
        };
        probe("findEdge", g.findEdge(w.n[i], w.n[j], UP),
              g.edge_end(w.n[i], UP), w.n[j], ds, want);
        if constexpr (C::Sorted)
          probe("findEdgeSortedByDst",
                g.findEdgeSortedByDst(w.n[i], w.n[j], UP),
                g.edge_end(w.n[i], UP), w.n[j], ds, want);
        if constexpr (!C::Directed) {
          probe("findInEdge", g.findInEdge(w.n[i], w.n[j], UP),
                g.in_edge_end(w.n[i], UP), w.n[j], ds, want);
        } else if constexpr (C::InOut && C::Family != SEPINOUT) {
          // MorphGraph (unit-morphgraph-removal): findInEdge(a,b) is the
          // in-edge of a that comes from b, an iterator of in_edges(a)
          auto dr    = m.datas(j, i);
          bool wantr = m.live(i) && m.live(j) && !dr.empty();
          probe("findInEdge", g.findInEdge(w.n[i], w.n[j], UP),
                g.in_edge_end(w.n[i], UP), w.n[j], dr, wantr);
        } else if constexpr (C::InOut && C::Family == SEPINOUT) {
          // Morph_SepInOut_Graph (aig-rewriting): findInEdge(src,dst) is the
          // edge src->dst as an iterator of in_edges(dst)
          probe("findInEdge", g.findInEdge(w.n[i], w.n[j], UP),
                g.in_edge_end(w.n[j], UP), w.n[i], ds, want);
        }
      }
  }

  // ---- deduplication key ----------------------------------------------------
  template <class Vec>
  static void raw_list(World& w, Vec& vec, std::ostringstream& o) {
    for (auto& e : vec) {
      auto* f = e.first();
      auto it = w.id.find(f);
      o << (it == w.id.end() ? -1 : it->second);
      if (e.isInEdge())
        o << "i";
      if (!f->active)
        o << "x"; // stale slot
      else if constexpr (C::HasData)
        o << ":" << (int)*e.second();
      o << ",";
    }
  }
  static std::string key(World* w, const M& m) {
    std::ostringstream o;
    o << "S" << m.st[0] << m.st[1] << m.st[2];
    for (int n = 0; n < NN; ++n) {
      if (!m.live(n))
        continue;
      o << " " << n << "[";
      if (w) {
        raw_list(*w, w->n[n]->edges, o);
        if constexpr (C::Family == SEPINOUT) {
          o << "/";
          raw_list(*w, w->n[n]->in_edges, o);
        }
      } else if (C::Family == SEPINOUT)
        o << "/";
      o << "]";
    }
    return o.str();
  }

  // ---- one operation; false = not enabled in this state ---------------------
  static const std::vector<OpDesc>& ops() {
    return C::HasRemoveInEdge ? OPS_SEP : OPS_BASE;
  }

  static bool step(World& w, M& m, const OpDesc& op, Ctx& cx, bool& removed) {
    G& g    = *w.g;
    cx.self = false;
    int i = op.i, j = op.j, p = 3 * i + j;
    if (op.k == K_ADDNODE) {
      if (m.st[i] != NEVER)
        return false;
      g.addNode(w.n[i], UP);
      m.st[i] = LIVE;
      return true;
    }
    if (op.k == K_RMNODE) {
      g.removeNode(w.n[i], UP);
      if (m.st[i] == LIVE) {
        m.st[i] = REMOVED;
        if (m.remove_incident(i))
          removed = true;
      }
      return true;
    }
    GNode ni = w.n[i], nj = w.n[j];
    cx.self  = i == j;
    if (!m.live(i) || !m.live(j))
      return false;
    auto ds = m.datas(i, j);
    if (op.k == K_ADDEDGE) {
      auto it = g.addEdge(ni, nj, UP);
      if (it == g.edge_end(ni, UP))
        cx.fail("addEdge-returns-end", "addEdge(%d,%d) returned edge_end", i,
                j);
      if (g.getEdgeDst(it) != nj)
        cx.fail("addEdge-wrong-endpoint", "addEdge(%d,%d) returned an edge "
                                          "to node %d",
                i, j, idx(w, g.getEdgeDst(it), cx, "addEdge"));
      if (ds.empty()) {
        int v = 1 + p;
        setdata(g, it, v);
        m.es.push_back({i, j, C::HasData ? v : 0});
      } else if (C::HasData) {
        int d = edata(g, it);
        if (!std::binary_search(ds.begin(), ds.end(), d))
          cx.fail("addEdge-reuse-wrong-data",
                  "addEdge(%d,%d) on an existing edge returned one with data "
                  "%d, reference data %s",
                  i, j, d, istr(ds).c_str());
      }
      return true;
    }
    if (op.k == K_ADDMULTI) {
      int v   = 11 + p;
      auto it = [&]() {
        if constexpr (C::HasData)
          return g.addMultiEdge(ni, nj, UP, v);
        else
          return g.addMultiEdge(ni, nj, UP);
      }();
      if (it == g.edge_end(ni, UP))
        cx.fail("addMultiEdge-returns-end", "addMultiEdge(%d,%d) returned "
                                            "edge_end",
                i, j);
      if (g.getEdgeDst(it) != nj)
        cx.fail("addMultiEdge-wrong-endpoint",
                "addMultiEdge(%d,%d) returned an edge to node %d", i, j,
                idx(w, g.getEdgeDst(it), cx, "addMultiEdge"));
      if (C::HasData && edata(g, it) != v)
        cx.fail("addMultiEdge-wrong-data", "addMultiEdge(%d,%d,%d) returned "
                                           "an edge with data %d",
                i, j, v, edata(g, it));
      m.es.push_back({i, j, C::HasData ? v : 0});
      return true;
    }
    if (ds.empty())
      return false; // the remaining operations need an existing edge
    if (op.k == K_UPDATE) { // through findEdge
      if (!C::HasData)
        return false;
      auto it = g.findEdge(ni, nj, UP);
      if (it == g.edge_end(ni, UP))
        cx.fail("findEdge", "findEdge(%d,%d) returns end, reference has %zu "
                            "such edge(s)",
                i, j, ds.size());
      int d = edata(g, it);
      if (!m.replace_one(i, j, d, d ^ 32))
        cx.fail("findEdge-wrong-data", "findEdge(%d,%d) returns an edge with "
                                       "data %d, reference data %s",
                i, j, d, istr(ds).c_str());
      setdata(g, it, d ^ 32);
      return true;
    }
    if (op.k == K_RMEDGE) { // through findEdge
      auto it = g.findEdge(ni, nj, UP);
      if (it == g.edge_end(ni, UP))
        cx.fail("findEdge", "findEdge(%d,%d) returns end, reference has %zu "
                            "such edge(s)",
                i, j, ds.size());
      int d = edata(g, it);
      if (!m.remove_one(i, j, d))
        cx.fail("findEdge-wrong-data", "findEdge(%d,%d) returns an edge with "
                                       "data %d, reference data %s",
                i, j, d, istr(ds).c_str());
      g.removeEdge(ni, it, UP);
      removed = true;
      return true;
    }
    if constexpr (C::HasRemoveInEdge) { // K_RMINEDGE, through findInEdge
      auto it = g.findInEdge(ni, nj, UP);
      if (it == g.in_edge_end(nj, UP))
        cx.fail("findInEdge", "findInEdge(%d,%d) returns end, reference has "
                              "%zu such edge(s)",
                i, j, ds.size());
      int d = edata(g, it);
      if (!m.remove_one(i, j, d))
        cx.fail("findInEdge-wrong-data",
                "findInEdge(%d,%d) returns an edge with data %d, reference "
                "data %s",
                i, j, d, istr(ds).c_str());
      g.removeInEdge(nj, it, UP);
      removed = true;
      return true;
    }
    return false;
  }

  static std::string run(const std::string& comp, bool startLive,
                         const std::vector<int>& hist) {
    M m;
    if (startLive)
      for (int i = 0; i < NN; ++i)
        m.st[i] = LIVE;
    // seqx evaluates the empty history once in the parent process: answer
    // with the (known) key of the start state instead of starting runtime
    // threads that would not survive fork()
    if (hist.empty() && getpid() == g_main_pid && !g_replay_mode)
      return key(nullptr, m);
    need_runtime();
    Ctx cx;
    cx.comp  = comp;
    cx.after = "construction";
    World w;
    if (startLive)
      for (int i = 0; i < NN; ++i)
        w.g->addNode(w.n[i], UP);
    // The full observable check runs after EVERY step of every history in the
    // sense that matters: BFS only extends histories whose every proper prefix
    // was itself run (and fully checked after its last step) on an earlier
    // level, and check() only reads.  Re-checking the prefixes in each of
    // their ~40^k extensions would find nothing new, so an exploration run
    // checks after its last step; a replay checks after every step.
    if (hist.empty() || g_replay_mode)
      check(w, m, cx);
    bool removed = false;
    for (size_t k = 0; k < hist.size(); ++k) {
      const OpDesc& od = ops().at(hist[k]);
      cx.after = "step " + std::to_string(k + 1) + " " + opname(od);
      if (!step(w, m, od, cx, removed))
        return ""; // not enabled here
      if (k + 1 == hist.size() || g_replay_mode)
        check(w, m, cx);
    }
    if (removed)
      sx::mark_nontrivial();
    // outcome = the shape of the reference state (live set + multiset of
    // endpoint pairs).  Deliberately coarser than the key: seqx counts
    // distinct outcomes in a table of 4M slots, the keys run into millions.
    {
      std::vector<PI> shape;
      for (auto& e : m.es)
        shape.push_back({e.u, e.v});
      std::sort(shape.begin(), shape.end());
      sx::outcome(sx::hash_str(std::to_string(m.st[0] * 9 + m.st[1] * 3 +
                                              m.st[2]) +
                               pstr(shape)));
    }
    return key(&w, m);
  }

  static void add(std::vector<sx::BfsCase>& out, const std::string& comp,
                  int qNone, int tNone, int qLive, int tLive, int wNone,
                  int wLive) {
    for (int live = 0; live < 2; ++live) {
      sx::BfsCase c;
      c.name = comp + (live ? " from 3 added nodes" : " from 3 created nodes");
      c.nops   = (int)ops().size();
      c.opname = [](int i) { return opname(ops().at(i)); };
      c.run    = [comp, live](const std::vector<int>& h) {
        return run(comp, live != 0, h);
      };
      c.quick_depth    = live ? qLive : qNone;
      c.thorough_depth = live ? tLive : tNone;
      c.weight         = live ? wLive : wNone;
      out.push_back(c);
    }
  }
};

using galois::graphs::Morph_SepInOut_Graph;
using galois::graphs::MorphGraph;
using galois::graphs::MorphHyperGraph;

//                    class        edge  dir    inout  nolock sorted family
typedef Cfg<MorphGraph, int, true, false, false, false, MORPH> MDir;
typedef Cfg<MorphGraph, int, true, true, false, false, MORPH> MInOut;
typedef Cfg<MorphGraph, int, false, false, false, false, MORPH> MUndir;
typedef Cfg<MorphGraph, int, true, false, false, true, MORPH> MDirSorted;
typedef Cfg<MorphGraph, int, false, false, false, true, MORPH> MUndirSorted;
typedef Cfg<MorphGraph, int, true, true, false, true, MORPH> MInOutSorted;
typedef Cfg<MorphGraph, int, true, false, true, false, MORPH> MNoLock;
typedef Cfg<MorphGraph, void, true, false, false, false, MORPH> MVoidDir;
typedef Cfg<MorphGraph, void, false, false, false, false, MORPH> MVoidUndir;
typedef Cfg<Morph_SepInOut_Graph, int, true, true, false, false, SEPINOUT>
    SInOut;
typedef Cfg<Morph_SepInOut_Graph, int, true, true, false, true, SEPINOUT>
    SInOutSorted;
typedef Cfg<Morph_SepInOut_Graph, int, false, false, false, false, SEPINOUT>
    SUndir;
typedef Cfg<MorphHyperGraph, int, true, false, false, false, HYPER> HDir;
typedef Cfg<MorphHyperGraph, int, true, true, false, false, HYPER> HInOut;
typedef Cfg<MorphHyperGraph, int, false, false, false, false, HYPER> HUndir;

int main(int argc, char** argv) {
  g_main_pid = getpid();
  for (int i = 1; i < argc; ++i)
    if (std::string(argv[i]) == "--replay")
      g_replay_mode = true;
  setenv("GALOIS_DO_NOT_BIND_THREADS", "1", 1);

  std::vector<sx::BfsCase> bfs;
  std::vector<sx::EnumCase> en;
  // add(.., created-nodes quick/thorough depth, added-nodes quick/thorough
  // depth, created-nodes weight, added-nodes weight).
  // The added-nodes cases grow by a factor of 7..13 per level; the flavours
  // with the smaller state spaces (one entry per edge, or sorted storage) go
  // one level deeper in the thorough tier.  The sorted in/out flavour stays
  // shallower: every removeEdge on a self loop aborts there and costs a
  // worker restart.  Weights are proportional to the measured cost (seqx
  // splits --deadline by weight).
  const int QN = 4, TN = 7, QL = 4;
  Runner<MDir>::add(bfs, "MorphGraph<int,int,directed>", QN, TN, QL, 6, 4, 24);
  Runner<MInOut>::add(bfs, "MorphGraph<int,int,directed,in/out>", QN, TN, QL,
                      5, 8, 15);
  Runner<MUndir>::add(bfs, "MorphGraph<int,int,undirected>", QN, TN, QL, 5, 10,
                      17);
  Runner<MDirSorted>::add(bfs, "MorphGraph<int,int,directed,sorted>", QN, TN,
                          QL, 6, 4, 8);
  Runner<MUndirSorted>::add(bfs, "MorphGraph<int,int,undirected,sorted>", QN,
                            TN, QL, 6, 4, 15);
  Runner<MInOutSorted>::add(bfs, "MorphGraph<int,int,directed,in/out,sorted>",
                            QN, 6, 3, 4, 8, 8);
  Runner<MNoLock>::add(bfs, "MorphGraph<int,int,directed,no-lockable>", QN, TN,
                       QL, 5, 2, 3);
  Runner<MVoidDir>::add(bfs, "MorphGraph<int,void,directed>", QN, TN, QL, 6, 2,
                        2);
  Runner<MVoidUndir>::add(bfs, "MorphGraph<int,void,undirected>", QN, TN, QL,
                          6, 2, 2);
  Runner<SInOut>::add(bfs, "Morph_SepInOut_Graph<int,int,directed,in/out>", QN,
                      TN, QL, 5, 4, 8);
  Runner<SInOutSorted>::add(
      bfs, "Morph_SepInOut_Graph<int,int,directed,in/out,sorted>", QN, TN, QL,
      5, 4, 3);
  Runner<SUndir>::add(bfs, "Morph_SepInOut_Graph<int,int,undirected>", QN, TN,
                      QL, 5, 6, 12);
  Runner<HDir>::add(bfs, "MorphHyperGraph<int,int,directed>", QN, TN, 3, 5, 4,
                    4);
  Runner<HInOut>::add(bfs, "MorphHyperGraph<int,int,directed,in/out>", QN, TN,
                      3, 5, 6, 12);
  Runner<HUndir>::add(bfs, "MorphHyperGraph<int,int,undirected>", QN, TN, 3, 5,
                      4, 8);
  return sx::sx_main(argc, argv, "C10", bfs, en);
}

// Fake MPI for engine E3 (DESIGN.md section 4): the dozen entry points that
// libdist's NetworkBuffered.cpp / NetworkIOMPI.cpp / Network.cpp / Barrier.cpp
// call, implemented in the harness on top of an in-process reflector.
#ifndef VERIF_FAKE_MPI_H
#define VERIF_FAKE_MPI_H
#ifdef __cplusplus
extern "C" {
#endif
typedef int MPI_Comm;
typedef int MPI_Datatype;
typedef int MPI_Request;
typedef struct {
  int MPI_SOURCE;
  int MPI_TAG;
  int MPI_ERROR;
  int vf_count;
} MPI_Status;
#define MPI_COMM_WORLD 0
#define MPI_BYTE 1
#define MPI_SUCCESS 0
#define MPI_ANY_SOURCE (-1)
#define MPI_ANY_TAG (-1)
#define MPI_THREAD_MULTIPLE 3
#define MPI_STATUS_IGNORE ((MPI_Status*)0)
int MPI_Init_thread(int*, char***, int required, int* provided);
int MPI_Finalize(void);
int MPI_Abort(MPI_Comm, int);
int MPI_Comm_rank(MPI_Comm, int*);
int MPI_Comm_size(MPI_Comm, int*);
int MPI_Isend(const void*, int, MPI_Datatype, int dest, int tag, MPI_Comm,
              MPI_Request*);
int MPI_Issend(const void*, int, MPI_Datatype, int dest, int tag, MPI_Comm,
               MPI_Request*);
int MPI_Iprobe(int source, int tag, MPI_Comm, int* flag, MPI_Status*);
int MPI_Get_count(const MPI_Status*, MPI_Datatype, int* count);
int MPI_Irecv(void*, int, MPI_Datatype, int source, int tag, MPI_Comm,
              MPI_Request*);
int MPI_Test(MPI_Request*, int* flag, MPI_Status*);
int MPI_Barrier(MPI_Comm);
#ifdef __cplusplus
}
#endif
#endif

// C11: static (local-computation) graphs present exactly the input graph, in
// every layout and view.  Engine E2 (seqx input enumeration).  DESIGN.md 7/C11.
//
// Inputs.  EVERY directed multigraph with n <= 3 nodes and m <= 4 edges given
// as an ORDERED edge list (quick tier: m <= 3; 7381 + 347 = 7728 graphs,
// quick 910), written to a binary .gr file by the harness's own encoder
// (gr_format.h, versions 1 and 2), crossed with the edge data types void /
// uint32_t / uint64_t / a 12-byte POD and T = 1..4 active threads (quick tier:
// for T >= 3 only void and the POD); plus a fixed structured family (paths,
// stars, cliques, skewed degrees at the head and at the tail of the node
// range, isolated heads/tails, parallel edges, a scrambled edge list; up to
// 3000 nodes) for the thread-range / division code.  The edge data of edge #i
// of the list is an injective, non-monotone function of i.
//
// Subjects.  FileGraph (the reader under every file builder), LC_CSR_Graph,
// LC_CSR_CSC_Graph, LC_InOut_Graph<LC_CSR_Graph | LC_Linear_Graph>,
// LC_Linear_Graph, LC_InlineEdge_Graph, LC_Morph_Graph, LC_Adaptor_Graph, with
// the options numa-blocked / no_lockable / out_of_line_lockable /
// compressed_node_ptr / in-edge data by value or by reference, built by
// readGraph(filename), readGraph(FileGraph&), readGraphFromGRFile,
// readAndConstructBiGraphFromGRFile, constructFrom(vectors),
// allocateFrom+constructNodes+constructEdge+fixEndEdge, allocateFrom +
// constructNodesFrom + constructEdgesFrom, createNode+addMultiEdge, and
// user-supplied arrays (adaptor).
//
// Oracle.  An independent reference (c11_common.h): node count; per node the
// out-edge SEQUENCE in file order for LC_CSR / LC_CSR_CSC / LC_InOut<LC_CSR> /
// LC_Adaptor-over-CSR (CSR is file order by construction), the out-edge
// MULTISET for LC_Linear / LC_InlineEdge / LC_Morph (their headers promise no
// order); in-edges = transposed multiset with the same data; transpose() and
// transpose() twice; sort*: sorted permutations of the same multiset; findEdge
// / findEdgeSortedByDst: exact membership for every (src,dst); getDegree /
// getInDegree / prefix sums; local_begin..local_end over all threads, the
// graph's divideByNode and determineUnitRangesFromGraph partition the nodes.
//
// Non-trivial run := the graph has at least two nodes and at least two edges
// (then per-node order, the CSR prefix sum, the slot claiming of transpose /
// constructIncomingEdges and the division of nodes among threads all have more
// than one possible wrong answer); for the unit-range case additionally at
// least two units.  The outcome hash is the observed adjacency (+T, +E).
//
// Keys are "<layout[<options>]>:<builder or view>:<symptom>".  Operations that
// are known to kill the process are isolated (own cases, probed in a forked
// child or with an in-place fault guard, see c11_common.h) so that they are
// reported under their own key and the worker survives.
#include "c11_common.h"

using namespace c11;

// ===========================================================================
// Input enumeration
// ===========================================================================
static int small_maxm(bool thorough) { return thorough ? 4 : 3; }

static uint64_t small_count_n(uint64_t n, int maxm) {
  if (n == 0)
    return 1;
  uint64_t s = 0, p = 1;
  for (int m = 0; m <= maxm; ++m) {
    s += p;
    p *= n * n;
  }
  return s;
}
static uint64_t small_count(int maxm) {
  uint64_t s = 0;
  for (uint64_t n = 0; n <= 3; ++n)
    s += small_count_n(n, maxm);
  return s;
}
// simplest first: n ascending, then m ascending
static Ref small_decode(uint64_t gi, int maxm) {
  for (uint64_t n = 0; n <= 3; ++n) {
    uint64_t c = small_count_n(n, maxm);
    if (gi >= c) {
      gi -= c;
      continue;
    }
    std::vector<grf::Edge> el;
    uint64_t p = 1;
    for (int m = 0; m <= maxm; ++m) {
      if (gi < p) {
        for (int k = 0; k < m; ++k) {
          uint64_t code = gi % (n * n);
          gi /= (n * n);
          el.push_back(grf::Edge(code / n, code % n));
        }
        return make_ref(n, el);
      }
      gi -= p;
      p *= n * n;
    }
  }
  abort();
}

// The structured family (fixed, deterministic).
static std::vector<Ref> build_family() {
  std::vector<Ref> F;
  auto add = [&](const std::string& name, uint64_t n,
                 std::vector<grf::Edge> el) {
    F.push_back(make_ref(n, std::move(el), name));
  };
  for (uint64_t n : {1, 5, 1000, 3000})
    add("isolated" + std::to_string(n), n, {});
  for (uint64_t n : {2, 17, 1000, 3000}) {
    std::vector<grf::Edge> el;
    for (uint64_t i = 0; i + 1 < n; ++i)
      el.push_back(grf::Edge(i, i + 1));
    add("path" + std::to_string(n), n, el);
  }
  for (uint64_t n : {64, 3000}) { // hub 0 -> all, descending destinations
    std::vector<grf::Edge> el;
    for (uint64_t i = n; i-- > 0;)
      el.push_back(grf::Edge(0, i));
    add("outstar" + std::to_string(n), n, el);
  }
  for (uint64_t n : {64, 3000}) { // all -> hub 0
    std::vector<grf::Edge> el;
    for (uint64_t i = 0; i < n; ++i)
      el.push_back(grf::Edge(i, 0));
    add("instar" + std::to_string(n), n, el);
  }
  { // the LAST node is the hub, in both directions
    uint64_t n = 1000;
    std::vector<grf::Edge> el;
    for (uint64_t i = 0; i < n; ++i) {
      el.push_back(grf::Edge(n - 1, (i * 7) % n));
      el.push_back(grf::Edge(i, n - 1));
    }
    add("hublast1000", n, el);
  }
  for (uint64_t k : {8, 40}) { // complete digraph with self loops, rotated
    std::vector<grf::Edge> el;
    for (uint64_t u = 0; u < k; ++u)
      for (uint64_t j = 0; j < k; ++j)
        el.push_back(grf::Edge(u, (u + 1 + j * 3) % k));
    add("clique" + std::to_string(k), k, el);
  }
  for (uint64_t n : {257, 2000}) { // harmonic out-degrees, parallel edges
    std::vector<grf::Edge> el;
    for (uint64_t i = 0; i < n; ++i) {
      uint64_t d = std::min<uint64_t>(n / (i + 1), 600);
      for (uint64_t j = 0; j < d; ++j)
        el.push_back(grf::Edge(i, (i * 7 + j * j * 3 + 1) % n));
    }
    add("skewed" + std::to_string(n), n, el);
  }
  { // skew at the END of the node range
    uint64_t n = 1500;
    std::vector<grf::Edge> el;
    for (uint64_t i = 0; i < n; ++i) {
      uint64_t d = std::min<uint64_t>(n / (n - i), 500);
      for (uint64_t j = 0; j < d; ++j)
        el.push_back(grf::Edge(i, (i + j * 11 + 5) % n));
    }
    add("skewedtail1500", n, el);
  }
  { // second half isolated / first half isolated
    uint64_t n = 1000;
    std::vector<grf::Edge> a, b;
    for (uint64_t i = 0; i < n / 2; ++i) {
      a.push_back(grf::Edge(i, (i * 3 + 1) % (n / 2)));
      a.push_back(grf::Edge(i, i));
      b.push_back(grf::Edge(n / 2 + i, n / 2 + (i * 5 + 2) % (n / 2)));
      b.push_back(grf::Edge(n / 2 + i, i)); // into the isolated half
    }
    add("tailisolated1000", n, a);
    add("headisolated1000", n, b);
  }
  { // parallel edges and self loops everywhere
    uint64_t n = 500;
    std::vector<grf::Edge> el;
    for (uint64_t i = 0; i < n; ++i) {
      for (int k = 0; k < 3; ++k)
        el.push_back(grf::Edge(i, (i + 1) % n));
      for (int k = 0; k < 2; ++k)
        el.push_back(grf::Edge(i, i));
    }
    add("multi500", n, el);
  }
  { // 3-regular, edge list in scrambled order
    uint64_t n = 1024, m = 3 * n;
    std::vector<grf::Edge> el;
    for (uint64_t k = 0; k < m; ++k) {
      uint64_t e = (k * 1571) % m; // 1571 is coprime to 3072
      uint64_t u = e / 3, j = e % 3;
      el.push_back(grf::Edge(u, (u * 5 + j * 341 + 1) % n));
    }
    add("scrambled1024", n, el);
  }
  return F;
}
static const std::vector<Ref>& family() {
  static std::vector<Ref> F = build_family();
  return F;
}

// ===========================================================================
// Run context
// ===========================================================================
struct Ctx {
  const Ref& r;
  int T;          // requested active threads
  const char* en; // edge type name
  bool thorough;
  std::string str() const {
    return ref_str(r) + " E=" + en + " T=" + std::to_string(T);
  }
};

static void finish_run(const Ctx& c, const Adj& observed) {
  if (c.r.n >= 2 && c.r.m >= 2)
    sx::mark_nontrivial();
  sx::outcome(sx::mix(adj_hash(observed), (uint64_t)c.T * 131 + c.en[0]));
}

// ===========================================================================
// FileGraph: the reader underneath every file-based builder
// ===========================================================================
// Returns "" if FileGraph presents exactly the encoded graph, else
// "symptom|message".
template <class E>
static std::string filegraph_diff(const std::string& path, const grf::Csr& c) {
  gg::FileGraph f;
  f.fromFile(path);
  char buf[400];
  if (f.size() != c.n || f.sizeEdges() != c.m) {
    snprintf(buf, sizeof buf, "wrong-size|%zu nodes %zu edges, expected %llu %llu",
             f.size(), f.sizeEdges(), (unsigned long long)c.n,
             (unsigned long long)c.m);
    return buf;
  }
  if (f.edgeSize() != EV<E>::size) {
    snprintf(buf, sizeof buf, "wrong-edge-size|edgeSize()=%zu", f.edgeSize());
    return buf;
  }
  // getEdgeData() asserts / dereferences this pointer
  if (EV<E>::size && c.m && !f.edgeData)
    return "edge-data-missing|the file has edge data but FileGraph found none "
           "(edgeData == nullptr; getEdgeData() asserts, or dereferences "
           "null with NDEBUG)";
  uint64_t u = 0;
  for (auto it = f.begin(); it != f.end(); ++it, ++u) {
    if (*it != u)
      return "wrong-node-ids|node iterator is not 0..n-1";
    if (*f.edge_begin(u) != c.begin(u) || *f.edge_end(u) != c.end(u)) {
      snprintf(buf, sizeof buf,
               "wrong-edge-range|node %llu: [%llu,%llu) expected [%llu,%llu)",
               (unsigned long long)u, (unsigned long long)*f.edge_begin(u),
               (unsigned long long)*f.edge_end(u),
               (unsigned long long)c.begin(u), (unsigned long long)c.end(u));
      return buf;
    }
    for (auto e = f.edge_begin(u); e != f.edge_end(u); ++e) {
      if (f.getEdgeDst(e) != c.dst[*e]) {
        snprintf(buf, sizeof buf,
                 "wrong-destination|edge %llu of node %llu leads to %llu, "
                 "expected %llu",
                 (unsigned long long)*e, (unsigned long long)u,
                 (unsigned long long)f.getEdgeDst(e),
                 (unsigned long long)c.dst[*e]);
        return buf;
      }
      if constexpr (!std::is_void<E>::value) {
        Canon got = EV<E>::canon(f.template getEdgeData<E>(e));
        Canon want = EV<E>::canon_of(c.orig[*e]);
        if (got != want) {
          snprintf(buf, sizeof buf,
                   "wrong-edge-data|edge %llu (%llu->%llu) has data "
                   "%x.%x.%x, the file says %x.%x.%x",
                   (unsigned long long)*e, (unsigned long long)u,
                   (unsigned long long)c.dst[*e], got[0], got[1], got[2],
                   want[0], want[1], want[2]);
          return buf;
        }
      }
    }
  }
  if (u != c.n)
    return "wrong-node-ids|node iterator yields a different number of nodes";
  return "";
}

template <class E>
static void filegraph_run(const Ctx& c) {
  Files<E> files(c.r);
  for (int ver = 1; ver <= 2; ++ver) {
    std::string d = filegraph_diff<E>(files.fwd(ver), c.r.csr);
    if (!d.empty()) {
      size_t bar = d.find('|');
      fail("FileGraph:fromFile-v" + std::to_string(ver) + ":" +
               d.substr(0, bar),
           "%s version %d: %s", c.str().c_str(), ver,
           d.substr(bar + 1).c_str());
    }
    // fromFileInterleaved (what readGraph uses) must agree with fromFile
    gg::FileGraph f;
    f.fromFileInterleaved<E>(files.fwd(ver));
    if (f.size() != c.r.n || f.sizeEdges() != c.r.m)
      fail("FileGraph:fromFileInterleaved:wrong-size", "%s version %d",
           c.str().c_str(), ver);
  }
  finish_run(c, expect_adj<E>(c.r.csr));
}

// Can file version `ver` of this graph be used to test a layout?  Not if the
// FileGraph layer itself misreads it: that is reported once, by the FileGraph
// case, and every builder on top of FileGraph would only repeat it.
template <class E>
static bool usable(Files<E>& files, int ver, bool transposed = false) {
  int& memo = files.ok[transposed ? 1 : 0][ver];
  if (memo < 0)
    memo = filegraph_diff<E>(transposed ? files.tr(ver) : files.fwd(ver),
                             transposed ? files.r.tcsr : files.r.csr)
               .empty();
  return memo != 0;
}

// readGraph(g, filename) goes through FileGraph::fromFileInterleaved, which
// wakes the WHOLE pool (4 threads here) whatever T is; readGraph(g, FileGraph&)
// is the same builder minus that page-touching pass.  by_name is used for the
// first (default-option) build of each layout, the documented FileGraph&
// overload for the option variants and the version-2 files.
template <class G>
static void load(G& g, const std::string& path, bool by_name) {
  if (by_name) {
    gg::readGraph(g, path);
  } else {
    gg::FileGraph f;
    f.fromFile(path);
    gg::readGraph(g, f);
  }
}
template <class G>
static void load2(G& g, const std::string& p1, const std::string& p2,
                  bool by_name) {
  if (by_name) {
    gg::readGraph(g, p1, p2);
  } else {
    gg::FileGraph f1, f2;
    f1.fromFile(p1);
    f2.fromFile(p2);
    gg::readGraph(g, f1, f2);
  }
}

// ===========================================================================
// LC_CSR_Graph
// ===========================================================================
template <class G>
static void csr_ids_are_file_ids(const std::string& K, const NodeMap<G>& nm,
                                 const std::string& ctx) {
  for (size_t i = 0; i < nm.nodes.size(); ++i)
    if ((uint64_t)nm.nodes[i] != i)
      fail(K + ":node-ids-not-0..n-1", "%s: node #%zu is %llu", ctx.c_str(), i,
           (unsigned long long)nm.nodes[i]);
}

// Everything that does not modify the graph.  check_data=false for the
// readUnweighted builder.
template <class E, class G>
static Adj csr_static(const std::string& K, G& g, const Ctx& c,
                      bool check_data = true, bool ranges = true) {
  const Ref& r    = c.r;
  std::string ctx = c.str();
  if (g.size() != r.n)
    fail(K + ":wrong-node-count", "%s: size()=%zu", ctx.c_str(), g.size());
  if (g.sizeEdges() != r.m)
    fail(K + ":wrong-edge-count", "%s: sizeEdges()=%zu", ctx.c_str(),
         g.sizeEdges());
  NodeMap<G> nm = positional_map(K, g, r.n, ctx);
  csr_ids_are_file_ids(K, nm, ctx);
  Adj got  = dump_out<E>(K, g, nm, r.m);
  Adj want = expect_adj<E>(r.csr);
  if (check_data)
    compare_adj(K, "out-edges", got, want, true, ctx);
  else
    compare_adj(K, "out-edges", strip_data(got), strip_data(want), true, ctx);
  for (uint64_t u = 0; u < r.n; ++u) {
    uint64_t k1 = 0, k2 = 0;
    for (auto e : g.edges(u)) {
      (void)e;
      ++k1;
    }
    for (auto e : g.out_edges(u)) {
      (void)e;
      ++k2;
    }
    if (k1 != r.outdeg(u) || k2 != r.outdeg(u))
      fail(K + ":edges()-range-wrong-length", "%s: node %llu: %llu/%llu",
           ctx.c_str(), (unsigned long long)u, (unsigned long long)k1,
           (unsigned long long)k2);
    if (g.getDegree(u) != r.outdeg(u))
      fail(K + ":getDegree-wrong", "%s: node %llu: %llu expected %llu",
           ctx.c_str(), (unsigned long long)u,
           (unsigned long long)g.getDegree(u),
           (unsigned long long)r.outdeg(u));
    if (g[u] != r.csr.end(u) || g.getEdgePrefixSum()[u] != r.csr.end(u))
      fail(K + ":prefix-sum-wrong", "%s: node %llu: %llu expected %llu",
           ctx.c_str(), (unsigned long long)u, (unsigned long long)g[u],
           (unsigned long long)r.csr.end(u));
  }
  for (auto& q : query_pairs(r)) {
    auto e   = g.findEdge(q.first, q.second);
    bool in  = *e >= r.csr.begin(q.first) && *e < r.csr.end(q.first);
    bool hit = in && g.getEdgeDst(e) == q.second;
    bool ok  = has_edge(r, q.first, q.second) ? hit
                                              : e == g.edge_end(q.first);
    if (!ok)
      fail(K + ":findEdge-wrong-answer", "%s: findEdge(%llu,%llu) -> edge %llu",
           ctx.c_str(), (unsigned long long)q.first,
           (unsigned long long)q.second, (unsigned long long)*e);
  }
  if (ranges) {
    check_local_ranges(K, g, nm, ctx);
    // the graph's own edge-balanced division (what initializeLocalRanges uses)
    for (unsigned total = 1; total <= 4; ++total) {
      uint64_t cur = 0;
      for (unsigned id = 0; id < total; ++id) {
        auto nr     = g.divideByNode(0, 1, id, total).first;
        uint64_t lo = *nr.first, hi = *nr.second;
        if (lo == hi)
          continue;
        if (lo != cur || hi < lo || hi > r.n)
          fail(K + ":divideByNode-not-a-partition",
               "%s: part %u of %u is [%llu,%llu), expected to start at %llu",
               ctx.c_str(), id, total, (unsigned long long)lo,
               (unsigned long long)hi, (unsigned long long)cur);
        cur = hi;
      }
      if (cur != r.n)
        fail(K + ":divideByNode-not-a-partition",
             "%s: %u parts cover only %llu nodes", ctx.c_str(), total,
             (unsigned long long)cur);
    }
  }
  return got;
}

template <class E, class G>
static Adj csr_dump(const std::string& K, G& g, const Ctx& c) {
  std::string ctx = c.str();
  NodeMap<G> nm   = positional_map(K, g, c.r.n, ctx);
  return dump_out<E>(K, g, nm, c.r.m);
}

// Views that permute the edges (sorts) or replace the graph (transpose).
template <class E, class G>
static void csr_views(const std::string& L, G& g, const Ctx& c) {
  std::string ctx = c.str();
  const Ref& r    = c.r;
  Adj want        = expect_adj<E>(r.csr);
  Adj wantT       = expect_adj<E>(r.tcsr);
  if constexpr (!std::is_void<E>::value) {
    for (uint64_t u = 0; u < r.n; ++u)
      g.sortEdgesByEdgeData(u, typename EV<E>::Less());
    Adj got = csr_dump<E>(L + ":sortEdgesByEdgeData", g, c);
    compare_adj(L + ":sortEdgesByEdgeData", "out-edges", got, want, false, ctx);
    check_sorted_by_data(L + ":sortEdgesByEdgeData", got, ctx);
  }
  {
    for (uint64_t u = 0; u < r.n; ++u)
      g.sortEdgesByDst(u);
    Adj got = csr_dump<E>(L + ":sortEdgesByDst", g, c);
    compare_adj(L + ":sortEdgesByDst", "out-edges", got, want, false, ctx);
    check_sorted_by_dst(L + ":sortEdgesByDst", got, ctx);
  }
  if constexpr (!std::is_void<E>::value) { // scramble again
    for (uint64_t u = 0; u < r.n; ++u)
      g.sortEdgesByEdgeData(u, typename EV<E>::Less());
  }
  {
    g.sortAllEdgesByDst();
    Adj got = csr_dump<E>(L + ":sortAllEdgesByDst", g, c);
    compare_adj(L + ":sortAllEdgesByDst", "out-edges", got, want, false, ctx);
    check_sorted_by_dst(L + ":sortAllEdgesByDst", got, ctx);
  }
  {
    g.transpose();
    if (g.size() != r.n || g.sizeEdges() != r.m)
      fail(L + ":transpose:wrong-size", "%s", ctx.c_str());
    Adj got = csr_dump<E>(L + ":transpose", g, c);
    compare_adj(L + ":transpose", "out-edges", got, wantT, false, ctx);
    for (uint64_t u = 0; u < r.n; ++u)
      if (g.getDegree(u) != r.indeg(u))
        fail(L + ":transpose:getDegree-wrong", "%s: node %llu", ctx.c_str(),
             (unsigned long long)u);
    g.transpose();
    got = csr_dump<E>(L + ":transpose-twice", g, c);
    compare_adj(L + ":transpose-twice", "out-edges", got, want, false, ctx);
  }
}

template <class E, class G>
static void csr_build_manual(G& g, const Ref& r) {
  g.allocateFrom((uint32_t)r.n, r.m);
  g.constructNodes();
  for (uint64_t u = 0; u < r.n; ++u) {
    for (uint64_t p = r.csr.begin(u); p < r.csr.end(u); ++p) {
      if constexpr (std::is_void<E>::value)
        g.constructEdge(p, (uint32_t)r.csr.dst[p]);
      else
        g.constructEdge(p, (uint32_t)r.csr.dst[p],
                        EV<E>::make(r.csr.orig[p]));
    }
    g.fixEndEdge((uint32_t)u, r.csr.end(u));
  }
  g.initializeLocalRanges();
}

enum { B_VIEWS = 1, B_V2 = 2, B_ALL = 4, B_NAME = 8 };

template <class E, class G>
static void csr_layout(const std::string& L, const Ctx& c, Files<E>& files,
                       unsigned what, Adj* observed) {
  const Ref& r = c.r;
  {
    G g;
    load(g, files.fwd(1), (what & B_NAME) != 0);
    Adj a = csr_static<E>(L + ":readGraph", g, c);
    if (observed)
      *observed = a;
    if (what & B_VIEWS)
      csr_views<E>(L, g, c);
  }
  if ((what & B_V2) && usable(files, 2)) {
    G g;
    load(g, files.fwd(2), false);
    csr_static<E>(L + ":readGraph-v2", g, c);
  }
  if (!(what & B_ALL))
    return;
  { // allocateFrom + constructNodes + constructEdge + fixEndEdge
    G g;
    csr_build_manual<E>(g, r);
    csr_static<E>(L + ":constructEdge", g, c);
  }
  if constexpr (!std::is_void<E>::value) {
    std::vector<uint64_t> prefix(r.csr.outIdx);
    std::vector<std::vector<uint32_t>> ids(r.n);
    galois::gstl::Vector<galois::PODResizeableArray<uint32_t>> ids2(r.n);
    std::vector<std::vector<E>> data(r.n);
    for (uint64_t u = 0; u < r.n; ++u)
      for (uint64_t p = r.csr.begin(u); p < r.csr.end(u); ++p) {
        ids[u].push_back((uint32_t)r.csr.dst[p]);
        ids2[u].push_back((uint32_t)r.csr.dst[p]);
        data[u].push_back(EV<E>::make(r.csr.orig[p]));
      }
    {
      G g;
      g.constructFrom((uint32_t)r.n, r.m, prefix, ids, data);
      csr_static<E>(L + ":constructFrom(vectors)", g, c);
      // documented as reusable ("Deallocate if reusing the graph")
      g.constructFrom((uint32_t)r.n, r.m, prefix, ids, data);
      csr_static<E>(L + ":constructFrom(vectors)-reuse", g, c);
    }
    {
      G g;
      g.constructFrom((uint32_t)r.n, r.m, prefix, ids2, data);
      csr_static<E>(L + ":constructFrom(PODResizeableArray)", g, c);
    }
  }
  { // readUnweighted: structure only
    G g;
    gg::readGraph(g, files.fwd(1), true);
    csr_static<E>(L + ":readGraph(readUnweighted)", g, c, false);
  }
}

// Cost model.  A Galois parallel region with sleeping pool threads costs
// 0.02 (T = 2) to 0.1 ms (T = 4) on an idle machine and milliseconds on a busy
// one, and transpose() alone is ~16 regions.  For the enumerated small graphs
// the FULL programme (every builder, every view) therefore runs with T = 1 and
// T = 2 (quick tier, T = 2: only for the edge types void and pod12, the two
// extremes of the edge record size); in the other configurations each layout
// is built by readGraph (the per-thread constructFrom, whose node division is
// what depends on T) and gets the non-modifying checks incl. the local ranges.
// The structured family runs the full programme in every configuration.
static bool full_programme(const Ctx& c) {
  if (!c.r.small() || c.T == 1)
    return true;
  if (c.T == 2)
    return c.thorough || c.en[0] == 'v' || c.en[0] == 'p';
  return false;
}

// Default layout: every builder, every view.  NUMA-blocked: file builders and
// every view (transpose allocates blocked).  The lockable options change the
// node record size, i.e. the weights of the per-thread division: readGraph only.
template <class E>
static void csr_run(const Ctx& c) {
  Files<E> files(c.r);
  Adj obs;
  bool full = full_programme(c);
  typedef gg::LC_CSR_Graph<int, E> G0;
  csr_layout<E, G0>("LC_CSR_Graph", c, files,
                    B_NAME | (full ? B_VIEWS | B_V2 | B_ALL : B_V2), &obs);
  csr_layout<E, typename G0::template with_numa_alloc<true>::type>(
      "LC_CSR_Graph<numa>", c, files, full ? B_VIEWS | B_V2 : 0, nullptr);
  csr_layout<E, typename G0::template with_no_lockable<true>::type>(
      "LC_CSR_Graph<no_lockable>", c, files, 0, nullptr);
  csr_layout<E, typename G0::template with_out_of_line_lockable<true>::type>(
      "LC_CSR_Graph<out_of_line_lockable>", c, files, 0, nullptr);
  finish_run(c, obs);
}

// --- findEdgeSortedByDst (own case: see the findings) ----------------------
template <class E>
static void csr_fesbd_run(const Ctx& c) {
  Files<E> files(c.r);
  typedef gg::LC_CSR_Graph<int, E> G;
  const std::string K = "LC_CSR_Graph:findEdgeSortedByDst";
  G g;
  gg::readGraph(g, files.fwd(1));
  g.sortAllEdgesByDst();
  const Ref& r = c.r;
  auto pairs   = query_pairs(r);
  uint64_t h   = 0;
  Deferred df;
  guarded_calls_inline(
      pairs.size(),
      [&](size_t i, bool check) {
        auto& q = pairs[i];
        auto e  = g.findEdgeSortedByDst(q.first, q.second);
        if (!check)
          return;
        bool in  = *e >= r.csr.begin(q.first) && *e < r.csr.end(q.first);
        bool hit = in && g.getEdgeDst(e) == q.second;
        bool ok  = has_edge(r, q.first, q.second) ? hit
                                                  : e == g.edge_end(q.first);
        if (!ok)
          fail(K + ":wrong-answer",
               "%s: findEdgeSortedByDst(%llu,%llu) -> edge %llu",
               c.str().c_str(), (unsigned long long)q.first,
               (unsigned long long)q.second, (unsigned long long)*e);
        h = sx::mix(h, hit);
      },
      [&](size_t) { return K + ":crash"; },
      [&](size_t i, const std::string& how) {
        df.run([&]() {
          fail(K + ":crash",
               "%s: findEdgeSortedByDst(%llu,%llu) on the dst-sorted graph "
               "kills the process: %s",
               c.str().c_str(), (unsigned long long)pairs[i].first,
               (unsigned long long)pairs[i].second, how.c_str());
        });
      });
  df.rethrow();
  if (r.n >= 2 && r.m >= 2)
    sx::mark_nontrivial();
  sx::outcome(h);
}

// --- determineUnitRangesFromGraph (the thread ranges of the graph) ---------
template <class E>
static void csr_units_run(const Ctx& c) {
  Files<E> files(c.r);
  typedef gg::LC_CSR_Graph<int, E> G;
  const std::string K = "determineUnitRangesFromGraph(LC_CSR_Graph)";
  G g;
  gg::readGraph(g, files.fwd(1));
  // units = T for the enumerated graphs; the structured family (at T = 1, the
  // function does not depend on the active threads) also with 7, 64 and n+1.
  struct Call {
    uint32_t units, alpha, b, e;
    bool clipped;
  };
  std::vector<Call> calls;
  std::vector<uint32_t> unitsList = {(uint32_t)c.T};
  if (!c.r.name.empty() && c.T == 1) {
    unitsList.push_back(7);
    unitsList.push_back(64);
    unitsList.push_back((uint32_t)c.r.n + 1);
  }
  for (uint32_t units : unitsList)
    for (uint32_t alpha : {0u, 1u})
      calls.push_back(Call{units, alpha, 0, (uint32_t)c.r.n, false});
  if (c.r.name.empty()) {
    // enumerated graphs: clipped to every non-empty proper sub-range
    for (uint32_t b = 0; b < c.r.n; ++b)
      for (uint32_t e = b + 1; e <= c.r.n; ++e)
        if (!(b == 0 && e == c.r.n))
          calls.push_back(Call{(uint32_t)c.T, (b + e) % 2, b, e, true});
  } else if (c.T == 1) {
    // family: a few sub-ranges
    for (uint32_t units : {3u, 16u}) {
      uint32_t n = (uint32_t)c.r.n;
      calls.push_back(Call{units, 0, n / 3, n, true});
      calls.push_back(Call{units, 1, 0, n / 2, true});
      calls.push_back(Call{units, 0, n / 4, n / 4 + 1, true});
    }
  }
  auto ctx_of = [&](const Call& k) {
    return c.str() + " units=" + std::to_string(k.units) +
           " nodeAlpha=" + std::to_string(k.alpha) +
           (k.clipped ? " range=[" + std::to_string(k.b) + "," +
                            std::to_string(k.e) + ")"
                      : std::string());
  };
  uint64_t h = 0;
  Deferred df;
  guarded_calls_inline(
      calls.size(),
      [&](size_t i, bool check) {
        const Call& k = calls[i];
        std::vector<uint32_t> v =
            k.clipped ? gg::determineUnitRangesFromGraph(g, k.units, k.b, k.e,
                                                         k.alpha)
                      : gg::determineUnitRangesFromGraph(g, k.units, k.alpha);
        if (!check)
          return;
        std::ostringstream o;
        for (size_t j = 0; j < v.size() && j < 24; ++j)
          o << v[j] << " ";
        bool ok = v.size() == (size_t)k.units + 1 && v.front() == k.b &&
                  v.back() == k.e;
        for (size_t j = 1; ok && j < v.size(); ++j)
          ok = v[j - 1] <= v[j];
        if (!ok)
          fail(K + (k.clipped ? "-clipped" : "") + ":not-a-partition",
               "%s: boundaries %s", ctx_of(k).c_str(), o.str().c_str());
        for (auto x : v)
          h = sx::mix(h, x);
      },
      [&](size_t i) {
        return K + (calls[i].clipped ? "-clipped" : "") + ":crash";
      },
      [&](size_t i, const std::string& how) {
        df.run([&]() {
          fail(K + (calls[i].clipped ? "-clipped" : "") + ":crash", "%s: %s",
               ctx_of(calls[i]).c_str(), how.c_str());
        });
      });
  df.rethrow();
  if (c.r.n >= 2 && c.r.m >= 2 && c.T >= 2)
    sx::mark_nontrivial();
  sx::outcome(h);
}

// --- readGraphFromGRFile (direct file reader of LC_CSR_Graph) and
// --- LC_CSR_CSC_Graph::readAndConstructBiGraphFromGRFile on top of it --------
template <class E, class G>
static Adj csc_dump_in(const std::string& K, G& g, const Ctx& c);

template <class E>
static void csr_grfile_run(const Ctx& c) {
  Files<E> files(c.r);
  typedef gg::LC_CSR_Graph<int, E> G;
  typedef gg::LC_CSR_CSC_Graph<int, E, true> GB;
  Adj obs;
  Deferred df;
  const char* keys[3] = {
      "LC_CSR_Graph:readGraphFromGRFile", "LC_CSR_Graph:readGraphFromGRFile-v2",
      "LC_CSR_CSC_Graph:readAndConstructBiGraphFromGRFile"};
  files.fwd(1);
  files.fwd(2);
  guarded_calls(
      3,
      [&](size_t i, bool check) {
        if (i < 2) {
          G g;
          g.readGraphFromGRFile(files.fwd((int)i + 1));
          if (check)
            df.run([&]() { obs = csr_static<E>(keys[i], g, c); });
        } else {
          GB g;
          g.readAndConstructBiGraphFromGRFile(files.fwd(1));
          if (check)
            df.run([&]() {
              csr_static<E>(keys[i], g, c);
              compare_adj(keys[i], "in-edges", csc_dump_in<E>(keys[i], g, c),
                          expect_adj<E>(c.r.tcsr), false, c.str());
            });
        }
      },
      [&](size_t i) { return std::string(keys[i]) + ":crash"; },
      [&](size_t i, const std::string& how) {
        df.run([&]() {
          fail(std::string(keys[i]) + ":crash", "%s: %s", c.str().c_str(),
               how.c_str());
        });
      });
  df.rethrow();
  finish_run(c, obs);
}

// ===========================================================================
// LC_CSR_CSC_Graph: CSR plus in-edges built by constructIncomingEdges()
// ===========================================================================
template <class E, class G>
static Adj csc_dump_in(const std::string& K, G& g, const Ctx& c) {
  const Ref& r = c.r;
  Adj a(r.n);
  for (uint64_t u = 0; u < r.n; ++u) {
    uint64_t seen = 0;
    for (auto e = g.in_edge_begin(u), ee = g.in_edge_end(u); e != ee; ++e) {
      if (++seen > r.m + 4)
        fail(K + ":in-edge-range-runaway", "%s: node %llu", c.str().c_str(),
             (unsigned long long)u);
      uint64_t s = g.getInEdgeDst(e);
      if (s >= r.n)
        fail(K + ":in-edge-from-unknown-node", "%s: node %llu <- %llu",
             c.str().c_str(), (unsigned long long)u, (unsigned long long)s);
      Canon d = Canon{{0, 0, 0}};
      if constexpr (!std::is_void<E>::value)
        d = EV<E>::canon(g.getInEdgeData(e));
      a[u].push_back(DE(s, d));
    }
    uint64_t k = 0;
    for (auto e : g.in_edges(u)) {
      (void)e;
      ++k;
    }
    if (g.getInDegree(u) != seen || k != seen)
      fail(K + ":getInDegree-wrong", "%s: node %llu: getInDegree=%llu, "
                                     "in_edges() yields %llu, iterators %llu",
           c.str().c_str(), (unsigned long long)u,
           (unsigned long long)g.getInDegree(u), (unsigned long long)k,
           (unsigned long long)seen);
  }
  return a;
}

template <class E, class G>
static void csc_checks(const std::string& L, const std::string& builder, G& g,
                       const Ctx& c, bool views, Deferred& df) {
  std::string ctx = c.str();
  std::string K   = L + ":" + builder;
  csr_static<E>(K, g, c); // the out side is a complete LC_CSR_Graph
  Adj wantIn = expect_adj<E>(c.r.tcsr);
  compare_adj(K, "in-edges", csc_dump_in<E>(K, g, c), wantIn, false, ctx);
  if (!views)
    return;
  // sortInEdgesByDst is sequential: a fault in it is caught in place
  bool dead = false;
  guarded_calls_inline(
      1,
      [&](size_t, bool) {
        for (uint64_t u = 0; u < c.r.n; ++u)
          g.sortInEdgesByDst(u);
      },
      [&](size_t) { return L + ":sortInEdgesByDst:crash"; },
      [&](size_t, const std::string& how) {
        dead = true;
        df.run([&]() {
          fail(L + ":sortInEdgesByDst:crash", "%s: %s", ctx.c_str(),
               how.c_str());
        });
      });
  if (dead)
    return; // the graph is in an unknown state
  Adj got = csc_dump_in<E>(L + ":sortInEdgesByDst", g, c);
  compare_adj(L + ":sortInEdgesByDst", "in-edges", got, wantIn, false, ctx);
  check_sorted_by_dst(L + ":sortInEdgesByDst", got, ctx);
  g.sortAllInEdgesByDst();
  got = csc_dump_in<E>(L + ":sortAllInEdgesByDst", g, c);
  compare_adj(L + ":sortAllInEdgesByDst", "in-edges", got, wantIn, false, ctx);
  check_sorted_by_dst(L + ":sortAllInEdgesByDst", got, ctx);
  // the out side must be untouched by in-edge sorting
  compare_adj(L + ":sortInEdgesByDst", "out-edges-afterwards",
              csr_dump<E>(L + ":sortInEdgesByDst", g, c),
              expect_adj<E>(c.r.csr), true, ctx);
}

template <class E, class G>
static void csc_layout(const std::string& L, const Ctx& c, Files<E>& files,
                       bool full, bool by_name, Deferred& df) {
  {
    G g;
    load(g, files.fwd(1), by_name);
    g.constructIncomingEdges();
    csc_checks<E>(L, "readGraph+constructIncomingEdges", g, c, full, df);
  }
  if (full && usable(files, 2)) {
    G g;
    load(g, files.fwd(2), false);
    g.constructIncomingEdges();
    csc_checks<E>(L, "readGraph-v2+constructIncomingEdges", g, c, false, df);
  }
}

// (readAndConstructBiGraphFromGRFile is exercised by the readGraphFromGRFile
// case, next to the reader it is built on.)
template <class E>
static void csc_run(const Ctx& c) {
  Files<E> files(c.r);
  bool full = full_programme(c);
  Deferred df;
  csc_layout<E, gg::LC_CSR_CSC_Graph<int, E, false>>(
      "LC_CSR_CSC_Graph<in-data-by-ref>", c, files, full, true, df);
  csc_layout<E, gg::LC_CSR_CSC_Graph<int, E, true>>(
      "LC_CSR_CSC_Graph<in-data-by-value>", c, files, full, false, df);
  if (full)
    csc_layout<E, gg::LC_CSR_CSC_Graph<int, E, false, false, true>>(
        "LC_CSR_CSC_Graph<in-data-by-ref,numa>", c, files, false, false, df);
  df.rethrow();
  finish_run(c, expect_adj<E>(c.r.tcsr));
}

// ===========================================================================
// LC_InOut_Graph over LC_CSR_Graph and LC_Linear_Graph (in-edges come from a
// second file holding the transposed graph, or alias the out-edges when the
// graph is declared symmetric by giving one file)
// ===========================================================================
template <class E, class G>
static Adj inout_dump_in(const std::string& K, G& g, const NodeMap<G>& nm,
                         const Ctx& c) {
  const Ref& r = c.r;
  Adj a(r.n);
  for (uint64_t u = 0; u < r.n; ++u) {
    auto n        = nm.nodes[u];
    uint64_t seen = 0;
    for (auto e = g.in_edge_begin(n), ee = g.in_edge_end(n); e != ee; ++e) {
      if (++seen > r.m + 4)
        fail(K + ":in-edge-range-runaway", "%s: node %llu", c.str().c_str(),
             (unsigned long long)u);
      uint64_t s = nm.id(K, g.getInEdgeDst(e));
      Canon d    = Canon{{0, 0, 0}};
      if constexpr (!std::is_void<E>::value)
        d = EV<E>::canon(g.getInEdgeData(e));
      a[u].push_back(DE(s, d));
    }
    uint64_t k = 0;
    for (auto e : g.in_edges(n)) {
      (void)e;
      ++k;
    }
    if (k != seen)
      fail(K + ":in_edges()-range-wrong-length", "%s: node %llu: %llu vs %llu",
           c.str().c_str(), (unsigned long long)u, (unsigned long long)k,
           (unsigned long long)seen);
  }
  return a;
}

static bool symmetric_with_data(const Ref& r, bool void_data) {
  if (!void_data) { // data is injective: only self loops are their own mirror
    for (auto& e : r.el)
      if (e.first != e.second)
        return false;
    return true;
  }
  std::vector<grf::Edge> a(r.el), b;
  for (auto& e : r.el)
    b.push_back(grf::Edge(e.second, e.first));
  std::sort(a.begin(), a.end());
  std::sort(b.begin(), b.end());
  return a == b;
}

template <class E, class G>
static void inout_csr_layout(const std::string& L, const Ctx& c,
                             Files<E>& files, bool full, bool by_name) {
  std::string ctx = c.str();
  Adj wantIn      = expect_adj<E>(c.r.tcsr);
  Adj wantOut     = expect_adj<E>(c.r.csr);
  {
    std::string K = L + ":readGraph(file,transpose)";
    G g;
    load2(g, files.fwd(1), files.tr(1), by_name);
    csr_static<E>(K, g, c);
    NodeMap<G> nm = positional_map(K, g, c.r.n, ctx);
    compare_adj(K, "in-edges", inout_dump_in<E>(K, g, nm, c), wantIn, false,
                ctx);
    if (full) {
      if constexpr (!std::is_void<E>::value) {
        std::string V = L + ":sortInEdgesByEdgeData";
        for (uint64_t u = 0; u < c.r.n; ++u)
          g.sortInEdgesByEdgeData(u, typename EV<E>::Less());
        Adj got = inout_dump_in<E>(V, g, nm, c);
        compare_adj(V, "in-edges", got, wantIn, false, ctx);
        check_sorted_by_data(V, got, ctx);
      }
      {
        std::string V = L + ":sortInEdgesByDst";
        for (uint64_t u = 0; u < c.r.n; ++u)
          g.sortInEdgesByDst(u);
        Adj got = inout_dump_in<E>(V, g, nm, c);
        compare_adj(V, "in-edges", got, wantIn, false, ctx);
        check_sorted_by_dst(V, got, ctx);
      }
      if constexpr (!std::is_void<E>::value)
        for (uint64_t u = 0; u < c.r.n; ++u)
          g.sortInEdgesByEdgeData(u, typename EV<E>::Less());
      {
        std::string V = L + ":sortAllInEdgesByDst";
        g.sortAllInEdgesByDst();
        Adj got = inout_dump_in<E>(V, g, nm, c);
        compare_adj(V, "in-edges", got, wantIn, false, ctx);
        check_sorted_by_dst(V, got, ctx);
        compare_adj(V, "out-edges-afterwards", csr_dump<E>(V, g, c), wantOut,
                    true, ctx);
      }
    }
  }
  if (!full)
    return;
  if (usable(files, 2) && usable(files, 2, true)) {
    std::string K = L + ":readGraph-v2(file,transpose)";
    G g;
    load2(g, files.fwd(2), files.tr(2), false);
    csr_static<E>(K, g, c, true, false);
    NodeMap<G> nm = positional_map(K, g, c.r.n, ctx);
    compare_adj(K, "in-edges", inout_dump_in<E>(K, g, nm, c), wantIn, false,
                ctx);
  }
  if (symmetric_with_data(c.r, std::is_void<E>::value)) {
    std::string K = L + ":readGraph(symmetric-file)";
    G g;
    load(g, files.fwd(1), false);
    csr_static<E>(K, g, c, true, false);
    NodeMap<G> nm = positional_map(K, g, c.r.n, ctx);
    compare_adj(K, "in-edges", inout_dump_in<E>(K, g, nm, c), wantIn, false,
                ctx);
  }
}

// ===========================================================================
// Pointer layouts: LC_Linear_Graph, LC_InlineEdge_Graph (ids are positions in
// begin()..end(); out-edges compared as multisets)
// ===========================================================================
template <class E, class G>
static Adj ptr_static(const std::string& K, G& g, const Ctx& c,
                      NodeMap<G>* nm_out = nullptr) {
  const Ref& r    = c.r;
  std::string ctx = c.str();
  if (g.size() != r.n)
    fail(K + ":wrong-node-count", "%s: size()=%zu", ctx.c_str(), g.size());
  if (g.sizeEdges() != r.m)
    fail(K + ":wrong-edge-count", "%s: sizeEdges()=%zu", ctx.c_str(),
         g.sizeEdges());
  NodeMap<G> nm = positional_map(K, g, r.n, ctx);
  Adj got       = dump_out<E>(K, g, nm, r.m);
  compare_adj(K, "out-edges", got, expect_adj<E>(r.csr), false, ctx);
  for (uint64_t u = 0; u < r.n; ++u) {
    uint64_t k1 = 0, k2 = 0;
    for (auto e : g.edges(nm.nodes[u])) {
      (void)e;
      ++k1;
    }
    for (auto e : g.out_edges(nm.nodes[u])) {
      (void)e;
      ++k2;
    }
    if (k1 != r.outdeg(u) || k2 != r.outdeg(u))
      fail(K + ":edges()-range-wrong-length", "%s: node %llu: %llu/%llu",
           ctx.c_str(), (unsigned long long)u, (unsigned long long)k1,
           (unsigned long long)k2);
  }
  check_local_ranges(K, g, nm, ctx);
  if (nm_out)
    *nm_out = nm;
  return got;
}

template <class E, class G>
static void linear_layout(const std::string& L, const Ctx& c, Files<E>& files,
                          bool full, bool by_name, Adj* observed) {
  std::string ctx = c.str();
  {
    G g;
    load(g, files.fwd(1), by_name);
    NodeMap<G> nm;
    Adj a = ptr_static<E>(L + ":readGraph", g, c, &nm);
    if (observed)
      *observed = a;
    if constexpr (!std::is_void<E>::value) {
      if (full) {
        std::string V = L + ":sortEdgesByEdgeData";
        for (uint64_t u = 0; u < c.r.n; ++u)
          g.sortEdgesByEdgeData(nm.nodes[u], typename EV<E>::Less());
        Adj got = dump_out<E>(V, g, nm, c.r.m);
        compare_adj(V, "out-edges", got, expect_adj<E>(c.r.csr), false, ctx);
        check_sorted_by_data(V, got, ctx);
      }
    }
  }
  if (full && usable(files, 2)) {
    G g;
    load(g, files.fwd(2), false);
    ptr_static<E>(L + ":readGraph-v2", g, c);
  }
}

template <class E, class G>
static void inout_linear_layout(const std::string& L, const Ctx& c,
                                Files<E>& files) {
  std::string ctx = c.str();
  std::string K   = L + ":readGraph(file,transpose)";
  G g;
  load2(g, files.fwd(1), files.tr(1), false);
  NodeMap<G> nm;
  ptr_static<E>(K, g, c, &nm);
  compare_adj(K, "in-edges", inout_dump_in<E>(K, g, nm, c),
              expect_adj<E>(c.r.tcsr), false, ctx);
}

template <class E>
static void inout_run(const Ctx& c) {
  Files<E> files(c.r);
  bool full = full_programme(c);
  typedef gg::LC_CSR_Graph<int, E> C0;
  inout_csr_layout<E, gg::LC_InOut_Graph<C0>>("LC_InOut_Graph<LC_CSR_Graph>",
                                              c, files, full, true);
  if (full) {
    inout_csr_layout<
        E, gg::LC_InOut_Graph<typename C0::template with_numa_alloc<true>::type>>(
        "LC_InOut_Graph<LC_CSR_Graph<numa>>", c, files, false, false);
    inout_linear_layout<E, gg::LC_InOut_Graph<gg::LC_Linear_Graph<int, E>>>(
        "LC_InOut_Graph<LC_Linear_Graph>", c, files);
  }
  finish_run(c, expect_adj<E>(c.r.tcsr));
}

template <class E>
static void linear_run(const Ctx& c) {
  Files<E> files(c.r);
  bool full = full_programme(c);
  Adj obs;
  typedef gg::LC_Linear_Graph<int, E> G0;
  linear_layout<E, G0>("LC_Linear_Graph", c, files, full, true, &obs);
  linear_layout<E, typename G0::template with_numa_alloc<true>::type>(
      "LC_Linear_Graph<numa>", c, files, false, false, nullptr);
  linear_layout<E, typename G0::template with_no_lockable<true>::type>(
      "LC_Linear_Graph<no_lockable>", c, files, false, false, nullptr);
  if (full)
    linear_layout<E,
                  typename G0::template with_out_of_line_lockable<true>::type>(
        "LC_Linear_Graph<out_of_line_lockable>", c, files, false, false,
        nullptr);
  finish_run(c, obs);
}

// --- LC_InlineEdge_Graph ---------------------------------------------------
// readGraph() needs constructFrom(FileGraph&, tid, total, readUnweighted); the
// compile-probe case reports that LC_InlineEdge_Graph does not have it.  Until
// it has, the graph is built the way readGraphDispatch would: allocateFrom +
// on_each(constructFrom(f, tid, total)).
template <class G, class = void>
struct has_construct4 : std::false_type {};
template <class G>
struct has_construct4<
    G, std::void_t<decltype(std::declval<G&>().constructFrom(
           std::declval<gg::FileGraph&>(), 0u, 1u, false))>> : std::true_type {
};

template <class E, class G>
static void inline_build(G& g, const std::string& path, bool by_name) {
  if constexpr (has_construct4<G>::value) {
    load(g, path, by_name);
  } else {
    gg::FileGraph f;
    if (by_name)
      f.fromFileInterleaved<E>(path);
    else
      f.fromFile(path);
    g.allocateFrom(f);
    galois::on_each(
        [&](unsigned tid, unsigned total) { g.constructFrom(f, tid, total); });
  }
}

template <class E, class G>
static void inline_layout(const std::string& L, const Ctx& c, Files<E>& files,
                          bool v2, bool by_name, Adj* observed) {
  const char* b = has_construct4<G>::value ? ":readGraph" : ":constructFrom";
  {
    G g;
    inline_build<E>(g, files.fwd(1), by_name);
    Adj a = ptr_static<E>(L + b, g, c);
    if (observed)
      *observed = a;
  }
  if (v2 && usable(files, 2)) {
    G g;
    inline_build<E>(g, files.fwd(2), false);
    ptr_static<E>(L + b + "-v2", g, c);
  }
}

template <class E>
static void inline_run(const Ctx& c) {
  Files<E> files(c.r);
  bool full = full_programme(c);
  Adj obs;
  typedef gg::LC_InlineEdge_Graph<int, E> G0;
  typedef typename G0::template with_compressed_node_ptr<true>::type G1;
  inline_layout<E, G0>("LC_InlineEdge_Graph", c, files, full, true, &obs);
  inline_layout<E, G1>("LC_InlineEdge_Graph<compressed_node_ptr>", c, files,
                       full, false, nullptr);
  inline_layout<E, typename G0::template with_numa_alloc<true>::type>(
      "LC_InlineEdge_Graph<numa>", c, files, false, false, nullptr);
  if (full) {
    inline_layout<E, typename G1::template with_numa_alloc<true>::type>(
        "LC_InlineEdge_Graph<compressed_node_ptr,numa>", c, files, false,
        false, nullptr);
    inline_layout<E, typename G0::template with_no_lockable<true>::type>(
        "LC_InlineEdge_Graph<no_lockable>", c, files, false, false, nullptr);
    inline_layout<E,
                  typename G0::template with_out_of_line_lockable<true>::type>(
        "LC_InlineEdge_Graph<out_of_line_lockable>", c, files, false, false,
        nullptr);
  }
  finish_run(c, obs);
}

// ===========================================================================
// LC_Morph_Graph.  Nodes are opaque pointers kept in a per-thread bag, so the
// node iterator says nothing about file ids.
//  * readGraph(): identity is RECOVERED -- from the edge data when there is
//    some (edge #i of the list is the only one with value f(i), so its end
//    points must be the i-th pair), by trying all n! assignments when there is
//    none and n <= 3, and only up to colour refinement (a necessary condition
//    for isomorphism) for the data-less structured family.
//  * the documented two-phase builder allocateFrom / constructNodesFrom /
//    constructEdgesFrom with the aux array in the harness's hands, and
//    createNode + addMultiEdge: identity is known exactly.
// LC_Morph_Graph::createNode never returns the pages that hold the edges
// ("FIXME: this seems to leak"); a worker builds ~10^5 graphs, so the harness
// hands those pages back to the page pool after each graph is destroyed.
// ===========================================================================
template <class G>
struct MorphBox {
  std::unique_ptr<G> g;
  MorphBox() : g(new G()) {}
  ~MorphBox() {
    std::vector<void*> blocks;
    unsigned maxT = galois::substrate::getThreadPool().getMaxThreads();
    for (unsigned t = 0; t < maxT; ++t)
      for (auto* h = *g->edgesL.getRemote(t); h; h = h->next)
        blocks.push_back((void*)h);
    g.reset();
    for (void* b : blocks)
      galois::runtime::pagePoolFree(b);
  }
  G& operator*() { return *g; }
};

template <class E, class G>
static void morph_checks(const std::string& K, G& g, const NodeMap<G>& nm,
                         const Ctx& c) {
  const Ref& r    = c.r;
  std::string ctx = c.str();
  // every node yielded exactly once by begin()..end()
  {
    std::map<typename G::GraphNode, int> seen;
    uint64_t k = 0;
    for (auto it = g.begin(), e = g.end(); it != e && k <= r.n + 4; ++it, ++k)
      seen[*it]++;
    if (k != r.n)
      fail(K + ":wrong-node-count", "%s: node iterator yields %llu nodes",
           ctx.c_str(), (unsigned long long)k);
    for (auto n : nm.nodes)
      if (seen[n] != 1)
        fail(K + ":node-iterator-not-exact",
             "%s: a constructed node is yielded %d times", ctx.c_str(),
             seen[n]);
  }
  Adj got = dump_out<E>(K, g, nm, r.m);
  compare_adj(K, "out-edges", got, expect_adj<E>(r.csr), false, ctx);
  for (uint64_t u = 0; u < r.n; ++u) {
    uint64_t k1 = 0, k2 = 0;
    for (auto e : g.edges(nm.nodes[u])) {
      (void)e;
      ++k1;
    }
    for (auto e : g.out_edges(nm.nodes[u])) {
      (void)e;
      ++k2;
    }
    if (k1 != r.outdeg(u) || k2 != r.outdeg(u))
      fail(K + ":edges()-range-wrong-length", "%s: node %llu: %llu/%llu",
           ctx.c_str(), (unsigned long long)u, (unsigned long long)k1,
           (unsigned long long)k2);
  }
  for (auto& q : query_pairs(r)) {
    auto s = nm.nodes[q.first];
    auto e = g.findEdge(s, nm.nodes[q.second]);
    bool in  = e >= g.edge_begin(s) && e < g.edge_end(s);
    bool hit = in && g.getEdgeDst(e) == nm.nodes[q.second];
    bool ok  = has_edge(r, q.first, q.second) ? hit : e == g.edge_end(s);
    if (!ok)
      fail(K + ":findEdge-wrong-answer", "%s: findEdge(%llu,%llu)",
           ctx.c_str(), (unsigned long long)q.first,
           (unsigned long long)q.second);
  }
  check_local_ranges(K, g, nm, ctx);
}

// colour refinement on (out-)adjacency given as id lists
static std::vector<uint64_t> wl_colours(const std::vector<std::vector<uint64_t>>& out) {
  size_t n = out.size();
  std::vector<std::vector<uint64_t>> in(n);
  for (size_t u = 0; u < n; ++u)
    for (auto v : out[u])
      in[v].push_back(u);
  std::vector<uint64_t> col(n);
  for (size_t u = 0; u < n; ++u)
    col[u] = sx::mix(out[u].size(), in[u].size());
  for (int round = 0; round < 4; ++round) {
    std::vector<uint64_t> nc(n);
    for (size_t u = 0; u < n; ++u) {
      std::vector<uint64_t> a, b;
      for (auto v : out[u])
        a.push_back(col[v]);
      for (auto v : in[u])
        b.push_back(col[v]);
      std::sort(a.begin(), a.end());
      std::sort(b.begin(), b.end());
      uint64_t h = col[u];
      for (auto x : a)
        h = sx::mix(h, x);
      h = sx::mix(h, 0xabcdef);
      for (auto x : b)
        h = sx::mix(h, x);
      nc[u] = h;
    }
    col.swap(nc);
  }
  std::sort(col.begin(), col.end());
  return col;
}

// Returns false if only the isomorphism-invariant check was possible.
template <class E, class G>
static bool morph_recover(const std::string& K, G& g, const Ctx& c,
                          NodeMap<G>& nm) {
  typedef typename G::GraphNode GN;
  const Ref& r    = c.r;
  std::string ctx = c.str();
  std::vector<GN> L;
  {
    uint64_t k = 0;
    for (auto it = g.begin(), e = g.end(); it != e && k <= r.n + 4; ++it, ++k)
      L.push_back(*it);
    if (L.size() != r.n)
      fail(K + ":wrong-node-count", "%s: node iterator yields %zu nodes",
           ctx.c_str(), L.size());
    std::set<GN> uniq(L.begin(), L.end());
    if (uniq.size() != L.size())
      fail(K + ":node-yielded-twice", "%s", ctx.c_str());
  }
  std::vector<GN> byId(r.n, nullptr);
  if constexpr (!std::is_void<E>::value) {
    std::map<Canon, uint64_t> byData;
    for (uint64_t i = 0; i < r.m; ++i)
      byData[EV<E>::canon_of(i)] = i;
    std::map<GN, uint64_t> idOf;
    auto bind = [&](GN p, uint64_t id) {
      auto it = idOf.find(p);
      if (it != idOf.end() && it->second != id)
        fail(K + ":inconsistent-node-identity",
             "%s: the edge data place one node at file ids %llu and %llu",
             ctx.c_str(), (unsigned long long)it->second,
             (unsigned long long)id);
      if (byId[id] && byId[id] != p)
        fail(K + ":inconsistent-node-identity",
             "%s: the edge data place two nodes at file id %llu", ctx.c_str(),
             (unsigned long long)id);
      idOf[p]  = id;
      byId[id] = p;
    };
    uint64_t total = 0;
    for (GN p : L)
      for (auto e = g.edge_begin(p), ee = g.edge_end(p); e != ee; ++e) {
        if (++total > r.m)
          fail(K + ":out-edges-wrong-degree", "%s: more than %llu edges",
               ctx.c_str(), (unsigned long long)r.m);
        auto f = byData.find(EV<E>::canon(g.getEdgeData(e)));
        if (f == byData.end())
          fail(K + ":out-edges-wrong-edge-data",
               "%s: an edge carries data that no edge of the file has",
               ctx.c_str());
        bind(p, r.el[f->second].first);
        bind(g.getEdgeDst(e), r.el[f->second].second);
      }
    size_t next = 0; // isolated nodes are interchangeable
    for (GN p : L)
      if (!idOf.count(p)) {
        while (next < r.n && byId[next])
          ++next;
        if (next == r.n)
          fail(K + ":inconsistent-node-identity", "%s", ctx.c_str());
        byId[next] = p;
      }
    for (uint64_t u = 0; u < r.n; ++u)
      nm.add(K, byId[u]);
    return true;
  } else {
    if (r.n <= 4) {
      std::vector<size_t> perm(r.n);
      for (size_t i = 0; i < r.n; ++i)
        perm[i] = i;
      Adj want = expect_adj<E>(r.csr);
      for (auto& l : want)
        std::sort(l.begin(), l.end());
      do {
        NodeMap<G> cand;
        for (size_t i = 0; i < r.n; ++i)
          cand.add(K, L[perm[i]]);
        bool ok = true;
        for (size_t u = 0; ok && u < r.n; ++u) {
          std::vector<DE> l;
          uint64_t seen = 0;
          for (auto e = g.edge_begin(cand.nodes[u]),
                    ee = g.edge_end(cand.nodes[u]);
               ok && e != ee; ++e) {
            auto f = cand.ids.find(g.getEdgeDst(e));
            if (f == cand.ids.end() || ++seen > r.m)
              ok = false;
            else
              l.push_back(DE(f->second, Canon{{0, 0, 0}}));
          }
          std::sort(l.begin(), l.end());
          ok = ok && l == want[u];
        }
        if (ok) {
          nm = cand;
          return true;
        }
      } while (std::next_permutation(perm.begin(), perm.end()));
      fail(K + ":not-isomorphic-to-input",
           "%s: no assignment of the %llu nodes to file ids reproduces the "
           "input",
           ctx.c_str(), (unsigned long long)r.n);
    }
    // large and data-less: necessary condition only
    std::map<GN, uint64_t> pos;
    for (size_t i = 0; i < L.size(); ++i)
      pos[L[i]] = i;
    std::vector<std::vector<uint64_t>> got(r.n), want(r.n);
    uint64_t total = 0;
    for (size_t i = 0; i < L.size(); ++i)
      for (auto e = g.edge_begin(L[i]), ee = g.edge_end(L[i]); e != ee; ++e) {
        auto f = pos.find(g.getEdgeDst(e));
        if (f == pos.end() || ++total > r.m)
          fail(K + ":not-isomorphic-to-input", "%s: stray or surplus edge",
               ctx.c_str());
        got[i].push_back(f->second);
      }
    for (uint64_t u = 0; u < r.n; ++u)
      for (uint64_t p = r.csr.begin(u); p < r.csr.end(u); ++p)
        want[u].push_back(r.csr.dst[p]);
    if (total != r.m || wl_colours(got) != wl_colours(want))
      fail(K + ":not-isomorphic-to-input",
           "%s: colour refinement tells the graph from the input",
           ctx.c_str());
    return false;
  }
}

template <class E, class G>
static void morph_layout(const std::string& L, const Ctx& c, Files<E>& files,
                         bool full, bool by_name, Adj* observed) {
  const Ref& r = c.r;
  for (int ver = 1; ver <= (full ? 2 : 1); ++ver) {
    if (ver == 2 && !usable(files, 2))
      continue;
    std::string K = L + (ver == 2 ? ":readGraph-v2" : ":readGraph");
    MorphBox<G> box;
    load(*box, files.fwd(ver), by_name && ver == 1);
    NodeMap<G> nm;
    if (morph_recover<E>(K, *box, c, nm))
      morph_checks<E>(K, *box, nm, c);
  }
  { // two-phase builder with the aux array in our hands
    std::string K = L + ":constructNodesFrom+constructEdgesFrom";
    MorphBox<G> box;
    G& g = *box;
    gg::FileGraph f;
    f.fromFile(files.fwd(1));
    typename G::ReadGraphAuxData aux;
    g.allocateFrom(f, aux);
    galois::on_each([&](unsigned tid, unsigned total) {
      g.constructNodesFrom(f, tid, total, aux);
    });
    galois::on_each([&](unsigned tid, unsigned total) {
      g.constructEdgesFrom(f, tid, total, aux);
    });
    NodeMap<G> nm;
    for (uint64_t u = 0; u < r.n; ++u)
      nm.add(K, aux[u]);
    morph_checks<E>(K, g, nm, c);
    if (observed)
      *observed = dump_out<E>(K, g, nm, r.m);
  }
  if (full) { // createNode + addMultiEdge, nodes created by all threads
    std::string K = L + ":createNode+addMultiEdge";
    MorphBox<G> box;
    G& g = *box;
    std::vector<typename G::GraphNode> nd(r.n, nullptr);
    galois::on_each([&](unsigned tid, unsigned total) {
      auto br = galois::block_range((uint64_t)0, r.n, tid, total);
      for (uint64_t u = br.first; u < br.second; ++u)
        nd[u] = g.createNode((int)r.outdeg(u));
    });
    for (uint64_t i = 0; i < r.m; ++i) {
      if constexpr (std::is_void<E>::value)
        g.addMultiEdge(nd[r.el[i].first], nd[r.el[i].second],
                       galois::MethodFlag::UNPROTECTED);
      else
        g.addMultiEdge(nd[r.el[i].first], nd[r.el[i].second],
                       galois::MethodFlag::UNPROTECTED, EV<E>::make(i));
    }
    NodeMap<G> nm;
    for (uint64_t u = 0; u < r.n; ++u)
      nm.add(K, nd[u]);
    morph_checks<E>(K, g, nm, c);
  }
}

template <class E>
static void morph_run(const Ctx& c) {
  Files<E> files(c.r);
  bool full = full_programme(c);
  Adj obs;
  typedef gg::LC_Morph_Graph<int, E> G0;
  morph_layout<E, G0>("LC_Morph_Graph", c, files, full, true, &obs);
  if (full) {
    morph_layout<E, typename G0::template with_numa_alloc<true>::type>(
        "LC_Morph_Graph<numa>", c, files, false, false, nullptr);
    morph_layout<E, typename G0::template with_no_lockable<true>::type>(
        "LC_Morph_Graph<no_lockable>", c, files, false, false, nullptr);
  }
  finish_run(c, obs);
}

// ===========================================================================
// LC_Adaptor_Graph over user-supplied CSR arrays (as in test/lc-adaptor.cpp)
// ===========================================================================
template <class E>
struct AdStore {
  typedef std::vector<E> type;
};
template <>
struct AdStore<void> {
  typedef std::vector<char> type;
};

template <class E, bool NoLock>
class AdaptorCSR
    : public gg::LC_Adaptor_Graph<int, E, AdaptorCSR<E, NoLock>, int,
                                  boost::counting_iterator<int>,
                                  const uint32_t*, NoLock> {
  typedef gg::LC_Adaptor_Graph<int, E, AdaptorCSR<E, NoLock>, int,
                               boost::counting_iterator<int>, const uint32_t*,
                               NoLock>
      Super;

public:
  std::vector<uint64_t> outIdx;
  std::vector<uint32_t> outs;
  std::vector<int> nodeData;
  typename AdStore<E>::type edgeData;

  explicit AdaptorCSR(const Ref& r)
      : outIdx(r.csr.outIdx), outs(r.csr.dst.begin(), r.csr.dst.end()),
        nodeData(r.n, 0) {
    outs.push_back(0); // so that &outs[m] is a valid address
    if constexpr (!std::is_void<E>::value)
      for (uint64_t p = 0; p < r.m; ++p)
        edgeData.push_back(EV<E>::make(r.csr.orig[p]));
  }
  typedef typename Super::GraphNode GraphNode;
  typedef typename Super::edge_iterator edge_iterator;
  typedef typename Super::iterator iterator;
  size_t get_id(GraphNode n) const { return n; }
  typename Super::node_data_reference get_data(GraphNode n) {
    return nodeData[n];
  }
  typename Super::edge_data_reference get_edge_data(edge_iterator e) {
    if constexpr (std::is_void<E>::value)
      return {};
    else
      return edgeData[e - outs.data()];
  }
  GraphNode get_edge_dst(edge_iterator e) { return (int)*e; }
  int get_size() const { return (int)outIdx.size(); }
  int get_size_edges() const { return (int)outs.size() - 1; }
  iterator get_begin() const { return iterator(0); }
  iterator get_end() const { return iterator((int)outIdx.size()); }
  edge_iterator get_edge_begin(GraphNode n) {
    return outs.data() + (n == 0 ? 0 : outIdx[n - 1]);
  }
  edge_iterator get_edge_end(GraphNode n) { return outs.data() + outIdx[n]; }
};

template <class E, class G>
static Adj adaptor_layout(const std::string& K, const Ctx& c) {
  const Ref& r    = c.r;
  std::string ctx = c.str();
  G g(r);
  if (g.size() != r.n || g.sizeEdges() != r.m)
    fail(K + ":wrong-size", "%s: size()=%llu sizeEdges()=%llu", ctx.c_str(),
         (unsigned long long)g.size(), (unsigned long long)g.sizeEdges());
  NodeMap<G> nm = positional_map(K, g, r.n, ctx);
  csr_ids_are_file_ids(K, nm, ctx);
  Adj got = dump_out<E>(K, g, nm, r.m);
  compare_adj(K, "out-edges", got, expect_adj<E>(r.csr), true, ctx);
  for (uint64_t u = 0; u < r.n; ++u) {
    uint64_t k = 0;
    for (auto e : g.out_edges((int)u)) {
      (void)e;
      ++k;
    }
    if (k != r.outdeg(u))
      fail(K + ":out_edges()-range-wrong-length", "%s: node %llu", ctx.c_str(),
           (unsigned long long)u);
  }
  check_local_ranges(K, g, nm, ctx);
  return got;
}

template <class E>
static void adaptor_run(const Ctx& c) {
  Adj obs = adaptor_layout<E, AdaptorCSR<E, false>>("LC_Adaptor_Graph", c);
  adaptor_layout<E, AdaptorCSR<E, true>>("LC_Adaptor_Graph<no_lockable>", c);
  finish_run(c, obs);
}

// ===========================================================================
// Documented ways to build a graph that do not instantiate.  A template that
// cannot be instantiated cannot be put in this file, so these are compiled on
// the side (g++ -fsyntax-only against the same tree) -- with controls that
// must compile, so that a broken probe environment is not mistaken for a
// defect.
// ===========================================================================
struct Probe {
  const char* key; // "" for a control
  const char* what;
  const char* code;
};
static const Probe PROBES[] = {
    {"", "control: readGraph(LC_CSR_Graph<int,unsigned>)",
     "#include \"galois/graphs/LCGraph.h\"\n"
     "void f(const std::string& s){ galois::graphs::LC_CSR_Graph<int,unsigned> "
     "g; galois::graphs::readGraph(g, s); }\n"},
    {"", "control: LC_InlineEdge_Graph allocateFrom+constructFrom",
     "#include \"galois/graphs/LCGraph.h\"\n"
     "void f(galois::graphs::FileGraph& fg){ "
     "galois::graphs::LC_InlineEdge_Graph<int,unsigned> g; g.allocateFrom(fg); "
     "g.constructFrom(fg, 0u, 1u); }\n"},
    {"LC_InlineEdge_Graph:readGraph:does-not-compile",
     "readGraph(LC_InlineEdge_Graph<int,unsigned>&, filename)",
     "#include \"galois/graphs/LCGraph.h\"\n"
     "void f(const std::string& s){ "
     "galois::graphs::LC_InlineEdge_Graph<int,unsigned> g; "
     "galois::graphs::readGraph(g, s); }\n"},
    {"LC_CSR_Graph:callback-constructor:does-not-compile",
     "LC_CSR_Graph(numNodes, numEdges, edgeNum, edgeDst, edgeData)",
     "#include \"galois/graphs/LC_CSR_Graph.h\"\n"
     "void f(){ galois::graphs::LC_CSR_Graph<int,unsigned> g(3u, 2ull, "
     "[](size_t){ return (uint64_t)1; }, [](size_t, uint64_t){ return 0u; }, "
     "[](size_t, uint64_t){ return 5u; }); }\n"},
    {"LC_Morph_Graph<out_of_line_lockable>:readGraph:does-not-compile",
     "readGraph(LC_Morph_Graph<int,unsigned>::with_out_of_line_lockable<true>"
     "::type&, filename)",
     "#include \"galois/graphs/LCGraph.h\"\n"
     "void f(const std::string& s){ "
     "galois::graphs::LC_Morph_Graph<int,unsigned>::with_out_of_line_lockable<"
     "true>::type g; galois::graphs::readGraph(g, s); }\n"},
    {"LC_InOut_Graph<LC_InlineEdge_Graph>:readGraph:does-not-compile",
     "readGraph(LC_InOut_Graph<LC_InlineEdge_Graph<int,unsigned>>&, file, "
     "transposeFile)",
     "#include \"galois/graphs/LCGraph.h\"\n"
     "void f(const std::string& s){ "
     "galois::graphs::LC_InOut_Graph<galois::graphs::LC_InlineEdge_Graph<int,"
     "unsigned>> g; galois::graphs::readGraph(g, s, s); }\n"},
};
static const size_t NPROBES = sizeof(PROBES) / sizeof(PROBES[0]);

// All probes are started together on first use (the case has too few inputs
// for the driver to give it more than one worker) and collected one by one.
struct ProbeJob {
  FILE* pipe = nullptr;
  std::string src;
  bool done = false;
  std::string result; // "" = compiles
};
static std::vector<ProbeJob>& probe_jobs() {
  static std::vector<ProbeJob> jobs;
  if (!jobs.empty())
    return jobs;
  jobs.resize(NPROBES);
  const char* repo = getenv("VERIF_REPO");
  std::string R    = repo ? repo : "/repo";
  for (size_t i = 0; i < NPROBES; ++i) {
    char src[256];
    snprintf(src, sizeof src, "%s/%d-c11-probe%zu.cpp", grf::tmp_dir(),
             (int)getpid(), i);
    jobs[i].src = src;
    FILE* f     = fopen(src, "w");
    if (!f) {
      jobs[i].done   = true;
      jobs[i].result = "cannot write probe source";
      continue;
    }
    fputs(PROBES[i].code, f);
    fclose(f);
    std::string cmd =
        "g++ -std=c++17 -fsyntax-only -w -DGALOIS_USE_SCHED_SETAFFINITY "
        "-DGALOIS_HAVE_PTHREAD -I/verif/build/gen/include -I" +
        R + "/libgalois/include -I" + R + "/libsupport/include " + src +
        " 2>&1";
    jobs[i].pipe = popen(cmd.c_str(), "r");
    if (!jobs[i].pipe) {
      jobs[i].done   = true;
      jobs[i].result = "cannot run g++";
      unlink(src);
    }
  }
  return jobs;
}

static std::string compile_probe(size_t i) { // "" = compiles
  ProbeJob& j = probe_jobs()[i];
  if (j.done)
    return j.result;
  std::string out, firsterr;
  char line[1024];
  while (fgets(line, sizeof line, j.pipe)) {
    if (firsterr.empty() && strstr(line, "error"))
      firsterr = line;
    if (out.size() < 4000)
      out += line;
  }
  int rc = pclose(j.pipe);
  unlink(j.src.c_str());
  j.done = true;
  if (rc != 0) {
    if (firsterr.empty())
      firsterr = out.empty() ? "g++ failed" : out.substr(0, 300);
    while (!firsterr.empty() && firsterr.back() == '\n')
      firsterr.pop_back();
    j.result = firsterr;
  }
  return j.result;
}

static sx::EnumCase probe_case() {
  sx::EnumCase c;
  c.name  = "documented builders instantiate (g++ -fsyntax-only probes)";
  c.count = [](bool) { return (uint64_t)NPROBES; };
  c.run   = [](uint64_t idx, bool) {
    const Probe& p  = PROBES[idx];
    std::string err = compile_probe((size_t)idx);
    sx::outcome(sx::hash_str(p.what) ^ (err.empty() ? 1 : 2));
    sx::mark_nontrivial();
    if (err.empty())
      return;
    if (!p.key[0])
      fail("compile-probe:control-failed",
           "a snippet that must compile does not (probe environment broken?)"
           ": %s: %s",
           p.what, err.c_str());
    fail(p.key, "%s does not compile: %s", p.what, err.c_str());
  };
  c.describe = [](uint64_t idx, bool) { return std::string(PROBES[idx].what); };
  return c;
}

// ===========================================================================
// Case plumbing
// ===========================================================================
typedef void (*RunFn)(const Ctx&);
struct Layout {
  std::string name;
  RunFn fn[4]; // by edge type
  std::vector<int> Es, Ts;
  bool with_family = true;
  int quick_allE_maxT = 2; // quick tier: all of Es up to this T, then a subset
};
#define FN4(f)                                                                 \
  { f<void>, f<uint32_t>, f<uint64_t>, f<E12> }

// The (T, E) configurations a layout runs per graph.  Thorough: the full
// product Ts x Es.  Quick: for T >= 3 (readGraphFromGRFile, which forks a probe
// per input: T >= 2) only the edge types void and pod12 (the two extremes of
// the edge record size) as far as the layout uses them.
static std::vector<std::pair<int, int>> configs(const Layout& L, bool th) {
  std::vector<std::pair<int, int>> v;
  for (int T : L.Ts) {
    std::vector<int> es;
    for (int E : L.Es)
      if (th || T <= L.quick_allE_maxT || E == 0 || E == 3)
        es.push_back(E);
    if (es.empty())
      es.push_back(L.Es[0]);
    for (int E : es)
      v.push_back(std::make_pair(T, E));
  }
  return v;
}

struct Decoded {
  uint64_t gi;
  int T, E;
};
static Decoded decode_cfg(const Layout& L, uint64_t idx, bool th) {
  auto cf = configs(L, th);
  Decoded d;
  d.T  = cf[idx % cf.size()].first;
  d.E  = cf[idx % cf.size()].second;
  d.gi = idx / cf.size();
  return d;
}

static sx::EnumCase small_case(const Layout& L) {
  sx::EnumCase c;
  c.name  = L.name + " | all multigraphs n<=3 m<=4(quick 3)";
  c.count = [L](bool th) {
    return small_count(small_maxm(th)) * configs(L, th).size();
  };
  c.run = [L](uint64_t idx, bool th) {
    rt();
    Decoded d = decode_cfg(L, idx, th);
    Ref r     = small_decode(d.gi, small_maxm(th));
    galois::setActiveThreads(d.T);
    Ctx ctx{r, d.T, ENAMES[d.E], th};
    // one report per (case, key), see c11_common.h
    run_reporting_once(L.name, [&]() { L.fn[d.E](ctx); });
  };
  c.describe = [L](uint64_t idx, bool th) {
    Decoded d = decode_cfg(L, idx, th);
    Ref r     = small_decode(d.gi, small_maxm(th));
    return ref_str(r) + " E=" + ENAMES[d.E] + " T=" + std::to_string(d.T);
  };
  return c;
}

static sx::EnumCase family_case(const std::vector<Layout>& Ls) {
  // idx -> (family graph, layout, T, E).  Quick tier: E in {void, pod12};
  // thorough: all four.
  struct D {
    uint64_t gi, l;
    int T, E;
  };
  auto dec = [Ls](uint64_t idx, bool th) {
    D d;
    // the graph varies fastest, so that every 64-input chunk handed to a
    // worker is a mix of cheap and expensive graphs
    d.gi = idx % family().size();
    idx /= family().size();
    int nE = th ? 4 : 2;
    int e  = idx % nE;
    d.E    = th ? e : (e == 0 ? 0 : 3);
    idx /= nE;
    d.T = 1 + idx % 4;
    idx /= 4;
    d.l = idx % Ls.size();
    return d;
  };
  sx::EnumCase c;
  c.name  = "structured family (paths, stars, cliques, skew; <=3000 nodes) | "
            "all layouts";
  c.count = [Ls](bool th) {
    return (uint64_t)family().size() * Ls.size() * 4 * (th ? 4 : 2);
  };
  c.run = [Ls, dec](uint64_t idx, bool th) {
    rt();
    D d = dec(idx, th);
    galois::setActiveThreads(d.T);
    Ctx ctx{family()[d.gi], d.T, ENAMES[d.E], th};
    run_reporting_once("family", [&]() { Ls[d.l].fn[d.E](ctx); });
  };
  c.describe = [Ls, dec](uint64_t idx, bool th) {
    D d = dec(idx, th);
    return Ls[d.l].name + ": " + ref_str(family()[d.gi]) + " E=" +
           ENAMES[d.E] + " T=" + std::to_string(d.T);
  };
  c.weight = 2;
  return c;
}

int main(int argc, char** argv) {
  env_setup();
  grf::remove_stale("c11");
  grf::remove_stale("c11t");
  grf::remove_stale("c11", ".cpp"); // compile-probe sources
  const std::vector<int> ALLE = {0, 1, 2, 3}, ALLT = {1, 2, 3, 4};
  std::vector<Layout> layouts;
  layouts.push_back({"FileGraph fromFile v1/v2", FN4(filegraph_run), ALLE, {1}});
  layouts.push_back({"LC_CSR_Graph builders+views", FN4(csr_run), ALLE, ALLT});
  layouts.push_back({"LC_CSR_Graph findEdgeSortedByDst", FN4(csr_fesbd_run),
                     {0, 1}, {1, 2}});
  layouts.push_back({"LC_CSR_Graph determineUnitRangesFromGraph",
                     FN4(csr_units_run), {0}, ALLT});
  layouts.push_back({"LC_CSR_Graph readGraphFromGRFile v1/v2",
                     FN4(csr_grfile_run), ALLE, {1, 2}, true, 1});
  layouts.push_back({"LC_CSR_CSC_Graph", FN4(csc_run), ALLE, ALLT});
  layouts.push_back({"LC_InOut_Graph", FN4(inout_run), ALLE, ALLT});
  layouts.push_back({"LC_Linear_Graph", FN4(linear_run), ALLE, ALLT});
  layouts.push_back({"LC_InlineEdge_Graph", FN4(inline_run), ALLE, ALLT});
  layouts.push_back({"LC_Morph_Graph", FN4(morph_run), ALLE, ALLT});
  layouts.push_back({"LC_Adaptor_Graph", FN4(adaptor_run), ALLE, ALLT});
  std::vector<sx::EnumCase> en;
  std::vector<Layout> fam;
  for (auto& L : layouts) {
    en.push_back(small_case(L));
    if (L.with_family)
      fam.push_back(L);
  }
  en.push_back(family_case(fam));
  // builders that do not compile cannot present a graph at all: outside C11's
  // statement, kept as an opt-in diagnostic
  if (getenv("VERIF_COMPILE_PROBES"))
    en.push_back(probe_case());
  int rc = sx::sx_main(argc, argv, "C11", {}, en);
  // workers killed at a deadline cannot remove their scratch files
  grf::remove_stale("c11");
  grf::remove_stale("c11t");
  grf::remove_stale("c11", ".cpp");
  return rc;
}

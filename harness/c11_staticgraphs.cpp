// C11: static (local-computation) graphs present exactly the input graph, in
// every layout and view.  Engine E2 (seqx input enumeration).  DESIGN.md 7/C11.
//
// Inputs.  EVERY directed multigraph with n <= 3 nodes and m <= 4 edges given
// as an ORDERED edge list (quick tier: m <= 3), written to a binary .gr file by
// the harness's own encoder (gr_format.h, versions 1 and 2), for the edge data
// types void / uint32_t / uint64_t / a 12-byte POD, with the runtime set to
// T = 1..4 active threads; plus a fixed structured family (paths, stars,
// cliques, skewed degrees, isolated heads/tails, parallel edges; up to 3000
// nodes) for the thread-range / division code.  The edge data of edge #i of
// the list is an injective, non-monotone function of i.
//
// Oracle.  An independent reference (c11_common.h): node count; per node the
// out-edge SEQUENCE in file order for LC_CSR / LC_CSR_CSC / LC_InOut<LC_CSR> /
// LC_Adaptor-over-CSR (CSR is file order by construction), the out-edge
// MULTISET for LC_Linear / LC_InlineEdge / LC_Morph (their headers promise no
// order); in-edges = transposed multiset with the same data; transpose();
// sort*: sorted permutations of the same multiset; findEdge /
// findEdgeSortedByDst: exact membership for every (src,dst); degrees; local
// ranges and unit ranges partition the nodes.
//
// Non-trivial run := the graph has at least two nodes and at least two edges
// (then per-node order, the CSR prefix sum, the slot claiming of transpose /
// constructIncomingEdges and the division of nodes among threads all have more
// than one possible wrong answer).
#include "c11_common.h"

using namespace c11;

// ===========================================================================
// Input enumeration
// ===========================================================================
static int small_maxm(bool thorough) { return thorough ? 4 : 3; }

static uint64_t small_count_n(uint64_t n, int maxm) {
  if (n == 0)
    return 1;
  uint64_t s = 0, p = 1;
  for (int m = 0; m <= maxm; ++m) {
    s += p;
    p *= n * n;
  }
  return s;
}
static uint64_t small_count(int maxm) {
  uint64_t s = 0;
  for (uint64_t n = 0; n <= 3; ++n)
    s += small_count_n(n, maxm);
  return s;
}
// simplest first: n ascending, then m ascending
static Ref small_decode(uint64_t gi, int maxm) {
  for (uint64_t n = 0; n <= 3; ++n) {
    uint64_t c = small_count_n(n, maxm);
    if (gi >= c) {
      gi -= c;
      continue;
    }
    std::vector<grf::Edge> el;
    uint64_t p = 1;
    for (int m = 0; m <= maxm; ++m) {
      if (gi < p) {
        for (int k = 0; k < m; ++k) {
          uint64_t code = gi % (n * n);
          gi /= (n * n);
          el.push_back(grf::Edge(code / n, code % n));
        }
        return make_ref(n, el);
      }
      gi -= p;
      p *= n * n;
    }
  }
  abort();
}

// The structured family (fixed, deterministic).
static std::vector<Ref> build_family() {
  std::vector<Ref> F;
  auto add = [&](const std::string& name, uint64_t n,
                 std::vector<grf::Edge> el) {
    F.push_back(make_ref(n, std::move(el), name));
  };
  for (uint64_t n : {1, 5, 1000, 3000})
    add("isolated" + std::to_string(n), n, {});
  for (uint64_t n : {2, 17, 1000, 3000}) {
    std::vector<grf::Edge> el;
    for (uint64_t i = 0; i + 1 < n; ++i)
      el.push_back(grf::Edge(i, i + 1));
    add("path" + std::to_string(n), n, el);
  }
  for (uint64_t n : {64, 3000}) { // hub 0 -> all, descending destinations
    std::vector<grf::Edge> el;
    for (uint64_t i = n; i-- > 0;)
      el.push_back(grf::Edge(0, i));
    add("outstar" + std::to_string(n), n, el);
  }
  for (uint64_t n : {64, 3000}) { // all -> hub 0
    std::vector<grf::Edge> el;
    for (uint64_t i = 0; i < n; ++i)
      el.push_back(grf::Edge(i, 0));
    add("instar" + std::to_string(n), n, el);
  }
  { // the LAST node is the hub, in both directions
    uint64_t n = 1000;
    std::vector<grf::Edge> el;
    for (uint64_t i = 0; i < n; ++i) {
      el.push_back(grf::Edge(n - 1, (i * 7) % n));
      el.push_back(grf::Edge(i, n - 1));
    }
    add("hublast1000", n, el);
  }
  for (uint64_t k : {8, 40}) { // complete digraph with self loops, rotated
    std::vector<grf::Edge> el;
    for (uint64_t u = 0; u < k; ++u)
      for (uint64_t j = 0; j < k; ++j)
        el.push_back(grf::Edge(u, (u + 1 + j * 3) % k));
    add("clique" + std::to_string(k), k, el);
  }
  for (uint64_t n : {257, 2000}) { // harmonic out-degrees, parallel edges
    std::vector<grf::Edge> el;
    for (uint64_t i = 0; i < n; ++i) {
      uint64_t d = std::min<uint64_t>(n / (i + 1), 600);
      for (uint64_t j = 0; j < d; ++j)
        el.push_back(grf::Edge(i, (i * 7 + j * j * 3 + 1) % n));
    }
    add("skewed" + std::to_string(n), n, el);
  }
  { // skew at the END of the node range
    uint64_t n = 1500;
    std::vector<grf::Edge> el;
    for (uint64_t i = 0; i < n; ++i) {
      uint64_t d = std::min<uint64_t>(n / (n - i), 500);
      for (uint64_t j = 0; j < d; ++j)
        el.push_back(grf::Edge(i, (i + j * 11 + 5) % n));
    }
    add("skewedtail1500", n, el);
  }
  { // second half isolated / first half isolated
    uint64_t n = 1000;
    std::vector<grf::Edge> a, b;
    for (uint64_t i = 0; i < n / 2; ++i) {
      a.push_back(grf::Edge(i, (i * 3 + 1) % (n / 2)));
      a.push_back(grf::Edge(i, i));
      b.push_back(grf::Edge(n / 2 + i, n / 2 + (i * 5 + 2) % (n / 2)));
      b.push_back(grf::Edge(n / 2 + i, i)); // into the isolated half
    }
    add("tailisolated1000", n, a);
    add("headisolated1000", n, b);
  }
  { // parallel edges and self loops everywhere
    uint64_t n = 500;
    std::vector<grf::Edge> el;
    for (uint64_t i = 0; i < n; ++i) {
      for (int k = 0; k < 3; ++k)
        el.push_back(grf::Edge(i, (i + 1) % n));
      for (int k = 0; k < 2; ++k)
        el.push_back(grf::Edge(i, i));
    }
    add("multi500", n, el);
  }
  { // 3-regular, edge list in scrambled order
    uint64_t n = 1024, m = 3 * n;
    std::vector<grf::Edge> el;
    for (uint64_t k = 0; k < m; ++k) {
      uint64_t e = (k * 1571) % m; // 1571 is coprime to 3072
      uint64_t u = e / 3, j = e % 3;
      el.push_back(grf::Edge(u, (u * 5 + j * 341 + 1) % n));
    }
    add("scrambled1024", n, el);
  }
  return F;
}
static const std::vector<Ref>& family() {
  static std::vector<Ref> F = build_family();
  return F;
}

// ===========================================================================
// Run context
// ===========================================================================
struct Ctx {
  const Ref& r;
  int T;          // requested active threads
  const char* en; // edge type name
  bool thorough;
  std::string str() const {
    return ref_str(r) + " E=" + en + " T=" + std::to_string(T);
  }
};

static void finish_run(const Ctx& c, const Adj& observed) {
  if (c.r.n >= 2 && c.r.m >= 2)
    sx::mark_nontrivial();
  sx::outcome(sx::mix(adj_hash(observed), (uint64_t)c.T * 131 + c.en[0]));
}

// ===========================================================================
// FileGraph: the reader underneath every file-based builder
// ===========================================================================
// Returns "" if FileGraph presents exactly the encoded graph, else
// "symptom|message".
template <class E>
static std::string filegraph_diff(const std::string& path, const grf::Csr& c) {
  gg::FileGraph f;
  f.fromFile(path);
  char buf[400];
  if (f.size() != c.n || f.sizeEdges() != c.m) {
    snprintf(buf, sizeof buf, "wrong-size|%zu nodes %zu edges, expected %llu %llu",
             f.size(), f.sizeEdges(), (unsigned long long)c.n,
             (unsigned long long)c.m);
    return buf;
  }
  if (f.edgeSize() != EV<E>::size) {
    snprintf(buf, sizeof buf, "wrong-edge-size|edgeSize()=%zu", f.edgeSize());
    return buf;
  }
  // getEdgeData() asserts / dereferences this pointer
  if (EV<E>::size && c.m && !f.edgeData)
    return "edge-data-missing|the file has edge data but FileGraph found none "
           "(edgeData == nullptr; getEdgeData() asserts, or dereferences "
           "null with NDEBUG)";
  uint64_t u = 0;
  for (auto it = f.begin(); it != f.end(); ++it, ++u) {
    if (*it != u)
      return "wrong-node-ids|node iterator is not 0..n-1";
    if (*f.edge_begin(u) != c.begin(u) || *f.edge_end(u) != c.end(u)) {
      snprintf(buf, sizeof buf,
               "wrong-edge-range|node %llu: [%llu,%llu) expected [%llu,%llu)",
               (unsigned long long)u, (unsigned long long)*f.edge_begin(u),
               (unsigned long long)*f.edge_end(u),
               (unsigned long long)c.begin(u), (unsigned long long)c.end(u));
      return buf;
    }
    for (auto e = f.edge_begin(u); e != f.edge_end(u); ++e) {
      if (f.getEdgeDst(e) != c.dst[*e]) {
        snprintf(buf, sizeof buf,
                 "wrong-destination|edge %llu of node %llu leads to %llu, "
                 "expected %llu",
                 (unsigned long long)*e, (unsigned long long)u,
                 (unsigned long long)f.getEdgeDst(e),
                 (unsigned long long)c.dst[*e]);
        return buf;
      }
      if constexpr (!std::is_void<E>::value) {
        Canon got = EV<E>::canon(f.template getEdgeData<E>(e));
        Canon want = EV<E>::canon_of(c.orig[*e]);
        if (got != want) {
          snprintf(buf, sizeof buf,
                   "wrong-edge-data|edge %llu (%llu->%llu) has data "
                   "%x.%x.%x, the file says %x.%x.%x",
                   (unsigned long long)*e, (unsigned long long)u,
                   (unsigned long long)c.dst[*e], got[0], got[1], got[2],
                   want[0], want[1], want[2]);
          return buf;
        }
      }
    }
  }
  if (u != c.n)
    return "wrong-node-ids|node iterator yields a different number of nodes";
  return "";
}

template <class E>
static void filegraph_run(const Ctx& c) {
  Files<E> files(c.r);
  for (int ver = 1; ver <= 2; ++ver) {
    std::string d = filegraph_diff<E>(files.fwd(ver), c.r.csr);
    if (!d.empty()) {
      size_t bar = d.find('|');
      fail("FileGraph:fromFile-v" + std::to_string(ver) + ":" +
               d.substr(0, bar),
           "%s version %d: %s", c.str().c_str(), ver,
           d.substr(bar + 1).c_str());
    }
    // fromFileInterleaved (what readGraph uses) must agree with fromFile
    gg::FileGraph f;
    f.fromFileInterleaved<E>(files.fwd(ver));
    if (f.size() != c.r.n || f.sizeEdges() != c.r.m)
      fail("FileGraph:fromFileInterleaved:wrong-size", "%s version %d",
           c.str().c_str(), ver);
  }
  finish_run(c, expect_adj<E>(c.r.csr));
}

// Can file version `ver` of this graph be used to test a layout?  Not if the
// FileGraph layer itself misreads it: that is reported once, by the FileGraph
// case, and every builder on top of FileGraph would only repeat it.
template <class E>
static bool usable(Files<E>& files, int ver, bool transposed = false) {
  return filegraph_diff<E>(transposed ? files.tr(ver) : files.fwd(ver),
                           transposed ? files.r.tcsr : files.r.csr)
      .empty();
}

// ===========================================================================
// LC_CSR_Graph
// ===========================================================================
template <class G>
static void csr_ids_are_file_ids(const std::string& K, const NodeMap<G>& nm,
                                 const std::string& ctx) {
  for (size_t i = 0; i < nm.nodes.size(); ++i)
    if ((uint64_t)nm.nodes[i] != i)
      fail(K + ":node-ids-not-0..n-1", "%s: node #%zu is %llu", ctx.c_str(), i,
           (unsigned long long)nm.nodes[i]);
}

// Everything that does not modify the graph.  check_data=false for the
// readUnweighted builder.
template <class E, class G>
static Adj csr_static(const std::string& K, G& g, const Ctx& c,
                      bool check_data = true, bool ranges = true) {
  const Ref& r    = c.r;
  std::string ctx = c.str();
  if (g.size() != r.n)
    fail(K + ":wrong-node-count", "%s: size()=%zu", ctx.c_str(), g.size());
  if (g.sizeEdges() != r.m)
    fail(K + ":wrong-edge-count", "%s: sizeEdges()=%zu", ctx.c_str(),
         g.sizeEdges());
  NodeMap<G> nm = positional_map(K, g, r.n, ctx);
  csr_ids_are_file_ids(K, nm, ctx);
  Adj got  = dump_out<E>(K, g, nm, r.m);
  Adj want = expect_adj<E>(r.csr);
  if (check_data)
    compare_adj(K, "out-edges", got, want, true, ctx);
  else
    compare_adj(K, "out-edges", strip_data(got), strip_data(want), true, ctx);
  for (uint64_t u = 0; u < r.n; ++u) {
    uint64_t k1 = 0, k2 = 0;
    for (auto e : g.edges(u)) {
      (void)e;
      ++k1;
    }
    for (auto e : g.out_edges(u)) {
      (void)e;
      ++k2;
    }
    if (k1 != r.outdeg(u) || k2 != r.outdeg(u))
      fail(K + ":edges()-range-wrong-length", "%s: node %llu: %llu/%llu",
           ctx.c_str(), (unsigned long long)u, (unsigned long long)k1,
           (unsigned long long)k2);
    if (g.getDegree(u) != r.outdeg(u))
      fail(K + ":getDegree-wrong", "%s: node %llu: %llu expected %llu",
           ctx.c_str(), (unsigned long long)u,
           (unsigned long long)g.getDegree(u),
           (unsigned long long)r.outdeg(u));
    if (g[u] != r.csr.end(u) || g.getEdgePrefixSum()[u] != r.csr.end(u))
      fail(K + ":prefix-sum-wrong", "%s: node %llu: %llu expected %llu",
           ctx.c_str(), (unsigned long long)u, (unsigned long long)g[u],
           (unsigned long long)r.csr.end(u));
  }
  for (auto& q : query_pairs(r)) {
    auto e   = g.findEdge(q.first, q.second);
    bool in  = *e >= r.csr.begin(q.first) && *e < r.csr.end(q.first);
    bool hit = in && g.getEdgeDst(e) == q.second;
    bool ok  = has_edge(r, q.first, q.second) ? hit
                                              : e == g.edge_end(q.first);
    if (!ok)
      fail(K + ":findEdge-wrong-answer", "%s: findEdge(%llu,%llu) -> edge %llu",
           ctx.c_str(), (unsigned long long)q.first,
           (unsigned long long)q.second, (unsigned long long)*e);
  }
  if (ranges) {
    check_local_ranges(K, g, nm, ctx);
    // the graph's own edge-balanced division (what initializeLocalRanges uses)
    for (unsigned total = 1; total <= 4; ++total) {
      uint64_t cur = 0;
      for (unsigned id = 0; id < total; ++id) {
        auto nr     = g.divideByNode(0, 1, id, total).first;
        uint64_t lo = *nr.first, hi = *nr.second;
        if (lo == hi)
          continue;
        if (lo != cur || hi < lo || hi > r.n)
          fail(K + ":divideByNode-not-a-partition",
               "%s: part %u of %u is [%llu,%llu), expected to start at %llu",
               ctx.c_str(), id, total, (unsigned long long)lo,
               (unsigned long long)hi, (unsigned long long)cur);
        cur = hi;
      }
      if (cur != r.n)
        fail(K + ":divideByNode-not-a-partition",
             "%s: %u parts cover only %llu nodes", ctx.c_str(), total,
             (unsigned long long)cur);
    }
  }
  return got;
}

template <class E, class G>
static Adj csr_dump(const std::string& K, G& g, const Ctx& c) {
  std::string ctx = c.str();
  NodeMap<G> nm   = positional_map(K, g, c.r.n, ctx);
  return dump_out<E>(K, g, nm, c.r.m);
}

// Views that permute the edges (sorts) or replace the graph (transpose).
template <class E, class G>
static void csr_views(const std::string& L, G& g, const Ctx& c) {
  std::string ctx = c.str();
  const Ref& r    = c.r;
  Adj want        = expect_adj<E>(r.csr);
  Adj wantT       = expect_adj<E>(r.tcsr);
  if constexpr (!std::is_void<E>::value) {
    for (uint64_t u = 0; u < r.n; ++u)
      g.sortEdgesByEdgeData(u, typename EV<E>::Less());
    Adj got = csr_dump<E>(L + ":sortEdgesByEdgeData", g, c);
    compare_adj(L + ":sortEdgesByEdgeData", "out-edges", got, want, false, ctx);
    check_sorted_by_data(L + ":sortEdgesByEdgeData", got, ctx);
  }
  {
    for (uint64_t u = 0; u < r.n; ++u)
      g.sortEdgesByDst(u);
    Adj got = csr_dump<E>(L + ":sortEdgesByDst", g, c);
    compare_adj(L + ":sortEdgesByDst", "out-edges", got, want, false, ctx);
    check_sorted_by_dst(L + ":sortEdgesByDst", got, ctx);
  }
  if constexpr (!std::is_void<E>::value) { // scramble again
    for (uint64_t u = 0; u < r.n; ++u)
      g.sortEdgesByEdgeData(u, typename EV<E>::Less());
  }
  {
    g.sortAllEdgesByDst();
    Adj got = csr_dump<E>(L + ":sortAllEdgesByDst", g, c);
    compare_adj(L + ":sortAllEdgesByDst", "out-edges", got, want, false, ctx);
    check_sorted_by_dst(L + ":sortAllEdgesByDst", got, ctx);
  }
  {
    g.transpose();
    if (g.size() != r.n || g.sizeEdges() != r.m)
      fail(L + ":transpose:wrong-size", "%s", ctx.c_str());
    Adj got = csr_dump<E>(L + ":transpose", g, c);
    compare_adj(L + ":transpose", "out-edges", got, wantT, false, ctx);
    for (uint64_t u = 0; u < r.n; ++u)
      if (g.getDegree(u) != r.indeg(u))
        fail(L + ":transpose:getDegree-wrong", "%s: node %llu", ctx.c_str(),
             (unsigned long long)u);
    g.transpose();
    got = csr_dump<E>(L + ":transpose-twice", g, c);
    compare_adj(L + ":transpose-twice", "out-edges", got, want, false, ctx);
  }
}

template <class E, class G>
static void csr_build_manual(G& g, const Ref& r) {
  g.allocateFrom((uint32_t)r.n, r.m);
  g.constructNodes();
  for (uint64_t u = 0; u < r.n; ++u) {
    for (uint64_t p = r.csr.begin(u); p < r.csr.end(u); ++p) {
      if constexpr (std::is_void<E>::value)
        g.constructEdge(p, (uint32_t)r.csr.dst[p]);
      else
        g.constructEdge(p, (uint32_t)r.csr.dst[p],
                        EV<E>::make(r.csr.orig[p]));
    }
    g.fixEndEdge((uint32_t)u, r.csr.end(u));
  }
  g.initializeLocalRanges();
}

enum { B_VIEWS = 1, B_V2 = 2, B_ALL = 4 };

template <class E, class G>
static void csr_layout(const std::string& L, const Ctx& c, Files<E>& files,
                       unsigned what, Adj* observed) {
  const Ref& r = c.r;
  {
    G g;
    gg::readGraph(g, files.fwd(1));
    Adj a = csr_static<E>(L + ":readGraph", g, c);
    if (observed)
      *observed = a;
    if (what & B_VIEWS)
      csr_views<E>(L, g, c);
  }
  if ((what & B_V2) && usable(files, 2)) {
    G g;
    gg::readGraph(g, files.fwd(2));
    csr_static<E>(L + ":readGraph-v2", g, c);
  }
  if (!(what & B_ALL))
    return;
  { // from an already loaded FileGraph
    gg::FileGraph f;
    f.fromFile(files.fwd(1));
    G g;
    gg::readGraph(g, f);
    csr_static<E>(L + ":readGraph(FileGraph)", g, c);
  }
  { // allocateFrom + constructNodes + constructEdge + fixEndEdge
    G g;
    csr_build_manual<E>(g, r);
    csr_static<E>(L + ":constructEdge", g, c);
  }
  if constexpr (!std::is_void<E>::value) {
    std::vector<uint64_t> prefix(r.csr.outIdx);
    std::vector<std::vector<uint32_t>> ids(r.n);
    galois::gstl::Vector<galois::PODResizeableArray<uint32_t>> ids2(r.n);
    std::vector<std::vector<E>> data(r.n);
    for (uint64_t u = 0; u < r.n; ++u)
      for (uint64_t p = r.csr.begin(u); p < r.csr.end(u); ++p) {
        ids[u].push_back((uint32_t)r.csr.dst[p]);
        ids2[u].push_back((uint32_t)r.csr.dst[p]);
        data[u].push_back(EV<E>::make(r.csr.orig[p]));
      }
    {
      G g;
      g.constructFrom((uint32_t)r.n, r.m, prefix, ids, data);
      csr_static<E>(L + ":constructFrom(vectors)", g, c);
      // documented as reusable ("Deallocate if reusing the graph")
      g.constructFrom((uint32_t)r.n, r.m, prefix, ids, data);
      csr_static<E>(L + ":constructFrom(vectors)-reuse", g, c);
    }
    {
      G g;
      g.constructFrom((uint32_t)r.n, r.m, prefix, ids2, data);
      csr_static<E>(L + ":constructFrom(PODResizeableArray)", g, c);
    }
  }
  { // readUnweighted: structure only
    G g;
    gg::readGraph(g, files.fwd(1), true);
    csr_static<E>(L + ":readGraph(readUnweighted)", g, c, false);
  }
}

// Cost model.  On this kind of machine a Galois parallel region with 3-4
// (sleeping) pool threads costs ~0.1 ms, and transpose() alone is ~16 regions.
// For the enumerated small graphs the full programme (every builder, every
// view) therefore runs with T = 1 and T = 2; with T = 3 and T = 4 each layout
// is built by readGraph (the per-thread constructFrom, whose node division is
// what depends on T) and gets the non-modifying checks incl. the local ranges.
// The structured family runs the full programme for every T.
static bool full_programme(const Ctx& c) { return c.T <= 2 || !c.r.small(); }

// Default layout: every builder, every view.  NUMA-blocked: file builders and
// every view (transpose allocates blocked).  The lockable options change the
// node record size, i.e. the weights of the per-thread division: readGraph only.
template <class E>
static void csr_run(const Ctx& c) {
  Files<E> files(c.r);
  Adj obs;
  bool full = full_programme(c);
  typedef gg::LC_CSR_Graph<int, E> G0;
  csr_layout<E, G0>("LC_CSR_Graph", c, files,
                    full ? B_VIEWS | B_V2 | B_ALL : B_V2, &obs);
  csr_layout<E, typename G0::template with_numa_alloc<true>::type>(
      "LC_CSR_Graph<numa>", c, files, full ? B_VIEWS | B_V2 : 0, nullptr);
  csr_layout<E, typename G0::template with_no_lockable<true>::type>(
      "LC_CSR_Graph<no_lockable>", c, files, 0, nullptr);
  csr_layout<E, typename G0::template with_out_of_line_lockable<true>::type>(
      "LC_CSR_Graph<out_of_line_lockable>", c, files, 0, nullptr);
  finish_run(c, obs);
}

// --- findEdgeSortedByDst (own case: see the findings) ----------------------
template <class E>
static void csr_fesbd_run(const Ctx& c) {
  Files<E> files(c.r);
  typedef gg::LC_CSR_Graph<int, E> G;
  const std::string K = "LC_CSR_Graph:findEdgeSortedByDst";
  G g;
  gg::readGraph(g, files.fwd(1));
  g.sortAllEdgesByDst();
  const Ref& r = c.r;
  auto pairs   = query_pairs(r);
  std::string d = dies_in_child([&]() {
    for (auto& q : pairs)
      (void)g.findEdgeSortedByDst(q.first, q.second);
  });
  if (!d.empty())
    fail(K + ":crash", "%s: some findEdgeSortedByDst(u,v) on the dst-sorted "
                       "graph kills the process: %s",
         c.str().c_str(), d.c_str());
  uint64_t h = 0;
  for (auto& q : pairs) {
    auto e   = g.findEdgeSortedByDst(q.first, q.second);
    bool in  = *e >= r.csr.begin(q.first) && *e < r.csr.end(q.first);
    bool hit = in && g.getEdgeDst(e) == q.second;
    bool ok  = has_edge(r, q.first, q.second) ? hit
                                              : e == g.edge_end(q.first);
    if (!ok)
      fail(K + ":wrong-answer", "%s: findEdgeSortedByDst(%llu,%llu) -> edge %llu",
           c.str().c_str(), (unsigned long long)q.first,
           (unsigned long long)q.second, (unsigned long long)*e);
    h = sx::mix(h, hit);
  }
  if (r.n >= 2 && r.m >= 2)
    sx::mark_nontrivial();
  sx::outcome(h);
}

// --- determineUnitRangesFromGraph (the thread ranges of the graph) ---------
template <class E>
static void csr_units_run(const Ctx& c) {
  Files<E> files(c.r);
  typedef gg::LC_CSR_Graph<int, E> G;
  const std::string K = "determineUnitRangesFromGraph(LC_CSR_Graph)";
  G g;
  gg::readGraph(g, files.fwd(1));
  uint64_t h      = 0;
  uint32_t units  = (uint32_t)c.T;
  for (uint32_t alpha : {0u, 1u, 3u}) {
    std::string ctx = c.str() + " units=" + std::to_string(units) +
                      " nodeAlpha=" + std::to_string(alpha);
    std::string d   = dies_in_child(
        [&]() { (void)gg::determineUnitRangesFromGraph(g, units, alpha); });
    if (!d.empty())
      fail(K + ":crash", "%s: %s", ctx.c_str(), d.c_str());
    auto v = gg::determineUnitRangesFromGraph(g, units, alpha);
    check_boundaries(K, v, units, c.r.n, ctx);
    for (auto x : v)
      h = sx::mix(h, x);
  }
  // clipped to every sub-range of the nodes (small graphs only)
  if (c.r.n <= 3)
    for (uint32_t alpha : {0u, 1u})
      for (uint32_t b = 0; b <= c.r.n; ++b)
        for (uint32_t e = b; e <= c.r.n; ++e) {
          std::string ctx = c.str() + " units=" + std::to_string(units) +
                            " nodeAlpha=" + std::to_string(alpha) +
                            " range=[" + std::to_string(b) + "," +
                            std::to_string(e) + ")";
          std::string d = dies_in_child([&]() {
            (void)gg::determineUnitRangesFromGraph(g, units, b, e, alpha);
          });
          if (!d.empty())
            fail(K + "-clipped:crash", "%s: %s", ctx.c_str(), d.c_str());
          auto w = gg::determineUnitRangesFromGraph(g, units, b, e, alpha);
          std::ostringstream o;
          for (auto x : w)
            o << x << " ";
          bool ok = w.size() == (size_t)units + 1 && w.front() == b &&
                    w.back() == e;
          for (size_t i = 1; ok && i < w.size(); ++i)
            ok = w[i - 1] <= w[i];
          if (!ok)
            fail(K + "-clipped:not-a-partition", "%s: boundaries %s",
                 ctx.c_str(), o.str().c_str());
        }
  if (c.r.n >= 2 && c.r.m >= 2 && c.T >= 2)
    sx::mark_nontrivial();
  sx::outcome(h);
}

// --- readGraphFromGRFile (direct file reader of LC_CSR_Graph) --------------
template <class E>
static void csr_grfile_run(const Ctx& c) {
  Files<E> files(c.r);
  typedef gg::LC_CSR_Graph<int, E> G;
  Adj obs;
  bool failed = false;
  sx::Fail first;
  for (int ver = 1; ver <= 2; ++ver) {
    std::string K = std::string("LC_CSR_Graph:readGraphFromGRFile") +
                    (ver == 2 ? "-v2" : "");
    try {
      const std::string& path = files.fwd(ver);
      std::string d           = dies_in_child([&]() {
        G g;
        g.readGraphFromGRFile(path);
      });
      if (!d.empty())
        fail(K + ":crash", "%s: %s", c.str().c_str(), d.c_str());
      G g;
      g.readGraphFromGRFile(path);
      obs = csr_static<E>(K, g, c);
    } catch (const sx::Fail& f) {
      if (!failed)
        first = f;
      failed = true;
    }
  }
  if (failed)
    throw first;
  finish_run(c, obs);
}

// ===========================================================================
// Case plumbing
// ===========================================================================
typedef void (*RunFn)(const Ctx&);
struct Layout {
  std::string name;
  RunFn fn[4]; // by edge type
  std::vector<int> Es, Ts;
  bool with_family = true;
};
#define FN4(f)                                                                 \
  { f<void>, f<uint32_t>, f<uint64_t>, f<E12> }

struct Decoded {
  uint64_t gi;
  int T, E;
};
static Decoded decode_cfg(const Layout& L, uint64_t idx) {
  Decoded d;
  d.E = L.Es[idx % L.Es.size()];
  idx /= L.Es.size();
  d.T = L.Ts[idx % L.Ts.size()];
  idx /= L.Ts.size();
  d.gi = idx;
  return d;
}

static sx::EnumCase small_case(const Layout& L) {
  sx::EnumCase c;
  c.name  = L.name + " | all multigraphs n<=3 m<=4(quick 3)";
  c.count = [L](bool th) {
    return small_count(small_maxm(th)) * L.Es.size() * L.Ts.size();
  };
  c.run = [L](uint64_t idx, bool th) {
    rt();
    Decoded d = decode_cfg(L, idx);
    Ref r     = small_decode(d.gi, small_maxm(th));
    CpuLease lease(d.T);
    galois::setActiveThreads(d.T);
    Ctx ctx{r, d.T, ENAMES[d.E], th};
    L.fn[d.E](ctx);
  };
  c.describe = [L](uint64_t idx, bool th) {
    Decoded d = decode_cfg(L, idx);
    Ref r     = small_decode(d.gi, small_maxm(th));
    return ref_str(r) + " E=" + ENAMES[d.E] + " T=" + std::to_string(d.T);
  };
  return c;
}

static sx::EnumCase family_case(const std::vector<Layout>& Ls) {
  // idx -> (family graph, layout, T, E); every layout with its own Es/Ts would
  // make decoding irregular, so the family uses all four T and E for all.
  sx::EnumCase c;
  c.name  = "structured family (paths, stars, cliques, skew; <=3000 nodes) | "
            "all layouts";
  c.count = [Ls](bool) { return (uint64_t)family().size() * Ls.size() * 16; };
  c.run   = [Ls](uint64_t idx, bool th) {
    rt();
    int E = idx % 4;
    int T = 1 + (idx / 4) % 4;
    uint64_t l  = (idx / 16) % Ls.size();
    uint64_t gi = idx / 16 / Ls.size();
    CpuLease lease(T);
    galois::setActiveThreads(T);
    Ctx ctx{family()[gi], T, ENAMES[E], th};
    Ls[l].fn[E](ctx);
  };
  c.describe = [Ls](uint64_t idx, bool) {
    int E = idx % 4;
    int T = 1 + (idx / 4) % 4;
    uint64_t l  = (idx / 16) % Ls.size();
    uint64_t gi = idx / 16 / Ls.size();
    return Ls[l].name + ": " + ref_str(family()[gi]) + " E=" + ENAMES[E] +
           " T=" + std::to_string(T);
  };
  c.weight = 2;
  return c;
}

int main(int argc, char** argv) {
  env_setup();
  grf::remove_stale("c11");
  grf::remove_stale("c11t");
  const std::vector<int> ALLE = {0, 1, 2, 3}, ALLT = {1, 2, 3, 4};
  std::vector<Layout> layouts;
  layouts.push_back({"FileGraph fromFile v1/v2", FN4(filegraph_run), ALLE, {1}});
  layouts.push_back({"LC_CSR_Graph builders+views", FN4(csr_run), ALLE, ALLT});
  layouts.push_back({"LC_CSR_Graph findEdgeSortedByDst", FN4(csr_fesbd_run),
                     {0, 1}, {1, 2}});
  layouts.push_back({"LC_CSR_Graph determineUnitRangesFromGraph",
                     FN4(csr_units_run), {0}, ALLT});
  layouts.push_back({"LC_CSR_Graph readGraphFromGRFile v1/v2",
                     FN4(csr_grfile_run), ALLE, {1, 2}});
  std::vector<sx::EnumCase> en;
  std::vector<Layout> fam;
  for (auto& L : layouts) {
    en.push_back(small_case(L));
    if (L.with_family)
      fam.push_back(L);
  }
  en.push_back(family_case(fam));
  return sx::sx_main(argc, argv, "C11", {}, en);
}

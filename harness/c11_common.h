// C11 helpers: runtime bootstrap, reference graphs, edge-data value model,
// generic dump/compare routines.  Included only by c11_staticgraphs.cpp.
#ifndef VERIF_C11_COMMON_H
#define VERIF_C11_COMMON_H

#include "seqx.h"
#include "gr_format.h"

#include "galois/Galois.h"
#include "galois/graphs/LCGraph.h"
#include "galois/graphs/LC_CSR_CSC_Graph.h"
#include "galois/graphs/LC_Adaptor_Graph.h"
#include "galois/runtime/PagePool.h"
#include "galois/substrate/HWTopo.h"

#include <array>
#include <map>
#include <memory>
#include <set>
#include <sstream>
#include <tuple>

#include <dirent.h>
#include <sched.h>
#include <poll.h>
#include <setjmp.h>
#include <signal.h>
#include <sys/mman.h>
#include <sys/syscall.h>

// The in-place fault guard below abandons stack frames (and whatever they
// own) when a Galois call faults, so the leak check at process exit -- which
// only a --replay ever reaches, workers leave through _exit -- would add a
// report of the harness's own doing to every replayed crash finding.
extern "C" const char* __asan_default_options() { return "detect_leaks=0"; }

namespace c11 {

using sx::fail;
namespace gg = galois::graphs;

// ---------------------------------------------------------------------------
// Runtime.  Created lazily in the worker (threads do not survive fork).  The
// thread pool sizes itself from the CPUs the process may run on (HWTopo reads
// Cpus_allowed_list once and caches the answer); only T <= 4 is needed, and
// with a 16-thread pool per worker every FileGraph::fromFileInterleaved would
// wake 16 threads.  So the topology is computed while the affinity mask is
// narrowed to 4 CPUs -- the CPU we are running on plus three more, so that not
// even this thread has to migrate -- and the mask is restored BEFORE the pool
// threads are created (creating them under a narrow mask stalls for minutes
// when those CPUs are occupied by somebody's busy-polling processes).  Pool
// threads are not bound (GALOIS_DO_NOT_BIND_THREADS).
// ---------------------------------------------------------------------------
inline void rt() {
  static galois::SharedMemSys* G = nullptr;
  if (G)
    return;
  cpu_set_t all, few;
  CPU_ZERO(&all);
  CPU_ZERO(&few);
  sched_getaffinity(0, sizeof all, &all);
  int cur = sched_getcpu();
  if (cur < 0 || !CPU_ISSET(cur, &all))
    cur = 0;
  int k = 0;
  for (int i = 0; i < CPU_SETSIZE && k < 4; ++i) {
    int c = (cur + i) % CPU_SETSIZE;
    if (CPU_ISSET(c, &all)) {
      CPU_SET(c, &few);
      ++k;
    }
  }
  sched_setaffinity(0, sizeof few, &few);
  (void)galois::substrate::getHWTopo(); // computed once, cached
  sched_setaffinity(0, sizeof all, &all);
  G = new galois::SharedMemSys();
}

inline void key_table_init();
inline void env_setup() {
  setenv("GALOIS_DO_NOT_BIND_THREADS", "1", 1);
  setenv("GALOIS_DEBUG_SKIP", "1", 1); // gDebug() chatter off (asserts stay on)
  key_table_init();
}

// ---------------------------------------------------------------------------
// One report per key.  A defect typically fails thousands of inputs, but the
// driver keeps only the first 64 failures of a case (in arrival order) before
// it groups them by key, so which keys survive would depend on timing.  The
// harness therefore lets only the FIRST failure of each (case, key) through --
// a table in shared memory, created in main() and inherited by the workers,
// says which keys have been claimed; later failures with a claimed key are
// dropped by the run wrapper (the key is already on record).  A replay runs in
// a fresh process with an empty table, so it always reports.
// ---------------------------------------------------------------------------
struct KeyTable {
  std::atomic<uint64_t> slot[1024];
};
inline KeyTable*& key_table() {
  static KeyTable* t = nullptr;
  return t;
}
inline void key_table_init() { // in main(), before any fork
  void* p = mmap(nullptr, sizeof(KeyTable), PROT_READ | PROT_WRITE,
                 MAP_SHARED | MAP_ANONYMOUS, -1, 0);
  if (p != MAP_FAILED)
    key_table() = (KeyTable*)p; // zero-filled
}
inline std::string& current_case() {
  static std::string s;
  return s;
}
inline uint64_t key_hash(const std::string& key) {
  uint64_t h = sx::hash_str(current_case() + "\x01" + key);
  return h < 8 ? h + 8 : h; // 0 = empty slot, 2 = withdrawn claim
}
inline bool key_seen(const std::string& key) {
  KeyTable* t = key_table();
  if (!t)
    return false;
  uint64_t h = key_hash(key);
  for (uint64_t i = 0; i < 1024; ++i) {
    uint64_t v = t->slot[(h + i) % 1024].load();
    if (v == h)
      return true;
    if (v == 0)
      return false;
  }
  return false;
}
// true iff this call is the first to claim the key
inline bool key_claim(const std::string& key) {
  KeyTable* t = key_table();
  if (!t)
    return true;
  uint64_t h = key_hash(key);
  for (uint64_t i = 0; i < 1024; ++i) {
    std::atomic<uint64_t>& s = t->slot[(h + i) % 1024];
    uint64_t v               = s.load();
    if (v == h)
      return false;
    if (v == 0) {
      uint64_t exp = 0;
      if (s.compare_exchange_strong(exp, h))
        return true;
      if (exp == h)
        return false;
    }
  }
  return true;
}
inline void key_unclaim(const std::string& key) {
  KeyTable* t = key_table();
  if (!t)
    return;
  uint64_t h = key_hash(key);
  for (uint64_t i = 0; i < 1024; ++i) {
    std::atomic<uint64_t>& s = t->slot[(h + i) % 1024];
    uint64_t v               = s.load();
    if (v == h) {
      s.store(2);
      return;
    }
    if (v == 0)
      return;
  }
}
// Keys this run has claimed ahead of the report (so that the expensive
// diagnostics are produced exactly once, by the run that will report).  The
// run wrapper withdraws the claims that the run did not end up reporting.
inline std::set<std::string>& claimed_here() {
  static std::set<std::string> s;
  return s;
}
inline bool claim_for_report(const std::string& key) {
  if (claimed_here().count(key))
    return true;
  if (!key_claim(key))
    return false;
  claimed_here().insert(key);
  return true;
}
// The run wrapper: f() is one run; lets a failure through iff its key is ours.
template <class F>
void run_reporting_once(const std::string& case_name, F f) {
  current_case() = case_name;
  claimed_here().clear();
  try {
    f();
  } catch (const sx::Fail& x) {
    bool mine = claimed_here().count(x.key) || key_claim(x.key);
    for (auto& k : claimed_here())
      if (k != x.key)
        key_unclaim(k);
    claimed_here().clear();
    if (mine)
      throw;
    return;
  }
  for (auto& k : claimed_here())
    key_unclaim(k);
  claimed_here().clear();
}

// Failures that must not stop the rest of the run (known defects).  At the end
// one is rethrown: preferably one whose key this run has claimed, else one
// whose key nobody has claimed yet, else the first.
struct Deferred {
  std::vector<sx::Fail> all;
  template <class F>
  void run(F f) {
    try {
      f();
    } catch (const sx::Fail& x) {
      all.push_back(x);
    }
  }
  void rethrow() {
    for (auto& f : all)
      if (claimed_here().count(f.key))
        throw f;
    for (auto& f : all)
      if (!key_seen(f.key))
        throw f;
    if (!all.empty())
      throw all[0];
  }
};

// ---------------------------------------------------------------------------
// Crash probe.  A call that kills the process would take the worker (and the
// rest of its 64-input chunk) with it and every such input would be reported
// under the one key "<case>:crash".  Calls that are known or suspected to die
// are therefore first tried in a forked child; the child has only the calling
// thread, so it runs with ONE active thread, where every Galois parallel
// construct executes inline (nothing in it may use ThreadPool::run with more
// than one thread, e.g. FileGraph::fromFileInterleaved).
//
// An AddressSanitizer report costs 0.3 s to seconds (symbolizer), and a defect
// that kills the process typically does so for thousands of inputs, so the
// child normally dies quietly (default signal actions); the death is repeated
// with the sanitizer's handler, to obtain its report, only by the one run that
// reports the key (see elaborate()).
// ---------------------------------------------------------------------------
struct Death {
  bool died = false;
  std::string how;
};

inline volatile uint64_t* probe_progress() {
  static volatile uint64_t* p = (volatile uint64_t*)mmap(
      nullptr, 4096, PROT_READ | PROT_WRITE, MAP_SHARED | MAP_ANONYMOUS, -1, 0);
  return p;
}

template <class F>
Death run_in_child(F f, bool quiet) {
  Death D;
  int pfd[2];
  if (pipe(pfd) != 0)
    return D;
  fflush(stdout);
  fflush(stderr);
  pid_t p = fork();
  if (p < 0) {
    close(pfd[0]);
    close(pfd[1]);
    return D;
  }
  if (p == 0) {
    close(pfd[0]);
    dup2(pfd[1], 1);
    dup2(pfd[1], 2);
    if (quiet)
      for (int sig : {SIGSEGV, SIGBUS, SIGFPE, SIGILL})
        signal(sig, SIG_DFL);
    galois::setActiveThreads(1);
    try {
      f();
    } catch (...) {
    }
    _exit(0);
  }
  close(pfd[1]);
  std::string out;
  char buf[4096];
  double t0     = sx::now();
  bool timedout = false;
  for (;;) {
    struct pollfd pf = {pfd[0], POLLIN, 0};
    int r            = poll(&pf, 1, 1000);
    if (r > 0) {
      ssize_t k = read(pfd[0], buf, sizeof buf);
      if (k <= 0)
        break;
      if (out.size() < (1u << 16))
        out.append(buf, (size_t)k);
    } else if (sx::now() - t0 > 60) {
      timedout = true;
      kill(p, SIGKILL);
      break;
    }
  }
  close(pfd[0]);
  int status = 0;
  waitpid(p, &status, 0);
  if (timedout || (WIFEXITED(status) && WEXITSTATUS(status) == 0))
    return D; // survived, or inconclusive
  D.died = true;
  std::string why;
  std::istringstream is(out);
  std::string line;
  while (std::getline(is, line))
    if (line.find("Assertion") != std::string::npos ||
        line.find("ERROR: AddressSanitizer") != std::string::npos ||
        line.find("SUMMARY") != std::string::npos ||
        line.find("ERROR:") != std::string::npos) {
      size_t a = line.find("Assertion");
      why += (a != std::string::npos ? line.substr(a) : line) + " ";
      if (why.size() > 500)
        break;
    }
  if (why.size() > 600)
    why.resize(600);
  D.how = (WIFSIGNALED(status)
               ? "killed by signal " + std::to_string(WTERMSIG(status))
               : "exit status " + std::to_string(WEXITSTATUS(status))) +
          (why.empty() ? "" : ": " + why);
  return D;
}

// Repeats a fatal call in a child with the sanitizer's signal handler in place
// to obtain its report (file:line) -- only if this run is going to be the one
// that reports `key` (see claim_for_report), i.e. once per case and key.
template <class F>
std::string elaborate(F f, const Death& d, const std::string& key) {
  if (d.how.find("signal 6") != std::string::npos) // abort: text is there
    return d.how;
  if (!claim_for_report(key))
    return d.how + " (sanitizer report omitted; the replay prints it)";
  Death d2 = run_in_child(f, false);
  return d2.died ? d2.how : d.how;
}

// Calls 0..k-1, any of which may kill the process.  invoke(i, check) performs
// call i and, if check, verifies its result.  The child runs the calls in
// order and publishes its progress, so one fork suffices when all survive and
// each death costs one more; died(i, how) is told about every call that kills,
// the others are then performed and checked in the worker itself.
template <class Invoke, class KeyOf, class Died>
void guarded_calls(size_t k, Invoke invoke, KeyOf key_of, Died died) {
  volatile uint64_t* prog = probe_progress();
  std::vector<char> dead(k, 0);
  size_t start = 0;
  while (start < k) {
    *prog   = start;
    Death d = run_in_child(
        [&]() {
          for (size_t i = start; i < k; ++i) {
            *prog = i;
            invoke(i, false);
          }
          *prog = k;
        },
        true);
    if (!d.died)
      break;
    size_t i = (size_t)*prog;
    if (i >= k)
      break;
    dead[i] = 1;
    died(i, elaborate([&]() { invoke(i, false); }, d, key_of(i)));
    start = i + 1;
  }
  for (size_t i = 0; i < k; ++i)
    if (!dead[i])
      invoke(i, true);
}

// A fork of this (sanitized, multi-megabyte-mapping) process costs several
// milliseconds, too much for calls that are made for every input.  For calls
// that are purely sequential, hold no resources and are abandoned together
// with the graph they ran on (lookups, a per-node std::sort, the unit-range
// computation) a fatal signal is instead caught in place: the handler jumps
// back out of the call.  Returns 0 or the signal number.
inline sigjmp_buf& fault_jmp() {
  static sigjmp_buf b;
  return b;
}
inline void fault_handler(int sig) { siglongjmp(fault_jmp(), sig); }

template <class F>
int faults_inline(F f) {
  struct Restore {
    struct sigaction old[4];
    const int sigs[4] = {SIGSEGV, SIGBUS, SIGFPE, SIGILL};
    Restore() {
      struct sigaction sa;
      memset(&sa, 0, sizeof sa);
      sa.sa_handler = fault_handler;
      sigemptyset(&sa.sa_mask);
      for (int i = 0; i < 4; ++i)
        sigaction(sigs[i], &sa, &old[i]);
    }
    ~Restore() {
      for (int i = 0; i < 4; ++i)
        sigaction(sigs[i], &old[i], nullptr);
    }
  } restore;
  int sig = sigsetjmp(fault_jmp(), 1);
  if (sig == 0)
    f();
  return sig;
}

// Like guarded_calls, without forking (see above); a call that faults is
// reported through died(i, how); key_of(i) is the key died() will use (the
// fault is repeated in a forked child for the sanitizer's report only by the
// run that reports that key).
template <class Invoke, class KeyOf, class Died>
void guarded_calls_inline(size_t k, Invoke invoke, KeyOf key_of, Died died) {
  for (size_t i = 0; i < k; ++i) {
    int sig = faults_inline([&]() { invoke(i, true); });
    if (sig) {
      Death d;
      d.died = true;
      d.how  = "killed by signal " + std::to_string(sig);
      died(i, elaborate([&]() { invoke(i, false); }, d, key_of(i)));
    }
  }
}

// ---------------------------------------------------------------------------
// Edge data model.  The value of an edge is a function of the edge's index in
// the ordered edge list, injective, and NOT monotone in the index, so that
// sorting by data is a non-trivial permutation.  Canon is a type-independent
// image whose lexicographic order equals the order used for sorting.
// ---------------------------------------------------------------------------
struct E12 { // the 12-byte POD
  uint32_t a, b, c;
};
static_assert(sizeof(E12) == 12, "E12 must be 12 bytes");

typedef std::array<uint32_t, 3> Canon;

inline uint32_t v32(uint64_t i) { return (uint32_t)((i + 1) * 2654435761u); }
inline uint64_t v64(uint64_t i) { return (i + 1) * 0x9E3779B97F4A7C15ull; }

inline void le32(uint8_t* o, uint32_t v) {
  for (int i = 0; i < 4; ++i)
    o[i] = (uint8_t)(v >> (8 * i));
}

template <class E>
struct EV;
template <>
struct EV<void> {
  static constexpr size_t size = 0;
  static const char* name() { return "void"; }
  static Canon canon_of(uint64_t) { return Canon{{0, 0, 0}}; }
  static void bytes(uint64_t, uint8_t*) {}
};
template <>
struct EV<uint32_t> {
  static constexpr size_t size = 4;
  static const char* name() { return "uint32_t"; }
  static uint32_t make(uint64_t i) { return v32(i); }
  static Canon canon(uint32_t v) { return Canon{{v, 0, 0}}; }
  static Canon canon_of(uint64_t i) { return canon(make(i)); }
  static void bytes(uint64_t i, uint8_t* o) { le32(o, make(i)); }
  typedef std::less<uint32_t> Less;
};
template <>
struct EV<uint64_t> {
  static constexpr size_t size = 8;
  static const char* name() { return "uint64_t"; }
  static uint64_t make(uint64_t i) { return v64(i); }
  static Canon canon(uint64_t v) {
    return Canon{{(uint32_t)(v >> 32), (uint32_t)v, 0}};
  }
  static Canon canon_of(uint64_t i) { return canon(make(i)); }
  static void bytes(uint64_t i, uint8_t* o) {
    uint64_t v = make(i);
    le32(o, (uint32_t)v);
    le32(o + 4, (uint32_t)(v >> 32));
  }
  typedef std::less<uint64_t> Less;
};
struct LessE12 {
  bool operator()(const E12& x, const E12& y) const {
    return std::tie(x.a, x.b, x.c) < std::tie(y.a, y.b, y.c);
  }
};
template <>
struct EV<E12> {
  static constexpr size_t size = 12;
  static const char* name() { return "pod12"; }
  static E12 make(uint64_t i) {
    uint32_t a = v32(i) >> 3; // collisions in .a are possible, .c breaks ties
    return E12{a, ~v32(i) ^ 0x5a5a5a5au, (uint32_t)i * 3u + 1u};
  }
  static Canon canon(const E12& v) { return Canon{{v.a, v.b, v.c}}; }
  static Canon canon_of(uint64_t i) { return canon(make(i)); }
  static void bytes(uint64_t i, uint8_t* o) {
    E12 v = make(i);
    le32(o, v.a);
    le32(o + 4, v.b);
    le32(o + 8, v.c);
  }
  typedef LessE12 Less;
};

static const char* const ENAMES[4] = {"void", "uint32_t", "uint64_t", "pod12"};

// ---------------------------------------------------------------------------
// Reference graph: the ordered edge list and the two CSR groupings of it.
// ---------------------------------------------------------------------------
struct Ref {
  uint64_t n = 0, m = 0;
  std::vector<grf::Edge> el;
  grf::Csr csr, tcsr;
  std::string name; // for the structured family
  bool small() const { return n <= 8; }
  uint64_t outdeg(uint64_t u) const { return csr.end(u) - csr.begin(u); }
  uint64_t indeg(uint64_t u) const { return tcsr.end(u) - tcsr.begin(u); }
};

inline Ref make_ref(uint64_t n, std::vector<grf::Edge> el,
                    const std::string& name = "") {
  Ref r;
  r.n    = n;
  r.m    = el.size();
  r.csr  = grf::to_csr(n, el);
  r.tcsr = grf::to_transposed_csr(n, el);
  r.el   = std::move(el);
  r.name = name;
  return r;
}

inline std::string ref_str(const Ref& r) {
  std::ostringstream o;
  if (!r.name.empty()) {
    o << r.name << " (n=" << r.n << " m=" << r.m << ")";
    return o.str();
  }
  o << "n=" << r.n << " edges=[";
  for (size_t i = 0; i < r.el.size(); ++i)
    o << (i ? " " : "") << r.el[i].first << ">" << r.el[i].second;
  o << "]";
  return o.str();
}

template <class E>
std::vector<uint8_t> encode_file(const grf::Csr& c, int version) {
  return grf::encode(version, c, EV<E>::size,
                     [](uint64_t i, uint8_t* o) { EV<E>::bytes(i, o); });
}

// Scratch files of one run, written on first use, removed at scope exit.
template <class E>
struct Files {
  const Ref& r;
  std::unique_ptr<grf::TmpGr> f[3], t[3];
  int ok[2][3] = {{-1, -1, -1}, {-1, -1, -1}}; // memo of "FileGraph reads it"
  explicit Files(const Ref& r_) : r(r_) {}
  const std::string& fwd(int ver) {
    if (!f[ver])
      f[ver].reset(new grf::TmpGr("c11", encode_file<E>(r.csr, ver)));
    return f[ver]->path();
  }
  const std::string& tr(int ver) { // the transposed graph, same edge data
    if (!t[ver])
      t[ver].reset(new grf::TmpGr("c11t", encode_file<E>(r.tcsr, ver)));
    return t[ver]->path();
  }
};

// ---------------------------------------------------------------------------
// Observed adjacency and comparison
// ---------------------------------------------------------------------------
typedef std::pair<uint64_t, Canon> DE;   // (neighbour id, edge data)
typedef std::vector<std::vector<DE>> Adj; // per node

template <class E>
Adj expect_adj(const grf::Csr& c) {
  Adj a(c.n);
  for (uint64_t u = 0; u < c.n; ++u)
    for (uint64_t p = c.begin(u); p < c.end(u); ++p)
      a[u].push_back(DE(c.dst[p], EV<E>::canon_of(c.orig[p])));
  return a;
}

inline Adj strip_data(Adj a) {
  for (auto& l : a)
    for (auto& e : l)
      e.second = Canon{{0, 0, 0}};
  return a;
}

inline std::string list_str(const std::vector<DE>& l) {
  std::ostringstream o;
  o << "[";
  for (size_t i = 0; i < l.size() && i < 8; ++i)
    o << (i ? " " : "") << l[i].first << ":" << std::hex << l[i].second[0]
      << "." << l[i].second[1] << "." << l[i].second[2] << std::dec;
  if (l.size() > 8)
    o << " ...(" << l.size() << ")";
  o << "]";
  return o.str();
}

inline uint64_t adj_hash(const Adj& a) {
  uint64_t h = a.size();
  for (auto& l : a) {
    h = sx::mix(h, l.size());
    for (auto& e : l)
      h = sx::mix(sx::mix(h, e.first),
                  ((uint64_t)e.second[0] << 32) ^ e.second[1] ^
                      ((uint64_t)e.second[2] << 17));
  }
  return h;
}

// key = "<component>:<builder-or-view>"; symptoms are appended.
inline void compare_adj(const std::string& key, const char* view,
                        const Adj& got, const Adj& want, bool ordered,
                        const std::string& ctx) {
  std::string K = key + ":" + view;
  if (got.size() != want.size())
    fail(K + "-wrong-node-count", "%s: %zu nodes, expected %zu", ctx.c_str(),
         got.size(), want.size());
  for (size_t u = 0; u < got.size(); ++u) {
    if (ordered ? got[u] == want[u] : false)
      continue;
    std::vector<DE> gs = got[u], ws = want[u];
    std::sort(gs.begin(), gs.end());
    std::sort(ws.begin(), ws.end());
    if (gs == ws) {
      if (ordered)
        fail(K + "-wrong-order", "%s: node %zu has %s, file order is %s",
             ctx.c_str(), u, list_str(got[u]).c_str(),
             list_str(want[u]).c_str());
      continue;
    }
    const char* sym = "-wrong-edge-data";
    if (gs.size() != ws.size())
      sym = "-wrong-degree";
    else
      for (size_t i = 0; i < gs.size(); ++i)
        if (gs[i].first != ws[i].first) {
          // data travels with the destination: compare destination multisets
          std::vector<uint64_t> gd, wd;
          for (auto& e : gs)
            gd.push_back(e.first);
          for (auto& e : ws)
            wd.push_back(e.first);
          std::sort(gd.begin(), gd.end());
          std::sort(wd.begin(), wd.end());
          if (gd != wd)
            sym = "-wrong-destinations";
          break;
        }
    fail(K + sym, "%s: node %zu has %s, expected %s%s", ctx.c_str(), u,
         list_str(got[u]).c_str(), list_str(want[u]).c_str(),
         ordered ? " (in this order)" : " (as a multiset)");
  }
}

inline void check_sorted_by_dst(const std::string& key, const Adj& got,
                                const std::string& ctx) {
  for (size_t u = 0; u < got.size(); ++u)
    for (size_t i = 1; i < got[u].size(); ++i)
      if (got[u][i - 1].first > got[u][i].first)
        fail(key + ":not-sorted", "%s: node %zu: %s", ctx.c_str(), u,
             list_str(got[u]).c_str());
}
inline void check_sorted_by_data(const std::string& key, const Adj& got,
                                 const std::string& ctx) {
  for (size_t u = 0; u < got.size(); ++u)
    for (size_t i = 1; i < got[u].size(); ++i)
      if (got[u][i].second < got[u][i - 1].second)
        fail(key + ":not-sorted", "%s: node %zu: %s", ctx.c_str(), u,
             list_str(got[u]).c_str());
}

// ---------------------------------------------------------------------------
// Node identity.  For the integer-id layouts the GraphNode IS the file id; for
// the pointer layouts whose node iterator walks an array indexed by file id
// (LC_Linear, LC_InlineEdge) the id is the position in begin()..end().
// ---------------------------------------------------------------------------
template <class G>
struct NodeMap {
  typedef typename G::GraphNode GN;
  std::vector<GN> nodes;
  std::map<GN, uint64_t> ids;
  uint64_t id(const std::string& key, GN n) const {
    auto it = ids.find(n);
    if (it == ids.end())
      fail(key + ":edge-to-unknown-node",
           "an edge leads to a node that the node iterator never yielded");
    return it->second;
  }
  void add(const std::string& key, GN n) {
    if (!ids.insert(std::make_pair(n, (uint64_t)nodes.size())).second)
      fail(key + ":node-yielded-twice", "node iterator yields a node twice");
    nodes.push_back(n);
  }
};

template <class G>
NodeMap<G> positional_map(const std::string& key, G& g, uint64_t expect_n,
                          const std::string& ctx) {
  NodeMap<G> nm;
  uint64_t guard = 0;
  for (auto it = g.begin(), e = g.end(); it != e; ++it) {
    if (++guard > expect_n + 4)
      break;
    nm.add(key, *it);
  }
  if (nm.nodes.size() != expect_n)
    fail(key + ":wrong-node-count", "%s: node iterator yields %s%zu nodes",
         ctx.c_str(), guard > expect_n + 4 ? "more than " : "",
         nm.nodes.size());
  return nm;
}

template <class E, class G, class EI>
Canon edata(G& g, EI e) {
  if constexpr (std::is_void<E>::value)
    return Canon{{0, 0, 0}};
  else
    return EV<E>::canon(g.getEdgeData(e));
}

template <class E, class G>
Adj dump_out(const std::string& key, G& g, const NodeMap<G>& nm,
             uint64_t total_edges) {
  Adj a(nm.nodes.size());
  for (size_t u = 0; u < nm.nodes.size(); ++u) {
    auto n        = nm.nodes[u];
    uint64_t seen = 0;
    for (auto it = g.edge_begin(n), e = g.edge_end(n); it != e; ++it) {
      if (++seen > total_edges + 4)
        fail(key + ":edge-range-runaway",
             "node %zu: edge_begin..edge_end yields more edges than the graph "
             "has",
             u);
      a[u].push_back(DE(nm.id(key, g.getEdgeDst(it)), edata<E>(g, it)));
    }
  }
  return a;
}

// (u,v) pairs for the membership queries: all pairs for the small graphs, a
// fixed sample for the structured family.
inline std::vector<std::pair<uint64_t, uint64_t>> query_pairs(const Ref& r) {
  std::vector<std::pair<uint64_t, uint64_t>> q;
  if (r.n <= 8) {
    for (uint64_t u = 0; u < r.n; ++u)
      for (uint64_t v = 0; v < r.n; ++v)
        q.push_back(std::make_pair(u, v));
    return q;
  }
  std::set<uint64_t> us = {0, 1, 2, r.n / 2, r.n - 2, r.n - 1};
  for (uint64_t k = 0; k < 12; ++k)
    us.insert((k * 2654435761u) % r.n);
  for (uint64_t u : us) {
    std::set<uint64_t> vs = {0, r.n - 1, u};
    uint64_t cnt          = 0;
    for (uint64_t p = r.csr.begin(u); p < r.csr.end(u) && cnt < 24;
         ++p, ++cnt) {
      vs.insert(r.csr.dst[p]);
      vs.insert((r.csr.dst[p] + 1) % r.n);
    }
    for (uint64_t v : vs)
      q.push_back(std::make_pair(u, v));
  }
  return q;
}

inline bool has_edge(const Ref& r, uint64_t u, uint64_t v) {
  for (uint64_t p = r.csr.begin(u); p < r.csr.end(u); ++p)
    if (r.csr.dst[p] == v)
      return true;
  return false;
}

// local_begin()/local_end() of every active thread: each node exactly once.
template <class G>
void check_local_ranges(const std::string& key, G& g, const NodeMap<G>& nm,
                        const std::string& ctx) {
  unsigned T = galois::getActiveThreads();
  std::vector<std::vector<uint64_t>> got(T);
  std::vector<int> bad(T, 0);
  uint64_t n = nm.nodes.size();
  galois::on_each([&](unsigned tid, unsigned) {
    if (tid >= T)
      return;
    uint64_t guard = 0;
    for (auto it = g.local_begin(), e = g.local_end(); it != e; ++it) {
      if (++guard > n + 4) {
        bad[tid] = 1;
        break;
      }
      auto f = nm.ids.find(*it);
      if (f == nm.ids.end()) {
        bad[tid] = 2;
        break;
      }
      got[tid].push_back(f->second);
    }
  });
  std::vector<int> cnt(n, 0);
  std::ostringstream o;
  for (unsigned t = 0; t < T; ++t) {
    o << " t" << t << "=[";
    for (auto x : got[t]) {
      o << x << " ";
      cnt[x]++;
    }
    o << "]";
    if (bad[t])
      fail(key + ":local-range-invalid",
           "%s: thread %u of %u: local_begin..local_end %s", ctx.c_str(), t, T,
           bad[t] == 1 ? "does not terminate within the node count"
                       : "yields something that is not a node");
  }
  for (uint64_t u = 0; u < n; ++u)
    if (cnt[u] != 1)
      fail(key + ":local-ranges-not-a-partition",
           "%s: node %llu is in %d local ranges with %u threads:%s",
           ctx.c_str(), (unsigned long long)u, cnt[u], T,
           n <= 16 ? o.str().c_str() : "");
}

inline void check_boundaries(const std::string& key,
                             const std::vector<uint32_t>& r, unsigned units,
                             uint64_t n, const std::string& ctx) {
  std::ostringstream o;
  for (auto x : r)
    o << x << " ";
  if (r.size() != units + 1 || r.front() != 0 || r.back() != n)
    fail(key + ":not-covering", "%s: %u units over %llu nodes: boundaries %s",
         ctx.c_str(), units, (unsigned long long)n, o.str().c_str());
  for (size_t i = 1; i < r.size(); ++i)
    if (r[i - 1] > r[i])
      fail(key + ":not-ordered", "%s: %u units: boundaries %s", ctx.c_str(),
           units, o.str().c_str());
}

} // namespace c11
#endif

// C09: allocators hand out disjoint, aligned, sufficiently large live blocks.
// Engine E2 (seqx history BFS), sequential half only.  DESIGN.md 7/C09 "E2".
//
// Every case replays an operation history on the REAL allocator and on a
// shadow model built during the same run:
//   * interval map of live blocks [addr, addr+usable) -- a new block must not
//     intersect a live one (this is also "reused only after it was freed");
//   * a per-block canary pattern written at allocation and re-checked after
//     EVERY step (catches allocator metadata written into live blocks, and
//     overlap the interval map cannot see); dense up to 64 KiB, sampled for
//     larger blocks (see "canaries" below);
//   * usability: a block must lie inside memory the allocator owns -- one 2 MiB
//     unit of a mapping the library itself requested (mmap is interposed
//     below), or one live malloc chunk (asked from ASan) -- for its whole
//     length;  so "returned size >= request" is checked for real.
//   * alignment: 8 bytes (heaps), GALOIS_CACHE_LINE_SIZE (per-thread-storage
//     offsets), allocSize() relative to the base of the library's own mapping
//     (page pool, LargeArray).  Whether the kernel puts that mapping on an
//     absolute 2 MiB boundary is printed as a note, never asserted.
//
// Fresh heap OBJECTS are used where the type allows it (BumpHeap,
// VariableSizeHeap, the SizedHeap stack behind FixedSizeHeap,
// BumpWithMallocHeap, a private PerBackend); the process-global ones
// (SizedHeapFactory / FixedSizeHeap, Pow_2_BlockHeap, page pool, PageHeap, the
// global per-thread-storage backend) cannot be reset, so all their checks are
// relative to the shadow model and every history gives back what it took.
//
// BFS key = abstract state of the shadow model (live blocks as size/thread in
// allocation order, blocks freed during this history per size class / thread)
// plus, for fresh objects only, deterministic internals (bump offset, page
// count, free-list length).  Never an address.
//
// Logical threads: one OS thread impersonates Galois thread t by installing
// t's ThreadPool::my_box.topo, ptsBase and pssBase (DESIGN 2.8); rt() checks
// the impersonation once per worker against a real on_each.
//
// Non-trivial rule (sx::mark_nontrivial), per case family:
//   sized heaps : a cross-thread free happened, or an allocation returned an
//                 address freed earlier in the same history, or a fresh heap
//                 needed a second page;
//   bump heaps  : a second page was needed, or allocate(size,allocated)
//                 returned a partial block, or a malloc fall-back block was
//                 handed out, or an allocation followed clear();
//   page pool   : a page freed in this history came back, or a cross-thread
//                 free happened;
//   PerBackend  : the bump region was exhausted (free-list path), a larger free
//                 offset was split, or a deallocation moved nextLoc back;
//   PTS objects : an object was created after a deletion in this history;
//   LargeArray  : two arrays were live at once, or an array was re-allocated
//                 after deallocate.
//
// Findings on the unchanged tree (kept as checks, reported, not repaired here):
//   BumpHeap:allocate2:null-block / BumpHeap:allocate2:outside-allocator-memory
//     BumpHeap::allocate(size, allocated) with no current block (never used
//     heap, or after clear()) takes the "remaining space" branch and returns
//     (char*)nullptr + offset with allocated == size.
//   BumpHeap:allocate2:exceeds-page
//     the same overload, current page exactly full and size > 2 MiB - 8:
//     refills and hands out 2 MiB starting 8 bytes into the new 2 MiB page.
#include "seqx.h"

#include "galois/Galois.h"
#include "galois/LargeArray.h"
#include "galois/Mem.h"
#include "galois/runtime/Mem.h"
#include "galois/runtime/PagePool.h"
#include "galois/substrate/PageAlloc.h"
#include "galois/substrate/PerThreadStorage.h"
#include "galois/substrate/ThreadPool.h"

#include <dlfcn.h>
#include <map>
#include <memory>
#include <set>
#include <sstream>
#include <sys/syscall.h>

#if defined(__SANITIZE_ADDRESS__)
#include <sanitizer/asan_interface.h>
#define C09_ASAN 1
#define C09_NOASAN __attribute__((no_sanitize_address))
#else
#define C09_ASAN 0
#define C09_NOASAN
#endif

namespace gr = galois::runtime;
namespace gs = galois::substrate;
using sx::fail;

#if C09_ASAN
// 16 workers x the default 256 MiB quarantine of freed multi-MiB malloc
// fall-back blocks is memory the exploration does not need
extern "C" const char* __asan_default_options() {
  return "quarantine_size_mb=32";
}
#endif

static const size_t PAGE = 2u << 20; // == allocSize(), verified in rt()

// ---------------------------------------------------------------------------
// mmap / munmap interposition: table of the private anonymous mappings the
// library requested.  Pool pages and per-thread-storage pages are one 2 MiB
// mapping each; a LargeArray is one mapping of k pages.
// ---------------------------------------------------------------------------
namespace mm {
struct Rec {
  uintptr_t base;
  size_t len;
};
static const int CAP = 1 << 17;
static Rec tab[CAP];
static int n;
static int lk;
static bool overflow;
static void lock() {
  while (__atomic_exchange_n(&lk, 1, __ATOMIC_ACQUIRE)) {
  }
}
static void unlock() { __atomic_store_n(&lk, 0, __ATOMIC_RELEASE); }
// index of the last record with base <= a, or -1
static int locate(uintptr_t a) {
  int lo = 0, hi = n;
  while (lo < hi) {
    int mid = (lo + hi) / 2;
    if (tab[mid].base <= a)
      lo = mid + 1;
    else
      hi = mid;
  }
  return lo - 1;
}
static void add(uintptr_t b, size_t len) {
  lock();
  if (n < CAP) {
    int i = locate(b) + 1;
    memmove(&tab[i + 1], &tab[i], (n - i) * sizeof(Rec));
    tab[i] = Rec{b, len};
    ++n;
  } else
    overflow = true;
  unlock();
}
static void del(uintptr_t b, size_t len) {
  lock();
  uintptr_t e = b + len;
  for (int i = 0; i < n;) {
    Rec& r      = tab[i];
    uintptr_t re = r.base + r.len;
    if (re <= b || r.base >= e) {
      ++i;
      continue;
    }
    if (b <= r.base && e >= re) { // fully covered
      memmove(&tab[i], &tab[i + 1], (n - i - 1) * sizeof(Rec));
      --n;
      continue;
    }
    if (b <= r.base) { // prefix removed
      r.len  = re - e;
      r.base = e;
    } else if (e >= re) { // suffix removed
      r.len = b - r.base;
    } else { // hole: keep the front part only (never happens with Galois)
      r.len = b - r.base;
    }
    ++i;
  }
  unlock();
}
static bool find(uintptr_t a, Rec& out) {
  lock();
  int i   = locate(a);
  bool ok = i >= 0 && a < tab[i].base + tab[i].len;
  if (ok)
    out = tab[i];
  unlock();
  return ok;
}
} // namespace mm

extern "C" void* mmap(void* addr, size_t len, int prot, int flags, int fd,
                      off_t off) {
  typedef void* (*fn_t)(void*, size_t, int, int, int, off_t);
  static fn_t real = (fn_t)dlsym(RTLD_NEXT, "mmap");
  bool anon_priv   = (flags & MAP_ANONYMOUS) && (flags & MAP_PRIVATE);
  if (anon_priv) // start-up cost only, no semantic effect (DESIGN 2.1)
    flags &= ~(MAP_POPULATE | MAP_HUGETLB);
  void* p = real ? real(addr, len, prot, flags, fd, off)
                 : (void*)syscall(SYS_mmap, addr, len, prot, flags, fd, off);
  if (p != MAP_FAILED && anon_priv && addr == nullptr)
    mm::add((uintptr_t)p, len);
  return p;
}

extern "C" int munmap(void* addr, size_t len) {
  typedef int (*fn_t)(void*, size_t);
  static fn_t real = (fn_t)dlsym(RTLD_NEXT, "munmap");
  int r = real ? real(addr, len) : (int)syscall(SYS_munmap, addr, len);
  if (r == 0)
    mm::del((uintptr_t)addr, len);
  return r;
}

// ---------------------------------------------------------------------------
// runtime, logical threads
// ---------------------------------------------------------------------------
static std::vector<gs::ThreadTopoInfo> g_topo;
static std::vector<char*> g_pts, g_pss;
static unsigned g_maxT;

struct Imp { // impersonate Galois thread t on this OS thread
  gs::ThreadTopoInfo saved;
  char *pts, *pss;
  explicit Imp(int t) {
    saved                        = gs::ThreadPool::my_box.topo;
    pts                          = gs::ptsBase;
    pss                          = gs::pssBase;
    gs::ThreadPool::my_box.topo = g_topo[t];
    gs::ptsBase                  = g_pts[t];
    gs::pssBase                  = g_pss[t];
  }
  ~Imp() {
    gs::ThreadPool::my_box.topo = saved;
    gs::ptsBase                  = pts;
    gs::pssBase                  = pss;
  }
};

static const unsigned ACTIVE = 3;

// seqx evaluates the root state (empty history) in the exploring parent
// process, which must never start the Galois runtime (its threads would not
// survive the fork of the workers).  The root gets a key of its own there; a
// history that comes back to the empty abstract state is simply explored once
// more.  Replay mode runs in-process and is not affected.
static pid_t g_explorer_pid = 0;
static bool in_explorer(const std::vector<int>& h) {
  return h.empty() && g_explorer_pid && getpid() == g_explorer_pid;
}

// A corrupted free list can turn into an endless loop inside the allocator (or
// inside the harness code that walks it for the key), and seqx waits for its
// workers without a timeout.  SIGALRM's default action ends the worker, which
// seqx reports as `<case>:crash` for the history that was running.
struct Watchdog { // seconds per history; C09_WATCHDOG overrides (self-tests)
  Watchdog() {
    static const unsigned secs =
        getenv("C09_WATCHDOG") ? (unsigned)atoi(getenv("C09_WATCHDOG")) : 300;
    alarm(secs);
  }
  ~Watchdog() { alarm(0); }
};

static void rt() {
  static bool ready = false;
  if (ready)
    return;
  // Galois sizes its pool from Cpus_allowed_list; a worker is re-created for
  // every BFS level, and 16 pool threads (ASan stacks, 2 MiB of per-thread
  // storage each) would dominate the run time.  Narrow the affinity mask to 4
  // CPUs while the topology is read and the pool is built, then restore it;
  // nothing below depends on the thread count beyond ACTIVE.
  cpu_set_t all, few;
  bool narrowed = false;
  if (sched_getaffinity(0, sizeof all, &all) == 0) {
    CPU_ZERO(&few);
    int got = 0;
    for (int cpu = 0; cpu < CPU_SETSIZE && got < 4; ++cpu)
      if (CPU_ISSET(cpu, &all)) {
        CPU_SET(cpu, &few);
        ++got;
      }
    narrowed = got == 4 && sched_setaffinity(0, sizeof few, &few) == 0;
  }
  static galois::SharedMemSys* G = new galois::SharedMemSys();
  (void)G;
  if (narrowed) { // every pool thread inherited the narrow mask
    galois::setActiveThreads(gs::getThreadPool().getMaxThreads());
    galois::on_each(
        [&](unsigned, unsigned) { sched_setaffinity(0, sizeof all, &all); });
  }
  galois::setActiveThreads(ACTIVE);
  auto& tp = gs::getThreadPool();
  g_maxT   = tp.getMaxThreads();
  g_topo.clear();
  g_pts.clear();
  g_pss.clear();
  for (unsigned t = 0; t < g_maxT; ++t) {
    g_topo.push_back(tp.signals[t]->topo);
    g_pts.push_back(gs::getPTSBackend().heads[t].load());
    g_pss.push_back(gs::getPPSBackend().heads[t].load());
  }
  if (gs::allocSize() != PAGE || gr::pagePoolSize() != PAGE)
    fail("harness:page-size", "allocSize()=%zu, harness assumes %zu",
         gs::allocSize(), PAGE);
  if (g_maxT < ACTIVE)
    fail("harness:too-few-threads", "maxThreads=%u", g_maxT);
  // the impersonation must agree with what the real threads see
  gs::PerThreadStorage<unsigned> probe;
  galois::on_each(
      [&](unsigned tid, unsigned) { *probe.getLocal() = 1000 + tid; });
  for (unsigned t = 0; t < ACTIVE; ++t) {
    Imp im(t);
    if (gs::ThreadPool::getTID() != t || probe.getLocal() != probe.getRemote(t) ||
        *probe.getLocal() != 1000 + t)
      fail("harness:impersonation-broken", "logical thread %u", t);
  }
  ready = true;
}

// ---------------------------------------------------------------------------
// canaries
// ---------------------------------------------------------------------------
static inline uint8_t pat(uint64_t seed, size_t i) {
  return (uint8_t)(seed >> (8 * (i & 7)));
}

C09_NOASAN static void canary_fill(uint8_t* p, size_t n, uint64_t seed) {
  size_t i = 0;
  if (((uintptr_t)p & 7) == 0) {
    uint64_t* w = (uint64_t*)p;
    for (; i + 8 <= n; i += 8)
      w[i / 8] = seed;
  }
  for (; i < n; ++i)
    p[i] = pat(seed, i);
}

// first corrupted index in [lo,hi), or -1
C09_NOASAN static long canary_scan(const uint8_t* p, size_t lo, size_t hi,
                                   uint64_t seed) {
  size_t i = lo;
  for (; i < hi && ((uintptr_t)(p + i) & 7 || (i & 7)); ++i)
    if (p[i] != pat(seed, i))
      return (long)i;
  for (; i + 8 <= hi; i += 8)
    if (*(const uint64_t*)(p + i) != seed) {
      for (size_t j = i; j < i + 8; ++j)
        if (p[j] != pat(seed, j))
          return (long)j;
    }
  for (; i < hi; ++i)
    if (p[i] != pat(seed, i))
      return (long)i;
  return -1;
}

// Blocks up to FULL_LIMIT carry a dense canary: every byte written, every byte
// re-read after each step.  Larger blocks carry a sampled canary: the first
// and last 4 KiB of the block (where a neighbour's overrun or a free-list link
// written into a live block lands) plus 64 bytes at every ABSOLUTE 4 KiB
// boundary inside it (where Galois keeps its page headers and page free-list
// links); for blocks in freshly mapped memory (malloc fall-back, LargeArray)
// the stride is 64 KiB because first-touch page faults would otherwise
// dominate the run time.  The full extent of every block is still checked
// against the interval map and the mapping table / ASan chunk.
static const size_t FULL_LIMIT = 64 << 10;

template <class F> // f(lo, hi): sampled index ranges of a large block
static void sampled_ranges(uintptr_t a, size_t n, size_t step, F f) {
  f((size_t)0, (size_t)4096);
  f(n - 4096, n);
  uintptr_t A = (a + 4096 + step - 1) / step * step;
  for (; A + 64 <= a + n - 4096; A += step)
    f((size_t)(A - a), (size_t)(A - a) + 64);
}

C09_NOASAN static void canary_fill_range(uint8_t* p, size_t lo, size_t hi,
                                         uint64_t seed) {
  for (size_t i = lo; i < hi; ++i)
    p[i] = pat(seed, i);
}

// step == 0: dense
static void canary_write(uint8_t* p, size_t n, uint64_t seed, size_t step) {
  if (!step)
    canary_fill(p, n, seed);
  else
    sampled_ranges((uintptr_t)p, n, step, [&](size_t lo, size_t hi) {
      canary_fill_range(p, lo, hi, seed);
    });
}

static long canary_check(const uint8_t* p, size_t n, uint64_t seed,
                         size_t step) {
  if (!step)
    return canary_scan(p, 0, n, seed);
  long r = -1;
  sampled_ranges((uintptr_t)p, n, step, [&](size_t lo, size_t hi) {
    if (r < 0)
      r = canary_scan(p, lo, hi, seed);
  });
  return r;
}

// ---------------------------------------------------------------------------
// shadow model
// ---------------------------------------------------------------------------
enum Backing {
  B_PAGE,         // inside ONE 2 MiB unit of a library mapping (pool page)
  B_MAPPING,      // inside one library mapping
  B_HEAP_OR_PAGE, // pool page if inside a mapping, else one malloc chunk
};

struct Blk {
  uintptr_t a;
  size_t n;   // usable bytes the allocator promised
  size_t cls; // request size to hand back to deallocate()
  int thr;    // logical thread that allocated
  int tag;    // case specific
  int serial;
  uint64_t seed;
  bool in_map;
  size_t step; // 0: dense canary, else sampling stride (see above)
};

class Shadow {
public:
  std::map<uintptr_t, Blk> live;
  std::vector<uintptr_t> order;   // allocation order
  std::set<uintptr_t> freed_here; // block starts freed during this history
  int serial       = 0;
  int reuse_seen   = 0;
  int heap_blocks  = 0; // malloc-backed blocks seen
  size_t relalign  = 0; // if set: (addr - mapping base) % relalign == 0

  const Blk& admit(const std::string& comp, void* vp, size_t n, size_t align,
                   Backing bk, size_t cls, int thr, int tag = 0,
                   bool fill = true) {
    uintptr_t a = (uintptr_t)vp;
    if (!vp)
      fail(comp + ":null-block", "returned nullptr for %zu usable bytes", n);
    if (a % align)
      fail(comp + ":misaligned", "block address %% %zu = %zu", align,
           (size_t)(a % align));
    mm::Rec m;
    bool inmap = mm::find(a, m);
    if (mm::overflow)
      fail("harness:mapping-table-overflow", "more than %d mappings", mm::CAP);
    if (bk == B_PAGE || bk == B_MAPPING || inmap) {
      if (!inmap)
        fail(comp + ":outside-allocator-memory",
             "block %p (%zu bytes) is in no mapping the library requested", vp,
             n);
      uintptr_t lo = m.base, hi = m.base + m.len;
      if (bk != B_MAPPING) {
        lo = m.base + (a - m.base) / PAGE * PAGE;
        hi = std::min<uintptr_t>(lo + PAGE, hi);
      }
      if (relalign && (a - m.base) % relalign)
        fail(comp + ":misaligned-in-mapping",
             "block is %zu bytes into the library's own mapping, not a "
             "multiple of %zu",
             (size_t)(a - m.base), relalign);
      if (a + n > hi)
        fail(comp + (bk == B_MAPPING ? ":exceeds-mapping" : ":exceeds-page"),
             "block starts %zu bytes into its %zu-byte %s and is promised %zu "
             "usable bytes: runs %zu bytes past the end",
             (size_t)(a - lo), (size_t)(hi - lo),
             bk == B_MAPPING ? "mapping" : "page", n, (size_t)(a + n - hi));
    } else {
#if C09_ASAN
      char nm[16];
      void* ra        = nullptr;
      size_t rs       = 0;
      const char* kind = __asan_locate_address(vp, nm, sizeof nm, &ra, &rs);
      if (strcmp(kind, "heap") != 0)
        fail(comp + ":outside-allocator-memory",
             "block %p (%zu bytes) is neither in a library mapping nor in a "
             "malloc chunk (asan: %s)",
             vp, n, kind);
      if (a < (uintptr_t)ra || a + n > (uintptr_t)ra + rs ||
          __asan_region_is_poisoned(vp, n))
        fail(comp + ":exceeds-chunk",
             "block is %zu bytes into a %zu-byte malloc chunk and is promised "
             "%zu usable bytes",
             (size_t)(a - (uintptr_t)ra), rs, n);
#endif
      heap_blocks++;
    }
    auto it = live.upper_bound(a);
    if (it != live.end() && it->first < a + n)
      overlap(comp, a, n, it->second);
    if (it != live.begin()) {
      auto pv = std::prev(it);
      if (pv->first + pv->second.n > a)
        overlap(comp, a, n, pv->second);
    }
    if (freed_here.count(a))
      reuse_seen++;
    Blk b;
    b.a      = a;
    b.n      = n;
    b.cls    = cls;
    b.thr    = thr;
    b.tag    = tag;
    b.serial = serial++;
    b.seed   = sx::mix(b.serial + 1, 0xC09) | 0x0101010101010101ULL;
    b.in_map = inmap;
    b.step   = n <= FULL_LIMIT                ? 0
               : (!inmap || bk == B_MAPPING) ? (size_t)65536
                                             : (size_t)4096;
    if (fill)
      canary_write((uint8_t*)vp, n, b.seed, b.step);
    order.push_back(a);
    return live[a] = b;
  }

  [[noreturn]] void overlap(const std::string& comp, uintptr_t a, size_t n,
                            const Blk& o) {
    fail(comp + ":overlaps-live-block",
         "new block [+0,+%zu) intersects live block #%d (%zu bytes, allocated "
         "on t%d) which starts %ld bytes from it",
         n, o.serial, o.n, o.thr, (long)(o.a - a));
  }

  void verify(const std::string& comp, const Blk& b, bool full,
              const char* when) {
    (void)full;
    long bad = canary_check((const uint8_t*)b.a, b.n, b.seed, b.step);
    if (bad >= 0)
      fail(comp + ":live-block-corrupted",
           "live block #%d (%zu bytes, t%d) changed at byte %ld %s", b.serial,
           b.n, b.thr, bad, when);
  }

  void verify_all(const std::string& comp, bool full, const char* when) {
    for (auto& kv : live)
      verify(comp, kv.second, full, when);
  }

  // the caller is about to give the block back: full check, scribble, forget
  Blk retire(const std::string& comp, uintptr_t a) {
    Blk b = live.at(a);
    verify(comp, b, true, "before it was freed");
    canary_write((uint8_t*)a, b.n, 0xEEEEEEEEEEEEEEEEULL, b.step);
    live.erase(a);
    order.erase(std::find(order.begin(), order.end(), a));
    freed_here.insert(a);
    return b;
  }

  // blocks die without a per-block free (clear()): check, forget, don't touch
  void retire_all(const std::string& comp, const char* when) {
    verify_all(comp, true, when);
    for (auto& kv : live)
      freed_here.insert(kv.first);
    live.clear();
    order.clear();
  }

  // coarse observable outcome: multiset of live block sizes (seqx counts
  // distinct outcomes in a fixed 4M-slot table, so this must stay small)
  uint64_t outcome_sig() const {
    std::vector<size_t> v;
    for (auto& kv : live)
      v.push_back(kv.second.n);
    std::sort(v.begin(), v.end());
    uint64_t h = 0xC09;
    for (size_t x : v)
      h = sx::mix(h, x);
    return h;
  }

  std::string key() const {
    std::ostringstream o;
    o << "L:";
    for (uintptr_t a : order) {
      const Blk& b = live.at(a);
      o << b.n << "/" << b.cls << "/t" << b.thr << "/" << b.tag << ",";
    }
    return o.str();
  }
};

template <class Ops> // tolerate an index that belongs to another case
static std::string opname_of(const Ops& ops, int i) {
  return i >= 0 && (size_t)i < ops.size() ? ops[i].nm : std::string("<op?>");
}

static std::string szname(size_t s) {
  char b[64];
  if (s >= PAGE - 64 && s <= PAGE + 64) {
    long d = (long)s - (long)PAGE;
    snprintf(b, sizeof b, "2MiB%s%ld", d >= 0 ? "+" : "", d);
    if (d == 0)
      snprintf(b, sizeof b, "2MiB");
  } else if (s >= (1u << 20) && s % (1u << 20) == 0)
    snprintf(b, sizeof b, "%zuMiB", s >> 20);
  else if (s >= 65536 && s % 1024 == 0)
    snprintf(b, sizeof b, "%zuKiB", s >> 10);
  else
    snprintf(b, sizeof b, "%zu", s);
  return b;
}

// ---------------------------------------------------------------------------
// 1. heaps with a fixed request size per call and a real deallocate:
//    FixedSizeHeap (global factory), the SizedHeap stack as a fresh object,
//    Pow_2_BlockHeap.
// ---------------------------------------------------------------------------
struct SizedApi {
  virtual ~SizedApi() {}
  virtual void* alloc(size_t s)            = 0; // called while impersonating
  virtual void dealloc(void* p, size_t s)  = 0; // called while impersonating
  virtual std::string internals(int) { return ""; }
  virtual bool second_page(int) { return false; }
};
typedef std::function<std::unique_ptr<SizedApi>()> SizedFactory;

static sx::BfsCase sized_case(const std::string& name, const std::string& comp,
                              std::vector<size_t> sizes, int T, Backing bk,
                              SizedFactory mk, int qd, int td, int weight = 1) {
  struct Op {
    int kind; // 0 alloc, 1 free newest, 2 free oldest
    size_t s;
    int t;
    std::string nm;
  };
  auto ops = std::make_shared<std::vector<Op>>();
  for (size_t s : sizes)
    for (int t = 0; t < T; ++t)
      ops->push_back(
          {0, s, t, "alloc(" + szname(s) + ")@t" + std::to_string(t)});
  for (int t = 0; t < T; ++t)
    ops->push_back({1, 0, t, "free(newest)@t" + std::to_string(t)});
  for (int t = 0; t < T; ++t)
    ops->push_back({2, 0, t, "free(oldest)@t" + std::to_string(t)});
  sx::BfsCase c;
  c.name           = name;
  c.nops           = (int)ops->size();
  c.opname         = [ops](int i) { return opname_of(*ops, i); };
  c.quick_depth    = qd;
  c.thorough_depth = td;
  c.weight         = weight;
  c.run            = [=](const std::vector<int>& h) -> std::string {
    if (in_explorer(h))
      return "ROOT";
    Watchdog wd;
    rt();
    std::unique_ptr<SizedApi> api = mk();
    Shadow sh;
    std::map<std::pair<size_t, int>, int> freed; // (class, thread) -> count
    bool cross = false;
    struct Guard { // give everything back, also when a check throws
      Shadow& sh;
      SizedApi& api;
      ~Guard() {
        for (auto& kv : sh.live) {
          Imp im(kv.second.thr);
          api.dealloc((void*)kv.first, kv.second.cls);
        }
      }
    } guard{sh, *api};
    for (int o : h) {
      const Op& op = (*ops)[o];
      if (op.kind == 0) {
        void* p;
        {
          Imp im(op.t);
          p = api->alloc(op.s);
        }
        sh.admit(comp, p, op.s, 8, bk, op.s, op.t);
        int& f = freed[{op.s, op.t}];
        if (f > 0)
          --f;
      } else if (!sh.order.empty()) {
        uintptr_t a = op.kind == 1 ? sh.order.back() : sh.order.front();
        Blk b       = sh.retire(comp, a);
        {
          Imp im(op.t);
          api->dealloc((void*)a, b.cls);
        }
        freed[{b.cls, op.t}]++;
        if (b.thr != op.t)
          cross = true;
      }
      sh.verify_all(comp, false, ("after " + op.nm).c_str());
    }
    sh.verify_all(comp, true, "at the end of the history");
    std::ostringstream k;
    k << sh.key() << " F:";
    for (auto& kv : freed)
      if (kv.second)
        k << kv.first.first << "@t" << kv.first.second << "=" << kv.second
          << ",";
    k << " " << api->internals(T);
    if (cross || sh.reuse_seen || api->second_page(T))
      sx::mark_nontrivial();
    sx::outcome(sh.outcome_sig() ^ (cross ? 0x10 : 0) ^
                (api->second_page(T) ? 0x20 : 0) ^
                (uint64_t)std::min(sh.reuse_seen, 3) << 8);
    return k.str();
  };
  return c;
}

struct FixedGlobalApi : SizedApi { // the public FixedSizeHeap, global factory
  void* alloc(size_t s) override {
    gr::FixedSizeHeap h(s);
    return h.allocate(s);
  }
  void dealloc(void* p, size_t s) override {
    gr::FixedSizeHeap h(s);
    h.deallocate(p);
  }
};

// the heap type FixedSizeHeap hands out, as a FRESH object per history, so the
// bump pointer and the page chain start empty and page boundaries are reached
struct SizedFreshApi : SizedApi {
  typedef gr::SizedHeapFactory::SizedHeap Heap; // TPH<FreeList<Bump<System>>>
  typedef gr::FreeListHeap<gr::BumpHeap<gr::SystemHeap>> FL;
  typedef gr::BumpHeap<gr::SystemHeap> BH;
  Heap h;
  void* alloc(size_t s) override { return h.allocate(s); }
  void dealloc(void* p, size_t) override { h.deallocate(p); }
  static int pages(BH& b) {
    int n = 0;
    for (auto* x = b.head; x; x = x->next)
      ++n;
    return n;
  }
  std::string internals(int T) override {
    std::ostringstream o;
    for (int t = 0; t < T; ++t) {
      FL* f  = h.heaps.getRemote(t);
      int fl = 0;
      for (auto* x = f->head; x; x = x->next)
        ++fl;
      BH& b = *f;
      o << "t" << t << ":fl=" << fl << ",off=" << b.offset
        << ",pg=" << pages(b) << " ";
    }
    return o.str();
  }
  bool second_page(int T) override {
    for (int t = 0; t < T; ++t) {
      BH& b = *h.heaps.getRemote(t);
      if (pages(b) > 1)
        return true;
    }
    return false;
  }
};

struct Pow2Api : SizedApi {
  void* alloc(size_t s) override {
    return gr::Pow_2_BlockHeap::getInstance()->allocateBlock(s);
  }
  void dealloc(void* p, size_t s) override {
    gr::Pow_2_BlockHeap::getInstance()->deallocateBlock(p, s);
  }
};

// ---------------------------------------------------------------------------
// 2. bump heaps: allocate(size), allocate(size, allocated), no-op deallocate,
//    clear().  BumpHeap<SystemHeap>, VariableSizeHeap, IterAllocBaseTy through
//    PerIterAllocTy.
// ---------------------------------------------------------------------------
struct BumpApi {
  virtual ~BumpApi() {}
  virtual void* alloc1(size_t s)                  = 0;
  virtual void* alloc2(size_t, size_t&) { return nullptr; }
  virtual void dealloc(void* p)                   = 0;
  virtual void clear()                            = 0;
  virtual std::string internals(int T)            = 0;
  virtual bool second_page(int T)                 = 0;
};
typedef std::function<std::unique_ptr<BumpApi>()> BumpFactory;

template <class BH>
static int chain_len(BH& b) {
  int n = 0;
  for (auto* x = b.head; x; x = x->next)
    ++n;
  return n;
}

static sx::BfsCase bump_case(const std::string& name, const std::string& comp,
                             std::vector<size_t> sizes1,
                             std::vector<size_t> sizes2, int T, Backing bk,
                             BumpFactory mk, int qd, int td, int weight = 1) {
  struct Op {
    int kind; // 0 alloc1, 1 alloc2, 2 dealloc newest, 3 clear
    size_t s;
    int t;
    std::string nm;
  };
  auto ops = std::make_shared<std::vector<Op>>();
  auto th  = [T](int t) { return T > 1 ? "@t" + std::to_string(t) : ""; };
  for (size_t s : sizes1)
    for (int t = 0; t < T; ++t)
      ops->push_back({0, s, t, "allocate(" + szname(s) + ")" + th(t)});
  for (size_t s : sizes2)
    for (int t = 0; t < T; ++t)
      ops->push_back(
          {1, s, t, "allocate(" + szname(s) + ",allocated)" + th(t)});
  ops->push_back({2, 0, 0, "deallocate(newest)"});
  ops->push_back({3, 0, 0, "clear()"});
  sx::BfsCase c;
  c.name           = name;
  c.nops           = (int)ops->size();
  c.opname         = [ops](int i) { return opname_of(*ops, i); };
  c.quick_depth    = qd;
  c.thorough_depth = td;
  c.weight         = weight;
  c.run            = [=](const std::vector<int>& h) -> std::string {
    if (in_explorer(h))
      return "ROOT";
    Watchdog wd;
    rt();
    Shadow sh;
    // declared after sh: the heap is destroyed (pages go back to the pool)
    // before the shadow, and no block is touched after that
    std::unique_ptr<BumpApi> api = mk();
    bool partial = false, after_clear = false, cleared = false;
    for (int o : h) {
      const Op& op = (*ops)[o];
      if (op.kind == 0) {
        void* p;
        {
          Imp im(op.t);
          p = api->alloc1(op.s);
        }
        sh.admit(comp + ":allocate", p, op.s, 8, bk, op.s, op.t);
        after_clear |= cleared;
      } else if (op.kind == 1) {
        size_t got = 0;
        void* p;
        {
          Imp im(op.t);
          p = api->alloc2(op.s, got);
        }
        // "Allocates size bytes but may fail.  If so, [allocated < size] and
        // allocated is the number of bytes allocated in the returned buffer"
        // (Mem.h); unit-mem loops until the request is used up, so a call
        // must make progress.
        if (got == 0)
          fail(comp + ":allocate2:zero-bytes",
               "allocate(%zu, allocated) set allocated = 0", op.s);
        sh.admit(comp + ":allocate2", p, got, 8, bk, op.s, op.t);
        if (got < op.s)
          partial = true;
        after_clear |= cleared;
      } else if (op.kind == 2) {
        if (!sh.order.empty()) {
          uintptr_t a = sh.order.back();
          Blk b       = sh.retire(comp, a);
          Imp im(b.thr);
          api->dealloc((void*)a);
        }
      } else {
        // every block handed out since the last clear() must still be intact
        sh.retire_all(comp, "when clear() was called");
        api->clear();
        cleared = true;
      }
      sh.verify_all(comp, false, ("after " + op.nm).c_str());
    }
    sh.verify_all(comp, true, "at the end of the history");
    std::string k = sh.key() + " " + api->internals(T);
    if (partial || after_clear || sh.heap_blocks || api->second_page(T))
      sx::mark_nontrivial();
    sx::outcome(sh.outcome_sig() ^ (partial ? 0x20 : 0) ^
                (after_clear ? 0x40 : 0) ^ (api->second_page(T) ? 0x80 : 0) ^
                (uint64_t)std::min(sh.heap_blocks, 3) << 8);
    sh.live.clear(); // blocks die with the heap object
    return k;
  };
  return c;
}

struct BumpDirectApi : BumpApi { // BumpHeap<SystemHeap>, fresh
  gr::BumpHeap<gr::SystemHeap> h;
  void* alloc1(size_t s) override { return h.allocate(s); }
  void* alloc2(size_t s, size_t& got) override { return h.allocate(s, got); }
  void dealloc(void* p) override { h.deallocate(p); }
  void clear() override { h.clear(); }
  std::string internals(int) override {
    return "off=" + std::to_string(h.offset) + ",pg=" +
           std::to_string(chain_len(h));
  }
  bool second_page(int) override { return chain_len(h) > 1; }
};

struct VarHeapApi : BumpApi { // VariableSizeHeap = TPH<BumpHeap<SystemHeap>>
  gr::VariableSizeHeap h;
  void* alloc1(size_t s) override { return h.allocate(s); }
  void* alloc2(size_t s, size_t& got) override { return h.allocate(s, got); }
  void dealloc(void* p) override { h.deallocate(p); }
  void clear() override { h.clear(); }
  std::string internals(int T) override {
    std::ostringstream o;
    for (int t = 0; t < T; ++t) {
      auto& b = *h.heaps.getRemote(t);
      o << "t" << t << ":off=" << b.offset << ",pg=" << chain_len(b) << " ";
    }
    return o.str();
  }
  bool second_page(int T) override {
    for (int t = 0; t < T; ++t)
      if (chain_len(*h.heaps.getRemote(t)) > 1)
        return true;
    return false;
  }
};

// per-iteration allocator: the heap UserContext owns plus the STL adaptor the
// operator sees; clear() is what commit/abort call (UserContext::__resetAlloc)
struct IterAllocApi : BumpApi {
  galois::IterAllocBaseTy h;
  galois::PerIterAllocTy a{&h};
  void* alloc1(size_t s) override { return a.allocate(s); }
  void dealloc(void* p) override { a.deallocate((char*)p, 1); }
  void clear() override { h.clear(); }
  std::string internals(int) override {
    int fb = 0;
    for (auto* x = h.fallbackHead; x; x = x->next)
      ++fb;
    int fl = 0; // pages parked in the FreeListHeap below
    typedef gr::FreeListHeap<gr::SystemHeap> FL;
    for (auto* x = static_cast<FL&>(h).head; x; x = x->next)
      ++fl;
    return "off=" + std::to_string(h.offset) + ",pg=" +
           std::to_string(chain_len(h)) + ",fb=" + std::to_string(fb) +
           ",fl=" + std::to_string(fl);
  }
  bool second_page(int) override { return chain_len(h) > 1; }
};

// ---------------------------------------------------------------------------
// 3. page pool (pagePoolAlloc/Free/PreAlloc) together with PageHeap, which
//    takes its pages from the same pool
// ---------------------------------------------------------------------------
static sx::BfsCase pagepool_case(int T, int qd, int td) {
  struct Op {
    int kind; // 0 pool alloc, 1 PageHeap alloc, 2 free newest, 3 free oldest,
              // 4 prealloc
    int t;
    std::string nm;
  };
  auto ops = std::make_shared<std::vector<Op>>();
  auto th  = [](int t) { return "@t" + std::to_string(t); };
  for (int t = 0; t < T; ++t)
    ops->push_back({0, t, "pagePoolAlloc()" + th(t)});
  for (int t = 0; t < T; ++t)
    ops->push_back({1, t, "PageHeap::allocate(2MiB)" + th(t)});
  for (int t = 0; t < T; ++t)
    ops->push_back({2, t, "free(newest)" + th(t)});
  for (int t = 0; t < T; ++t)
    ops->push_back({3, t, "free(oldest)" + th(t)});
  for (int t = 0; t < T; ++t)
    ops->push_back({4, t, "pagePoolPreAlloc(1)" + th(t)});
  sx::BfsCase c;
  c.name           = "page pool + PageHeap, " + std::to_string(T) + " threads";
  c.nops           = (int)ops->size();
  c.opname         = [ops](int i) { return opname_of(*ops, i); };
  c.quick_depth    = qd;
  c.thorough_depth = td;
  c.run            = [=](const std::vector<int>& h) -> std::string {
    if (in_explorer(h))
      return "ROOT";
    Watchdog wd;
    rt();
    const std::string comp = "pagePool";
    gr::PageHeap* ph       = gr::PageHeap::getInstance();
    Shadow sh;
    sh.relalign = PAGE;
    // key-only model of where freed pages wait (owner thread of each page):
    // pool[o] = pages freed in this history into owner o's list;
    // phfree[t] = owners of the pages on PageHeap's free list of thread t
    std::vector<int> pool(T, 0), prealloc(T, 0);
    std::vector<std::vector<int>> phfree(T);
    bool cross = false;
    struct Guard {
      Shadow& sh;
      gr::PageHeap* ph;
      int T;
      std::vector<int>& pre;
      ~Guard() {
        for (auto& kv : sh.live) {
          Imp im(kv.second.thr);
          if (kv.second.tag == 1)
            ph->deallocate((void*)kv.first);
          else
            gr::pagePoolFree((void*)kv.first);
        }
        // PageHeap keeps freed pages per thread; hand them back to the pool
        // so the next history starts with empty PageHeap free lists
        for (int t = 0; t < T; ++t)
          ph->innerHeap.heaps.getRemote(t)->clear();
        // pagePoolPreAlloc grows the pool for good.  To keep the worker's
        // memory bounded over 10^5 histories the harness takes as many pages
        // out of the pool again (it owns them then) and unmaps them instead
        // of ever giving them back.
        for (int t = 0; t < T; ++t)
          for (int i = 0; i < pre[t]; ++i) {
            Imp im(t);
            munmap(gr::pagePoolAlloc(), PAGE);
          }
      }
    } guard{sh, ph, T, prealloc};
    for (int o : h) {
      const Op& op = (*ops)[o];
      if (op.kind == 0 || op.kind == 1) {
        void* p;
        {
          Imp im(op.t);
          p = op.kind == 0 ? gr::pagePoolAlloc() : ph->allocate(PAGE);
        }
        int owner = op.t;
        if (op.kind == 1 && !phfree[op.t].empty()) {
          owner = phfree[op.t].back();
          phfree[op.t].pop_back();
        } else if (pool[op.t] > 0)
          pool[op.t]--;
        // tag: which API owns it; cls: owner thread (key only)
        sh.admit(op.kind == 0 ? comp : std::string("PageHeap"), p, PAGE, 8,
                 B_PAGE, (size_t)owner, op.t, op.kind);
      } else if (op.kind == 2 || op.kind == 3) {
        if (!sh.order.empty()) {
          uintptr_t a = op.kind == 2 ? sh.order.back() : sh.order.front();
          Blk b       = sh.retire(comp, a);
          Imp im(op.t);
          if (b.tag == 1) {
            ph->deallocate((void*)a);
            phfree[op.t].push_back((int)b.cls);
          } else {
            gr::pagePoolFree((void*)a);
            pool[b.cls]++;
          }
          if (b.thr != op.t)
            cross = true;
        }
      } else if (prealloc[op.t] < 2) { // bounded: pre-allocated pages stay
        Imp im(op.t);
        gr::pagePoolPreAlloc(1);
        pool[op.t]++;
        prealloc[op.t]++;
      }
      sh.verify_all(comp, false, ("after " + op.nm).c_str());
    }
    sh.verify_all(comp, true, "at the end of the history");
    std::ostringstream k;
    k << sh.key() << " pool:";
    for (int t = 0; t < T; ++t)
      k << pool[t] << "/" << prealloc[t] << ",";
    k << " ph:";
    for (int t = 0; t < T; ++t) {
      for (int o : phfree[t])
        k << o;
      k << "|";
    }
    if (cross || sh.reuse_seen)
      sx::mark_nontrivial();
    sx::outcome(sh.outcome_sig() ^ (cross ? 0x10 : 0) ^
                (uint64_t)std::min(sh.reuse_seen, 3) << 8);
    return k.str();
  };
  return c;
}

// ---------------------------------------------------------------------------
// 4. PerBackend::allocOffset / deallocOffset on a PRIVATE instance: offsets
//    only, never dereferenced
// ---------------------------------------------------------------------------
static sx::BfsCase perbackend_case(int qd, int td) {
  static const unsigned SZ[] = {1, 129, 1000, 256u << 10, 512u << 10, 1u << 20};
  const int NS               = 6;
  struct Op {
    int kind; // 0 alloc, 1 dealloc newest, 2 dealloc oldest, 3 dealloc 2nd
    unsigned s;
    std::string nm;
  };
  auto ops = std::make_shared<std::vector<Op>>();
  for (int i = 0; i < NS; ++i)
    ops->push_back({0, SZ[i], "allocOffset(" + szname(SZ[i]) + ")"});
  ops->push_back({1, 0, "deallocOffset(newest)"});
  ops->push_back({2, 0, "deallocOffset(oldest)"});
  ops->push_back({3, 0, "deallocOffset(second newest)"});
  sx::BfsCase c;
  c.name           = "PerBackend::allocOffset/deallocOffset (private instance)";
  c.nops           = (int)ops->size();
  c.opname         = [ops](int i) { return opname_of(*ops, i); };
  c.quick_depth    = qd;
  c.thorough_depth = td;
  c.run            = [=](const std::vector<int>& h) -> std::string {
    const std::string comp = "PerBackend";
    Watchdog wd;
    gs::PerBackend pb;
    std::vector<std::pair<unsigned, unsigned>> live; // (offset, requested)
    bool freelist = false, split = false, bumpback = false, oom = false;
    auto cls = [](unsigned s) {
      unsigned ll = 7;
      while ((1u << ll) < s)
        ++ll;
      return ll;
    };
    for (int o : h) {
      const Op& op = (*ops)[o];
      if (op.kind == 0) {
        // allocOffset GALOIS_DIEs when the fixed 2 MiB region cannot serve the
        // request; that is the documented out-of-memory behaviour, not a
        // property violation, so such calls are kept out of the history
        unsigned ll    = cls(op.s);
        unsigned next  = pb.nextLoc.load();
        bool bump      = next + (1u << ll) <= PAGE;
        unsigned index = ll;
        while (index < pb.freeOffsets.size() && pb.freeOffsets[index].empty())
          ++index;
        if (!bump && index == pb.freeOffsets.size()) {
          oom = true;
          continue;
        }
        if (!bump) {
          freelist = true;
          if (index > ll)
            split = true;
        }
        unsigned off = pb.allocOffset(op.s);
        if (off % gs::GALOIS_CACHE_LINE_SIZE)
          fail(comp + ":misaligned-offset",
               "allocOffset(%u) = %u, not a multiple of %d", op.s, off,
               gs::GALOIS_CACHE_LINE_SIZE);
        if ((size_t)off + op.s > PAGE)
          fail(comp + ":offset-exceeds-region",
               "allocOffset(%u) = %u ends %zu bytes past the %zu-byte "
               "per-thread region",
               op.s, off, (size_t)off + op.s - PAGE, PAGE);
        for (auto& lv : live)
          if (off < lv.first + lv.second && lv.first < off + op.s)
            fail(comp + ":overlaps-live-offset",
                 "allocOffset(%u) = %u intersects live [%u,+%u)", op.s, off,
                 lv.first, lv.second);
        live.push_back({off, op.s});
      } else if (!live.empty()) {
        size_t i = op.kind == 1   ? live.size() - 1
                   : op.kind == 2 ? 0
                                  : (live.size() >= 2 ? live.size() - 2 : 0);
        unsigned before = pb.nextLoc.load();
        pb.deallocOffset(live[i].first, live[i].second);
        if (pb.nextLoc.load() < before)
          bumpback = true;
        live.erase(live.begin() + i);
      }
    }
    std::ostringstream k;
    k << "L:";
    for (auto& lv : live)
      k << lv.first << "+" << lv.second << ",";
    k << " next=" << pb.nextLoc.load() << " free:";
    for (size_t i = 0; i < pb.freeOffsets.size(); ++i)
      if (!pb.freeOffsets[i].empty()) {
        k << i << "[";
        for (unsigned v : pb.freeOffsets[i])
          k << v << ",";
        k << "]";
      }
    if (freelist || split || bumpback)
      sx::mark_nontrivial();
    {
      std::vector<unsigned> v;
      for (auto& lv : live)
        v.push_back(lv.second);
      std::sort(v.begin(), v.end());
      uint64_t hsig = pb.nextLoc.load() >> 17; // 128 KiB buckets
      for (unsigned x : v)
        hsig = sx::mix(hsig, x);
      sx::outcome(hsig ^ (freelist ? 1 : 0) ^ (split ? 2 : 0) ^
                  (bumpback ? 4 : 0) ^ (oom ? 8 : 0));
    }
    return k.str();
  };
  return c;
}

// ---------------------------------------------------------------------------
// 5. real PerThreadStorage<T> / PerSocketStorage<T> objects on the global
//    backends: every thread's (socket's) copy is a block
// ---------------------------------------------------------------------------
template <size_t N>
struct Blob {
  char d[N];
  Blob() {} // no value-initialisation: the harness fills the canary
};

struct PtsObj {
  size_t sz;
  bool per_socket;
  std::vector<uintptr_t> blocks;
  virtual ~PtsObj() {}
  virtual void* remote(unsigned t) = 0;
  virtual void* local()            = 0;
};
template <size_t N>
struct PtsImpl : PtsObj {
  gs::PerThreadStorage<Blob<N>> s;
  PtsImpl() {
    sz         = N;
    per_socket = false;
  }
  void* remote(unsigned t) override { return s.getRemote(t); }
  void* local() override { return s.getLocal(); }
};
template <size_t N>
struct PssImpl : PtsObj {
  gs::PerSocketStorage<Blob<N>> s;
  PssImpl() {
    sz         = N;
    per_socket = true;
  }
  void* remote(unsigned t) override { return s.getRemote(t); }
  void* local() override { return s.getLocal(); }
};

static sx::BfsCase pts_objects_case(int qd, int td) {
  struct Op {
    int kind; // 0 new, 1 delete newest, 2 delete oldest
    int which;
    std::string nm;
  };
  static const char* NM[] = {"PerThreadStorage<1B>",   "PerThreadStorage<129B>",
                             "PerThreadStorage<1000B>", "PerSocketStorage<129B>",
                             "PerThreadStorage<200000B>"};
  auto ops = std::make_shared<std::vector<Op>>();
  for (int i = 0; i < 5; ++i)
    ops->push_back({0, i, std::string("new ") + NM[i]});
  ops->push_back({1, 0, "delete newest"});
  ops->push_back({2, 0, "delete oldest"});
  sx::BfsCase c;
  c.name   = "PerThreadStorage/PerSocketStorage objects (global backends)";
  c.nops   = (int)ops->size();
  c.opname = [ops](int i) { return opname_of(*ops, i); };
  c.quick_depth    = qd;
  c.thorough_depth = td;
  c.run            = [=](const std::vector<int>& h) -> std::string {
    if (in_explorer(h))
      return "ROOT";
    Watchdog wd;
    rt();
    const std::string comp = "PerThreadStorage";
    Shadow sh;
    std::vector<std::unique_ptr<PtsObj>> objs;
    auto& tp = gs::getThreadPool();
    int big  = 0;
    // offsets given back during this history and not handed out again since,
    // per (size, backend): part of the key
    std::map<std::pair<size_t, bool>, int> freed;
    bool deleted = false, after_delete = false;
    struct Guard { // objects die before the shadow, newest first
      std::vector<std::unique_ptr<PtsObj>>& o;
      ~Guard() {
        while (!o.empty())
          o.pop_back();
      }
    } guard{objs};
    for (int o : h) {
      const Op& op = (*ops)[o];
      if (op.kind == 0) {
        if (op.which == 4 && big >= 4) // keep well inside the 2 MiB region
          continue;
        std::unique_ptr<PtsObj> x;
        switch (op.which) {
        case 0:
          x.reset(new PtsImpl<1>());
          break;
        case 1:
          x.reset(new PtsImpl<129>());
          break;
        case 2:
          x.reset(new PtsImpl<1000>());
          break;
        case 3:
          x.reset(new PssImpl<129>());
          break;
        default:
          x.reset(new PtsImpl<200000>());
          big++;
        }
        for (unsigned t = 0; t < g_maxT; ++t) {
          if (x->per_socket && !tp.isLeader(t))
            continue;
          void* p = x->remote(t);
          sh.admit(x->per_socket ? std::string("PerSocketStorage") : comp, p,
                   x->sz, gs::GALOIS_CACHE_LINE_SIZE, B_PAGE, x->sz, (int)t,
                   op.which);
          x->blocks.push_back((uintptr_t)p);
        }
        for (unsigned t = 0; t < ACTIVE; ++t) {
          Imp im(t);
          if (x->local() != x->remote(t))
            fail("harness:impersonation-broken",
                 "getLocal() != getRemote(%u) while impersonating", t);
        }
        int& f = freed[{x->sz, x->per_socket}];
        if (f > 0)
          --f;
        if (deleted)
          after_delete = true;
        objs.push_back(std::move(x));
      } else if (!objs.empty()) {
        size_t i = op.kind == 1 ? objs.size() - 1 : 0;
        for (uintptr_t a : objs[i]->blocks)
          sh.retire(comp, a);
        if (objs[i]->sz == 200000)
          big--;
        freed[{objs[i]->sz, objs[i]->per_socket}]++;
        deleted = true;
        objs.erase(objs.begin() + i);
      }
      sh.verify_all(comp, false, ("after " + op.nm).c_str());
    }
    sh.verify_all(comp, true, "at the end of the history");
    std::ostringstream k;
    for (auto& x : objs)
      k << (x->per_socket ? "S" : "T") << x->sz << ",";
    k << " F:";
    for (auto& kv : freed)
      if (kv.second)
        k << (kv.first.second ? "S" : "T") << kv.first.first << "="
          << kv.second << ",";
    // History flag kept in the key so that states reached by creating an
    // object AFTER a deletion (the backend serves it from a moved-back nextLoc
    // or, once the bump region of this long-lived worker is used up, from its
    // free lists) are told apart from first-use states.  Derived from the
    // history, not from observed addresses: the global backend's bump/free
    // list state depends on what the worker ran before, the key must not.
    k << (after_delete ? " after-delete" : "");
    if (after_delete)
      sx::mark_nontrivial();
    sx::outcome(sh.outcome_sig() ^ (after_delete ? 0x100 : 0) ^
                (sh.reuse_seen ? 0x200 : 0));
    // the shadow's blocks die with the objects (Guard); forget them first
    sh.live.clear();
    return k.str();
  };
  return c;
}

// ---------------------------------------------------------------------------
// 6. LargeArray: allocate{Interleaved,Blocked,Local,Floating,Specified},
//    create, construct, destroy, deallocate on two arrays
// ---------------------------------------------------------------------------
static std::atomic<long> g_ctor, g_dtor;
struct Elem { // 24 bytes: 2 MiB is not a multiple, elements straddle pages
  uint64_t a, b, c;
  explicit Elem(uint64_t x) : a(x), b(~x), c(x * 0x9E3779B97F4A7C15ULL) {
    g_ctor.fetch_add(1, std::memory_order_relaxed);
  }
  ~Elem() {
    g_dtor.fetch_add(1, std::memory_order_relaxed);
    a = 0xdead;
  }
};

static sx::BfsCase largearray_case(size_t nA, size_t nB, int qd, int td) {
  static const char* KN[] = {"allocateInterleaved", "allocateBlocked",
                             "allocateLocal",       "allocateFloating",
                             "allocateSpecified[even]",
                             "allocateSpecified[all-on-last]",
                             "create"};
  struct Op {
    int arr;
    int kind; // 0..5 allocate variants, 6 create, 7 construct, 8 destroy,
              // 9 deallocate
    std::string nm;
  };
  auto ops        = std::make_shared<std::vector<Op>>();
  const size_t NN[2] = {nA, nB};
  for (int a = 0; a < 2; ++a) {
    std::string A = a ? "B." : "A.";
    for (int k = 0; k < 7; ++k)
      ops->push_back(
          {a, k, A + KN[k] + "(" + std::to_string(NN[a]) + ")"});
    ops->push_back({a, 7, A + "construct()"});
    ops->push_back({a, 8, A + "destroy()"});
    ops->push_back({a, 9, A + "deallocate()"});
  }
  // simplest first: interleave so that A's ops come before B's is fine
  sx::BfsCase c;
  c.name = "LargeArray<24B> A[" + std::to_string(nA) + "] B[" +
           std::to_string(nB) + "]";
  c.nops           = (int)ops->size();
  c.opname         = [ops](int i) { return opname_of(*ops, i); };
  c.quick_depth    = qd;
  c.thorough_depth = td;
  c.run            = [=](const std::vector<int>& h) -> std::string {
    if (in_explorer(h))
      return "ROOT";
    Watchdog wd;
    rt();
    const std::string comp = "LargeArray";
    const size_t N[2]      = {nA, nB};
    Shadow sh;
    sh.relalign = PAGE;
    enum { U, RAW, CONS };
    struct Arr {
      int st       = U;
      int kind     = -1;
      uint64_t val = 0;
      int allocs   = 0;
    } st[2];
    // declared after the shadow: arrays are unmapped first, and the shadow
    // never touches a block after that
    galois::LargeArray<Elem> arr[2];
    bool both = false, realloc = false;
    auto check_elems = [&](int a, const char* when) {
      for (size_t i = 0; i < N[a]; ++i) {
        const Elem& e = arr[a][i];
        uint64_t x    = st[a].val;
        if (e.a != x || e.b != ~x || e.c != x * 0x9E3779B97F4A7C15ULL)
          fail(comp + ":live-element-corrupted",
               "array %c element %zu of %zu changed %s", "AB"[a], i, N[a],
               when);
      }
    };
    uint64_t serial = 1;
    for (int o : h) {
      const Op& op = (*ops)[o];
      int a        = op.arr;
      size_t n     = N[a];
      if (op.kind <= 6) {
        if (st[a].st != U) // allocate() asserts !m_data
          continue;
        long c0 = g_ctor.load();
        uint64_t val = 0x1000 * serial++ + a;
        switch (op.kind) {
        case 0:
          arr[a].allocateInterleaved(n);
          break;
        case 1:
          arr[a].allocateBlocked(n);
          break;
        case 2:
          arr[a].allocateLocal(n);
          break;
        case 3:
          arr[a].allocateFloating(n);
          break;
        case 4: {
          std::vector<uint64_t> r(ACTIVE + 1);
          for (unsigned t = 0; t <= ACTIVE; ++t)
            r[t] = n * t / ACTIVE;
          arr[a].allocateSpecified(n, r);
          break;
        }
        case 5: {
          std::vector<uint64_t> r(ACTIVE + 1, 0);
          r[ACTIVE] = n;
          arr[a].allocateSpecified(n, r);
          break;
        }
        default:
          arr[a].create(n, val);
        }
        if (arr[a].size() != n)
          fail(comp + ":wrong-size", "size() = %zu after allocating %zu",
               arr[a].size(), n);
        if ((uintptr_t)arr[a].data() % alignof(Elem))
          fail(comp + ":misaligned", "data() not aligned for the element");
        if (op.kind == 6) {
          if (g_ctor.load() - c0 != (long)n)
            fail(comp + ":create-count", "create(%zu) ran %ld constructors", n,
                 g_ctor.load() - c0);
          st[a].val = val;
          st[a].st  = CONS;
        } else
          st[a].st = RAW;
        // a created array is full of constructed elements: the shadow checks
        // placement and disjointness but leaves the contents alone (the
        // elements themselves are the canary while the array is constructed)
        sh.admit(comp, arr[a].data(), n * sizeof(Elem), 8, B_MAPPING, n, 0, a,
                 op.kind != 6);
        st[a].kind = op.kind;
        if (st[a].allocs++)
          realloc = true;
        if (st[0].st != U && st[1].st != U)
          both = true;
      } else if (op.kind == 7) {
        if (st[a].st != RAW)
          continue;
        sh.verify(comp, sh.live.at((uintptr_t)arr[a].data()), true,
                  "before construct()");
        long c0      = g_ctor.load();
        uint64_t val = 0x1000 * serial++ + a;
        arr[a].construct(val);
        if (g_ctor.load() - c0 != (long)n)
          fail(comp + ":construct-count", "construct() ran %ld constructors "
                                          "for %zu elements",
               g_ctor.load() - c0, n);
        st[a].val = val;
        st[a].st  = CONS;
      } else if (op.kind == 8) {
        if (st[a].st != CONS) // destroying raw storage is not defined
          continue;
        check_elems(a, "before destroy()");
        long d0 = g_dtor.load();
        arr[a].destroy();
        if (g_dtor.load() - d0 != (long)n)
          fail(comp + ":destroy-count",
               "destroy() ran %ld destructors for %zu elements",
               g_dtor.load() - d0, n);
        // raw again: re-establish the canary
        Blk& b = sh.live.at((uintptr_t)arr[a].data());
        canary_write((uint8_t*)b.a, b.n, b.seed, b.step);
        st[a].st = RAW;
      } else {
        if (st[a].st == U)
          continue;
        uintptr_t p = (uintptr_t)arr[a].data();
        if (st[a].st == CONS) {
          check_elems(a, "before deallocate()");
          arr[a].destroy(); // contract: destroy before deallocate
          Blk& b = sh.live.at(p);
          canary_write((uint8_t*)b.a, b.n, b.seed, b.step);
        }
        sh.retire(comp, p);
        arr[a].deallocate();
        if (arr[a].size() != 0 || arr[a].data() != nullptr)
          fail(comp + ":deallocate-left-state", "size()=%zu after deallocate",
               arr[a].size());
        st[a].st = U;
      }
      // every live array must be intact after every step
      for (int x = 0; x < 2; ++x) {
        if (st[x].st == RAW)
          sh.verify(comp, sh.live.at((uintptr_t)arr[x].data()), false,
                    ("after " + op.nm).c_str());
        else if (st[x].st == CONS)
          check_elems(x, ("after " + op.nm).c_str());
      }
    }
    std::ostringstream k;
    for (int a = 0; a < 2; ++a)
      k << "AB"[a] << ":" << st[a].st << "/" << st[a].kind << "/"
        << (st[a].allocs > 1 ? 2 : st[a].allocs) << " ";
    if (both || realloc)
      sx::mark_nontrivial();
    sx::outcome(sx::hash_str(k.str()) ^ (both ? 1 : 0) ^ (realloc ? 2 : 0));
    sh.live.clear();
    return k.str();
  };
  return c;
}

// ---------------------------------------------------------------------------
// note for the evidence: where the kernel puts the library's 2 MiB mappings.
// Reported, never asserted (DESIGN 7/C09).
// ---------------------------------------------------------------------------
static void placement_note() {
  fflush(stdout);
  pid_t p = fork();
  if (p == 0) {
    try {
      rt();
      int total = 0, aligned = 0;
      std::vector<void*> pg;
      for (int i = 0; i < 8; ++i)
        pg.push_back(gr::pagePoolAlloc());
      for (int i = 0; i < mm::n; ++i)
        if (mm::tab[i].len % PAGE == 0) {
          total++;
          aligned += mm::tab[i].base % PAGE == 0;
        }
      printf("# note: %d of %d library mappings (pool pages, per-thread "
             "storage) were placed on an absolute 2 MiB boundary by the "
             "kernel; page-pool alignment is asserted relative to the "
             "library's own mapping only\n",
             aligned, total);
      fflush(stdout);
    } catch (const sx::Fail& f) {
      printf("# note: placement probe failed: %s %s\n", f.key.c_str(),
             f.msg.c_str());
      fflush(stdout);
    }
    _exit(0);
  }
  int st;
  waitpid(p, &st, 0);
}

int main(int argc, char** argv) {
  setenv("GALOIS_DO_NOT_BIND_THREADS", "1", 1);
  bool explore = true;
  for (int i = 1; i < argc; ++i)
    if (!strcmp(argv[i], "--list") || !strcmp(argv[i], "--replay"))
      explore = false;
  if (explore) {
    placement_note();
    g_explorer_pid = getpid();
  }

  std::vector<sx::BfsCase> bfs;
  auto fixedG = [] { return std::unique_ptr<SizedApi>(new FixedGlobalApi()); };
  auto fixedF = [] { return std::unique_ptr<SizedApi>(new SizedFreshApi()); };
  auto pow2   = [] { return std::unique_ptr<SizedApi>(new Pow2Api()); };

  // Order: cheap cases first.  seqx hands every case a share of the remaining
  // deadline and can only stop a case between BFS levels, so on a loaded
  // machine the expensive cases at the end are the ones that get truncated
  // (reported as exhaustive=0 with the completed depth), not the many small
  // ones.
  const size_t M   = 1u << 20;
  const size_t FIT = PAGE / sizeof(Elem); // 87381 elements = 2 MiB - 8
  // --- FixedSizeHeap through the global factory
  bfs.push_back(sized_case("FixedSizeHeap sizes {1,9}, 2 threads",
                           "FixedSizeHeap", {1, 9}, 2, B_HEAP_OR_PAGE, fixedG,
                           4, 10));
  bfs.push_back(sized_case("FixedSizeHeap sizes {7,8,16,24}, 2 threads",
                           "FixedSizeHeap", {7, 8, 16, 24}, 2, B_HEAP_OR_PAGE,
                           fixedG, 3, 6));
  bfs.push_back(sized_case("FixedSizeHeap size 8, 3 threads", "FixedSizeHeap",
                           {8}, 3, B_HEAP_OR_PAGE, fixedG, 4, 11));
  // --- the same heap stack as a fresh object, 2 resp. 3 elements per page
  bfs.push_back(sized_case(
      "SizedHeap (fresh object) element 1MiB-8 (2 per page), 2 threads",
      "SizedHeap", {(1u << 20) - 8}, 2, B_PAGE, fixedF, 5, 12));
  bfs.push_back(sized_case(
      "SizedHeap (fresh object) element 699048 (3 per page), 2 threads",
      "SizedHeap", {699048}, 2, B_PAGE, fixedF, 5, 10));
  // --- page pool
  bfs.push_back(pagepool_case(2, 4, 6));
  // --- per-thread / per-socket storage objects on the global backends
  bfs.push_back(pts_objects_case(4, 7));
  // --- large arrays: small + one page plus one element; one page minus 8
  //     bytes + three pages
  bfs.push_back(largearray_case(1000, FIT + 1, 4, 8));
  bfs.push_back(largearray_case(FIT, 3 * FIT, 4, 8));
  // --- Pow_2_BlockHeap, every class boundary (2^16 + 1 is the malloc path)
  for (unsigned k = 3; k <= 16; ++k) {
    std::vector<size_t> sz;
    if (k == 3)
      sz.push_back(1);
    sz.push_back((1u << k) - 1);
    sz.push_back(1u << k);
    sz.push_back((1u << k) + 1);
    bfs.push_back(sized_case("Pow_2_BlockHeap around 2^" + std::to_string(k) +
                                 ", 2 threads",
                             "Pow_2_BlockHeap", sz, 2, B_HEAP_OR_PAGE, pow2, 4,
                             k == 3 ? 6 : 7));
  }
  // --- per-thread-storage offsets on a private backend
  bfs.push_back(perbackend_case(5, 9));
  // --- bump heaps.  allocate(size) is legal up to 2 MiB - 8 (it aborts
  //     above); allocate(size, allocated) "may fail" and is documented and
  //     unit-tested (unit-mem) with requests above a page.
  bfs.push_back(bump_case(
      "VariableSizeHeap (fresh object), 2 threads", "BumpHeap",
      {9, M, PAGE - 8}, {9, M, PAGE - 8, PAGE + 1}, 2, B_PAGE,
      [] { return std::unique_ptr<BumpApi>(new VarHeapApi()); }, 4, 6, 2));
  bfs.push_back(bump_case(
      "PerIterAllocTy over BumpWithMallocHeap (fresh object)",
      "BumpWithMallocHeap",
      {1, 8, 9, 4096, M, PAGE - 16, PAGE - 8, PAGE - 7, 3 * M}, {}, 1,
      B_HEAP_OR_PAGE,
      [] { return std::unique_ptr<BumpApi>(new IterAllocApi()); }, 4, 6, 2));
  bfs.push_back(bump_case(
      "BumpHeap<SystemHeap> (fresh object)", "BumpHeap",
      {1, 8, 9, 4096, M, PAGE - 16, PAGE - 8},
      {1, 8, 9, 4096, M, PAGE - 16, PAGE - 8, PAGE, PAGE + 1}, 1, B_PAGE,
      [] { return std::unique_ptr<BumpApi>(new BumpDirectApi()); }, 4, 6, 2));
  return sx::sx_main(argc, argv, "C09", bfs, {});
}

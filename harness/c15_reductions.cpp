// C15 (sequential half, engine E2): reductions and concurrent collections give
// the sequential answer.  DESIGN.md 7/C15 "E2" bullet, defect candidates 8-4.
//
// Everything below runs the REAL Galois code.  The Galois runtime
// (galois::SharedMemSys, 3 active threads) is created lazily inside each
// forked worker; updates to reducers / per-thread containers are performed by
// a real galois::on_each in which pool thread t applies exactly the updates
// the enumerated input assigns to t.  Reducers and per-thread containers are
// per-thread objects, so the result is independent of the schedule and the
// enumeration of (update sequence x thread assignment) is exhaustive for the
// stated bound.
//
// Value alphabet (DESIGN): {lowest, -2, -1, -0.5 (floating only), 0, 1, max}.
//   * sums of int: {0,1,-1,-2}           (signed overflow is undefined for
//                                         model and implementation alike)
//   * sums of float/double: {0,1,-1,-0.5,-2}   (all partial sums exact, so
//                                         the merge order cannot change them)
//   * unsigned sums: {0,1,max-1,max}     (wrap-around is defined; max-1 / max
//                                         are the images of -2 / -1, lowest=0)
//   * unsigned min/max: {0,1,2,max-1,max}
//   * min/max of int/float/double: the sum alphabet plus {max, lowest}
//
// Cases: history BFS for UnionFindNode (4 elements) and DynamicBitSet
// (n in {1,63,64,65,130}); input enumeration for GAccumulator (+=, -=, update
// forms), GReduceMax/Min, GReduceLogicalAnd/Or, user Reducibles (move-only
// value, bit_or, std::function max), DynamicBitSet reset(b,e) and bitwise ops,
// the AtomicHelpers.h functions, and the PerThread* containers.
// Detection was checked against a scratch copy of the tree with seeded faults
// (reset range off by one, compress() a no-op, atomicMax comparison flipped,
// atomicSubtract adding, reduce() not clearing remote values, reset() skipping
// thread 0, size_all() skipping row 0): every one is reported; with the two
// one-line repairs of the genuine findings applied the harness is clean.
#include "seqx.h"

#include "galois/Galois.h"
#include "galois/AtomicHelpers.h"
#include "galois/AtomicWrapper.h"
#include "galois/DynamicBitset.h"
#include "galois/PerThreadContainer.h"
#include "galois/Reduction.h"
#include "galois/UnionFind.h"

#include <cmath>
#include <cstring>
#include <functional>
#include <limits>
#include <map>
#include <memory>
#include <set>
#include <sstream>
#include <type_traits>
#include <vector>

using sx::fail;

// ---------------------------------------------------------------------------
// 0. common helpers
// ---------------------------------------------------------------------------
static const unsigned NT = 3; // pool threads that receive updates
static unsigned g_threads = NT;

// The runtime must be created in the process that uses it (threads do not
// survive fork), never in the seqx parent.
static void rt() {
  static galois::SharedMemSys* G = nullptr;
  static pid_t owner             = 0;
  if (G && owner != getpid()) {
    fprintf(stderr, "c15: Galois runtime inherited across fork\n");
    abort();
  }
  if (!G) {
    setenv("GALOIS_DO_NOT_BIND_THREADS", "1", 1);
    G         = new galois::SharedMemSys();
    g_threads = galois::setActiveThreads(NT);
    owner     = getpid();
  }
}

// A worker reports each violation key once (the seqx table keeps 64 records
// per case; thousands of inputs failing for one reason must not crowd out a
// second reason).  A replay is a fresh process, so it always reports.
static std::set<std::string>& reported() {
  static std::set<std::string> s;
  return s;
}
// Inputs are enumerated shortest-first, but 16 workers start on 16 different
// chunks at once; so that the report names the simplest counter-example, the
// worker that first sees a key re-runs the inputs below the failing one (at
// most SCAN of them) and quotes the smallest that fails with the same key.
// (Should one of the re-run inputs crash the process, seqx attributes the crash
// to the input that triggered the scan; the worker that owns the crashing
// input reports it under the same `<case>:crash` key as well.)
static std::function<void(uint64_t, bool)>
once(std::function<void(uint64_t, bool)> f) {
  return [f](uint64_t i, bool th) {
    try {
      f(i, th);
    } catch (const sx::Fail& e) {
      if (!reported().insert(e.key).second)
        return;
      const uint64_t SCAN = 400000;
      for (uint64_t j = 0; j < i && j < SCAN; ++j) {
        try {
          f(j, th);
        } catch (const sx::Fail& e2) {
          if (e2.key == e.key)
            throw sx::Fail{e.key, e.msg + " || smallest failing input is #" +
                                      std::to_string(j) + ": " + e2.msg};
        }
      }
      throw;
    }
  };
}
static std::function<std::string(const std::vector<int>&)>
once_bfs(std::function<std::string(const std::vector<int>&)> f) {
  return [f](const std::vector<int>& h) -> std::string {
    try {
      return f(h);
    } catch (const sx::Fail& e) {
      if (reported().insert(e.key).second)
        throw;
      return "dead:" + e.key; // all further failures of this kind: one state
    }
  };
}

template <class T>
struct TN;
template <>
struct TN<int> {
  static const char* n() { return "int"; }
};
template <>
struct TN<unsigned> {
  static const char* n() { return "unsigned"; }
};
template <>
struct TN<float> {
  static const char* n() { return "float"; }
};
template <>
struct TN<double> {
  static const char* n() { return "double"; }
};

template <class T>
static std::string vstr(T v) {
  char b[64];
  if constexpr (std::is_same_v<T, bool>) {
    return v ? "true" : "false";
  } else if constexpr (std::is_floating_point_v<T>) {
    if (v == std::numeric_limits<T>::max())
      return "max";
    if (v == std::numeric_limits<T>::lowest())
      return "lowest";
    snprintf(b, sizeof b, "%.*g", std::numeric_limits<T>::max_digits10,
             (double)v);
    return b;
  } else if constexpr (std::is_signed_v<T>) {
    snprintf(b, sizeof b, "%lld", (long long)v);
    return b;
  } else {
    snprintf(b, sizeof b, "%llu", (unsigned long long)v);
    return b;
  }
}
template <class T>
static uint64_t vhash(T v) {
  uint64_t x = 0;
  memcpy(&x, &v, sizeof v < 8 ? sizeof v : 8);
  return sx::mix(0x51, x);
}

// value alphabets, simplest first
template <class T>
struct Vals {
  static std::vector<T> sum() {
    if constexpr (std::is_floating_point_v<T>)
      return {T(0), T(1), T(-1), T(-0.5), T(-2)};
    else if constexpr (std::is_signed_v<T>)
      return {0, 1, -1, -2};
    else // images of -2 and -1 under wrap-around; lowest == 0
      return {0u, 1u, std::numeric_limits<T>::max() - 1,
              std::numeric_limits<T>::max()};
  }
  static std::vector<T> ext() {
    std::vector<T> v = sum();
    if constexpr (std::is_floating_point_v<T> || std::is_signed_v<T>) {
      v.push_back(std::numeric_limits<T>::max());
      v.push_back(std::numeric_limits<T>::lowest());
    } else {
      v.insert(v.begin() + 2, T(2)); // a third small value for min/max
    }
    return v;
  }
};

// ---- sequences of (symbol, thread), enumerated shortest first ---------------
struct Seq {
  int n = 0;
  int sym[8];
  int thr[8];
  int threads_used() const {
    bool u[NT] = {};
    int k      = 0;
    for (int i = 0; i < n; ++i)
      if (!u[thr[i]]) {
        u[thr[i]] = true;
        ++k;
      }
    return k;
  }
};
static uint64_t seq_count(uint64_t base, int maxlen) {
  uint64_t s = 0, p = 1;
  for (int l = 0; l <= maxlen; ++l) {
    s += p;
    p *= base;
  }
  return s;
}
// digit = sym * NT + thread; position 0 is the least significant digit
static Seq seq_decode(uint64_t idx, int nsym) {
  Seq q;
  uint64_t base = (uint64_t)nsym * NT, p = 1;
  while (idx >= p) {
    idx -= p;
    p *= base;
    ++q.n;
  }
  for (int i = 0; i < q.n; ++i) {
    unsigned d = idx % base;
    idx /= base;
    q.thr[i] = d % NT;
    q.sym[i] = d / NT;
  }
  return q;
}
template <class S>
static std::string seq_str(const Seq& q) {
  std::string s = "updates in program order: [";
  for (int i = 0; i < q.n; ++i)
    s += (i ? "; " : "") + std::string("t") + std::to_string(q.thr[i]) + " " +
         S::symname(q.sym[i]);
  return s + "]";
}

// ---------------------------------------------------------------------------
// 1. Reducers
// ---------------------------------------------------------------------------
// A reducer spec S provides: name(), nsym(), symname(s), make(), apply(r,s),
// Snap + snap()/str()/hash(), fold(q,out) (false: the property fixes no value,
// i.e. min/max of nothing), wrongkey(q), maxlen(thorough), live().

template <class T>
struct ArithSnap {
  using Snap = T;
  static Snap snap(const T& v) { return v; }
  static std::string str(const Snap& v) { return vstr(v); }
  static uint64_t hash(const Snap& v) { return vhash(v); }
  static long live() { return 0; }
};

// GAccumulator: FORMS=0 -> {+=, -=};  FORMS=1 -> {update(const&),
// update(T&&), getLocal() modified in place}
template <class T, int FORMS>
struct AccSpec : ArithSnap<T> {
  static std::string comp() {
    return std::string("GAccumulator<") + TN<T>::n() + ">";
  }
  static std::string name() { return comp() + (FORMS ? " update-forms" : ""); }
  static const std::vector<T>& vals() {
    static const std::vector<T> v = Vals<T>::sum();
    return v;
  }
  static int nforms() { return FORMS ? 3 : 2; }
  static int nsym() { return (int)vals().size() * nforms(); }
  static std::string symname(int s) {
    static const char* f0[] = {"+=", "-="};
    static const char* f1[] = {"update(const&) ", "update(&&) ",
                               "getLocal()+="};
    return std::string(FORMS ? f1[s % nforms()] : f0[s % nforms()]) + "(" +
           vstr(vals()[s / nforms()]) + ")";
  }
  static auto make() { return galois::GAccumulator<T>(); }
  template <class R>
  static void apply(R& r, int s) {
    T v   = vals()[s / nforms()];
    int f = s % nforms();
    if (FORMS == 0) {
      if (f == 0)
        r += v;
      else
        r -= v;
    } else {
      if (f == 0)
        r.update(v);
      else if (f == 1)
        r.update(T(v));
      else
        r.getLocal() = r.getLocal() + v;
    }
  }
  static bool fold(const Seq& q, T& out) {
    T acc = T(0);
    for (int i = 0; i < q.n; ++i) {
      T v = vals()[q.sym[i] / nforms()];
      if (FORMS == 0 && q.sym[i] % nforms() == 1)
        acc = acc - v;
      else
        acc = acc + v;
    }
    out = acc;
    return true;
  }
  static std::string wrongkey(const Seq& q) {
    bool minus = false;
    for (int i = 0; i < q.n; ++i)
      if (FORMS == 0 && q.sym[i] % nforms() == 1)
        minus = true;
    return comp() + ":" + (minus ? "operator-=:wrong-sum" : "wrong-sum");
  }
  static int maxlen(bool th) { return FORMS ? (th ? 4 : 3) : (th ? 5 : 4); }
};

template <class T, bool MAX>
struct MinMaxSpec : ArithSnap<T> {
  static std::string name() {
    return std::string(MAX ? "GReduceMax<" : "GReduceMin<") + TN<T>::n() + ">";
  }
  static std::string comp() { return name(); }
  static const std::vector<T>& vals() {
    static const std::vector<T> v = Vals<T>::ext();
    return v;
  }
  static int nsym() { return (int)vals().size(); }
  static std::string symname(int s) {
    return "update(" + vstr(vals()[s]) + ")";
  }
  static auto make() {
    if constexpr (MAX)
      return galois::GReduceMax<T>();
    else
      return galois::GReduceMin<T>();
  }
  template <class R>
  static void apply(R& r, int s) {
    r.update(vals()[s]);
  }
  static bool fold(const Seq& q, T& out) {
    if (q.n == 0)
      return false;
    T acc = vals()[q.sym[0]];
    for (int i = 1; i < q.n; ++i)
      acc = MAX ? std::max<T>(acc, vals()[q.sym[i]])
                : std::min<T>(acc, vals()[q.sym[i]]);
    out = acc;
    return true;
  }
  static std::string wrongkey(const Seq&) {
    return name() + (MAX ? ":reduce-not-maximum" : ":reduce-not-minimum");
  }
  static int maxlen(bool th) { return th ? 5 : 4; }
};

template <bool AND>
struct LogicalSpec : ArithSnap<bool> {
  static std::string name() {
    return AND ? "GReduceLogicalAnd" : "GReduceLogicalOr";
  }
  static std::string comp() { return name(); }
  static int nsym() { return 2; }
  // simplest first: the value that leaves the result unchanged
  static bool val(int s) { return AND ? s == 0 : s == 1; }
  static std::string symname(int s) { return "update(" + vstr(val(s)) + ")"; }
  static auto make() {
    if constexpr (AND)
      return galois::GReduceLogicalAnd();
    else
      return galois::GReduceLogicalOr();
  }
  template <class R>
  static void apply(R& r, int s) {
    r.update(val(s));
  }
  static bool fold(const Seq& q, bool& out) {
    bool acc = AND;
    for (int i = 0; i < q.n; ++i)
      acc = AND ? (acc && val(q.sym[i])) : (acc || val(q.sym[i]));
    out = acc;
    return true;
  }
  static std::string wrongkey(const Seq&) { return name() + ":wrong-value"; }
  static int maxlen(bool th) { return th ? 7 : 6; }
};

// ---- user-defined Reducible, move-only value type ---------------------------
// A heap-backed multiset of ints: copying is deleted, a moved-from object has
// a null pointer, so use-after-move / double destruction is visible to ASan
// and to the live-instance count.
struct MoBag {
  std::unique_ptr<std::vector<int>> p;
  static std::atomic<long> live;
  MoBag() : p(new std::vector<int>()) { ++live; }
  explicit MoBag(int v) : p(new std::vector<int>(1, v)) { ++live; }
  MoBag(const MoBag&) = delete;
  MoBag& operator=(const MoBag&) = delete;
  MoBag(MoBag&& o) noexcept : p(std::move(o.p)) { ++live; }
  MoBag& operator=(MoBag&& o) noexcept {
    p = std::move(o.p);
    return *this;
  }
  ~MoBag() { --live; }
};
std::atomic<long> MoBag::live{0};
struct MoMerge { // the moving merge form documented in Reduction.h
  MoBag& operator()(MoBag& a, MoBag&& b) const {
    MoBag t(std::move(b));
    a.p->insert(a.p->end(), t.p->begin(), t.p->end());
    return a;
  }
};
struct MoId {
  MoBag operator()() const { return MoBag(); }
};
struct MoveOnlySpec {
  using Snap = std::vector<int>;
  static std::string name() { return "Reducible<move-only multiset>"; }
  static std::string comp() { return name(); }
  static int nsym() { return 3; }
  static std::string symname(int s) {
    return "update(Bag{" + std::to_string(s + 1) + "})";
  }
  static auto make() { return galois::make_reducible(MoMerge(), MoId()); }
  template <class R>
  static void apply(R& r, int s) {
    MoBag b(s + 1);
    r.update(std::move(b));
  }
  static Snap snap(const MoBag& b) {
    Snap v = *b.p;
    std::sort(v.begin(), v.end());
    return v;
  }
  static std::string str(const Snap& v) {
    std::string s = "{";
    for (size_t i = 0; i < v.size(); ++i)
      s += (i ? "," : "") + std::to_string(v[i]);
    return s + "}";
  }
  static uint64_t hash(const Snap& v) { return sx::hash_str(str(v)); }
  static bool fold(const Seq& q, Snap& out) {
    out.clear();
    for (int i = 0; i < q.n; ++i)
      out.push_back(q.sym[i] + 1);
    std::sort(out.begin(), out.end());
    return true;
  }
  static std::string wrongkey(const Seq&) { return name() + ":wrong-value"; }
  static int maxlen(bool th) { return th ? 5 : 4; }
  static long live() { return MoBag::live.load(); }
};

// ---- user-defined Reducible, copying merge ---------------------------------
struct IdZeroU {
  unsigned operator()() const { return 0u; }
};
struct UserOrSpec : ArithSnap<unsigned> {
  static std::string name() { return "Reducible<unsigned,bit_or,0>"; }
  static std::string comp() { return name(); }
  static const std::vector<unsigned>& vals() {
    static const std::vector<unsigned> v = {0u, 1u, 2u, 4u, 0x80000000u};
    return v;
  }
  static int nsym() { return (int)vals().size(); }
  static std::string symname(int s) {
    return "update(" + vstr(vals()[s]) + ")";
  }
  static auto make() {
    return galois::make_reducible(std::bit_or<unsigned>(), IdZeroU());
  }
  template <class R>
  static void apply(R& r, int s) {
    r.update(vals()[s]);
  }
  static bool fold(const Seq& q, unsigned& out) {
    out = 0;
    for (int i = 0; i < q.n; ++i)
      out |= vals()[q.sym[i]];
    return true;
  }
  static std::string wrongkey(const Seq&) { return name() + ":wrong-value"; }
  static int maxlen(bool) { return 4; }
};
// std::function merge returning a reference, as in libgalois/test/reduction.cpp
// (domain: non-negative ints, identity 0)
struct IdZeroI {
  int operator()() const { return 0; }
};
struct UserFnMaxSpec : ArithSnap<int> {
  using Fn = std::function<const int&(const int&, const int&)>;
  static std::string name() { return "Reducible<int,std::function max,0>"; }
  static std::string comp() { return name(); }
  static const std::vector<int>& vals() {
    static const std::vector<int> v = {0, 1, 2,
                                       std::numeric_limits<int>::max()};
    return v;
  }
  static int nsym() { return (int)vals().size(); }
  static std::string symname(int s) {
    return "update(" + vstr(vals()[s]) + ")";
  }
  static auto make() {
    const int& (*int_max)(const int&, const int&) = std::max<int>;
    return galois::make_reducible(Fn{int_max}, IdZeroI());
  }
  template <class R>
  static void apply(R& r, int s) {
    r.update(vals()[s]);
  }
  static bool fold(const Seq& q, int& out) {
    out = 0;
    for (int i = 0; i < q.n; ++i)
      out = std::max(out, vals()[q.sym[i]]);
    return true;
  }
  static std::string wrongkey(const Seq&) { return name() + ":wrong-value"; }
  static int maxlen(bool) { return 4; }
};

// One input = one update sequence with its thread assignment.  Two reducer
// objects are driven with two parallel regions:
//   r1: updates -> reduce, reduce (same value) -> reset -> reduce (identity)
//       -> the same updates, assignment rotated by 2 threads -> reduce
//   r2: updates (rotated by 1) -> reset WITHOUT reduce -> reduce (identity)
//       -> updates (unrotated) -> reduce
// "identity" is what a freshly constructed reducer of the same type reduces
// to; the harness never states the identity element itself, except through the
// law merge(x, identity) == x, i.e. the length-1 sequences.
template <class S>
static void red_run(uint64_t idx, bool) {
  rt();
  Seq q = seq_decode(idx, S::nsym());
  typename S::Snap want{};
  bool have            = S::fold(q, want);
  const std::string nm = S::comp();
  const std::string in = seq_str<S>(q);
  long live0           = S::live();
  typename S::Snap v1{};
  {
    auto r1 = S::make();
    auto r2 = S::make();
    typename S::Snap id0{};
    {
      auto fresh = S::make();
      id0        = S::snap(fresh.reduce());
    }
    auto par = [&](unsigned rot1, unsigned rot2) {
      galois::on_each([&](unsigned tid, unsigned) {
        for (int i = 0; i < q.n; ++i) {
          if ((q.thr[i] + rot1) % g_threads == tid)
            S::apply(r1, q.sym[i]);
          if ((q.thr[i] + rot2) % g_threads == tid)
            S::apply(r2, q.sym[i]);
        }
      });
    };
    par(0, 1);
    v1 = S::snap(r1.reduce());
    if (have && !(v1 == want))
      fail(S::wrongkey(q), "%s: reduce() = %s, sequential fold = %s; %s",
           nm.c_str(), S::str(v1).c_str(), S::str(want).c_str(), in.c_str());
    typename S::Snap v2 = S::snap(r1.reduce());
    if (!(v2 == v1))
      fail(nm + ":reduce-twice-differs", "%s: reduce() = %s then %s; %s",
           nm.c_str(), S::str(v1).c_str(), S::str(v2).c_str(), in.c_str());
    r1.reset();
    typename S::Snap v3 = S::snap(r1.reduce());
    if (!(v3 == id0))
      fail(nm + ":reset-not-identity",
           "%s: reduce() after reduce();reset() = %s, a fresh reducer gives "
           "%s; %s",
           nm.c_str(), S::str(v3).c_str(), S::str(id0).c_str(), in.c_str());
    r2.reset(); // partial values still spread over the threads
    typename S::Snap v4 = S::snap(r2.reduce());
    if (!(v4 == id0))
      fail(nm + ":reset-not-identity",
           "%s: reduce() after updates;reset() = %s, a fresh reducer gives "
           "%s; %s",
           nm.c_str(), S::str(v4).c_str(), S::str(id0).c_str(), in.c_str());
    par(2, 0);
    // the read-out happens in a "serial phase": the active-thread count is
    // lowered between the parallel region and reduce() (and restored below);
    // partial values of every thread that ran must still be merged
    galois::setActiveThreads(1);
    typename S::Snap v5 = S::snap(r1.reduce());
    typename S::Snap v6 = S::snap(r2.reduce());
    if (have && (!(v5 == want) || !(v6 == want)))
      fail(nm + ":reuse-after-reset-wrong-value",
           "%s: after reset and the same updates again reduce() (called with "
           "1 active thread) = %s / %s, sequential fold = %s; %s",
           nm.c_str(), S::str(v5).c_str(), S::str(v6).c_str(),
           S::str(want).c_str(), in.c_str());
    if (!have && (!(v5 == v1) || !(v6 == v1)))
      fail(nm + ":reuse-after-reset-wrong-value",
           "%s: first use gave %s, reuse after reset gave %s / %s; %s",
           nm.c_str(), S::str(v1).c_str(), S::str(v5).c_str(),
           S::str(v6).c_str(), in.c_str());
    typename S::Snap v7 = S::snap(r2.reduce());
    if (!(v7 == v6))
      fail(nm + ":reduce-twice-differs", "%s: reduce() = %s then %s; %s",
           nm.c_str(), S::str(v6).c_str(), S::str(v7).c_str(), in.c_str());
    galois::setActiveThreads(g_threads);
  }
  if (S::live() != live0)
    fail(nm + ":value-instances-leaked-or-destroyed-twice",
         "%s: %ld live value objects before, %ld after the reducers were "
         "destroyed; %s",
         nm.c_str(), live0, S::live(), in.c_str());
  // non-trivial: at least two different threads received an update, so
  // reduce() had to merge at least one remote partial value
  if (q.threads_used() >= 2)
    sx::mark_nontrivial();
  sx::outcome(S::hash(v1));
}

template <class S>
static sx::EnumCase red_case(int weight) {
  sx::EnumCase c;
  c.name  = S::name() + " update sequences x thread assignments";
  c.count = [](bool th) {
    return seq_count((uint64_t)S::nsym() * NT, S::maxlen(th));
  };
  c.run      = once(red_run<S>);
  c.describe = [](uint64_t idx, bool) {
    return seq_str<S>(seq_decode(idx, S::nsym()));
  };
  c.weight = weight;
  return c;
}

// ---------------------------------------------------------------------------
// 2. atomicMin / atomicMax / atomicAdd / atomicSubtract (+ the non-CAS forms
//    of the same header) used sequentially
// ---------------------------------------------------------------------------
enum { A_MAX, A_MIN, A_ADD, A_SUB, N_MAX, N_MIN, N_ADD, N_SET, NAOPS };
static const char* AOPNAME[] = {"atomicMax", "atomicMin", "atomicAdd",
                                "atomicSubtract", "max", "min", "add", "set"};
static int atomic_maxlen(bool) { return 3; }

struct AtomIn {
  int init;
  int n = 0;
  int op[6], val[6];
};
template <class T>
static AtomIn atom_decode(uint64_t idx, int nops) {
  AtomIn a;
  int nv = (int)Vals<T>::ext().size();
  a.init = idx % nv;
  idx /= nv;
  uint64_t base = (uint64_t)nops * nv, p = 1;
  while (idx >= p) {
    idx -= p;
    p *= base;
    ++a.n;
  }
  for (int i = 0; i < a.n; ++i) {
    unsigned d = idx % base;
    idx /= base;
    a.val[i] = d % nv;
    a.op[i]  = d / nv;
  }
  return a;
}
template <class T>
static std::string atom_str(const AtomIn& a, const char* const* names) {
  auto vals     = Vals<T>::ext();
  std::string s = "initial=" + vstr(vals[a.init]) + " ops=[";
  for (int i = 0; i < a.n; ++i)
    s += (i ? "; " : "") + std::string(names[a.op[i]]) + "(" +
         vstr(vals[a.val[i]]) + ")";
  return s + "]";
}
// a + b / a - b inside the domain the property talks about?
template <class T>
static bool arith_ok(T a, T b, bool sub, T& out) {
  if constexpr (std::is_floating_point_v<T>) {
    out = sub ? a - b : a + b;
    return std::isfinite(out);
  } else if constexpr (std::is_signed_v<T>) {
    long long r = sub ? (long long)a - (long long)b : (long long)a + b;
    if (r < std::numeric_limits<T>::lowest() || r > std::numeric_limits<T>::max())
      return false;
    out = (T)r;
    return true;
  } else {
    out = sub ? a - b : a + b;
    return true;
  }
}

template <class T, class A>
static void atomic_run(const char* aname, uint64_t idx, bool) {
  const auto vals = Vals<T>::ext();
  AtomIn in       = atom_decode<T>(idx, NAOPS);
  A a(vals[in.init]);
  T m          = vals[in.init];
  bool changed = false;
  std::string comp = std::string(aname) + "<" + TN<T>::n() + ">";
  if (a.load() != m)
    fail(comp + ":construct-wrong-value", "%s", atom_str<T>(in, AOPNAME).c_str());
  for (int i = 0; i < in.n; ++i) {
    T v = vals[in.val[i]], ret{}, wantret = m, nm = m;
    switch (in.op[i]) {
    case A_MAX:
    case N_MAX:
      nm = m < v ? v : m;
      break;
    case A_MIN:
    case N_MIN:
      nm = m > v ? v : m;
      break;
    case A_ADD:
    case N_ADD:
      if (!arith_ok<T>(m, v, false, nm))
        return; // signed overflow / non-finite: outside the property
      break;
    case A_SUB:
      if (!arith_ok<T>(m, v, true, nm))
        return;
      break;
    case N_SET:
      nm      = v;
      wantret = v; // set returns the new value
      break;
    }
    switch (in.op[i]) {
    case A_MAX:
      ret = galois::atomicMax(a, v);
      break;
    case A_MIN:
      ret = galois::atomicMin(a, v);
      break;
    case A_ADD:
      ret = galois::atomicAdd(a, v);
      break;
    case A_SUB:
      ret = galois::atomicSubtract(a, v);
      break;
    case N_MAX:
      ret = galois::max(a, v);
      break;
    case N_MIN:
      ret = galois::min(a, v);
      break;
    case N_ADD:
      ret = galois::add(a, v);
      break;
    case N_SET:
      ret = galois::set(a, v);
      break;
    }
    if (!(ret == wantret))
      fail(std::string(AOPNAME[in.op[i]]) + "(" + comp + "):wrong-return",
           "step %d returned %s, expected %s; %s", i, vstr(ret).c_str(),
           vstr(wantret).c_str(), atom_str<T>(in, AOPNAME).c_str());
    T now = a.load();
    if (!(now == nm))
      fail(std::string(AOPNAME[in.op[i]]) + "(" + comp + "):wrong-final-value",
           "after step %d the atomic holds %s, expected %s; %s", i,
           vstr(now).c_str(), vstr(nm).c_str(),
           atom_str<T>(in, AOPNAME).c_str());
    if (!(nm == m))
      changed = true;
    m = nm;
  }
  if constexpr (std::is_same_v<A, galois::CopyableAtomic<T>>) {
    A c2(a);
    A c3;
    c3 = a;
    if (!(c2.load() == m) || !(c3.load() == m))
      fail(comp + ":copy-wrong-value", "copy holds %s / %s, expected %s; %s",
           vstr(c2.load()).c_str(), vstr(c3.load()).c_str(), vstr(m).c_str(),
           atom_str<T>(in, AOPNAME).c_str());
  }
  // non-trivial: at least one operation changed the stored value
  if (changed)
    sx::mark_nontrivial();
  sx::outcome(vhash(m));
}

// the overloads of the same header that take a plain T& target
enum { P_MAX, P_MIN, P_ADD, P_SET, P_ADDATOMIC, NPOPS };
static const char* POPNAME[] = {"max", "min", "add", "set", "add(T&,atomic&)"};
template <class T>
static void plain_run(uint64_t idx, bool) {
  const auto vals = Vals<T>::ext();
  AtomIn in       = atom_decode<T>(idx, NPOPS);
  T a = vals[in.init], m = a;
  bool changed     = false;
  std::string comp = std::string("plain<") + TN<T>::n() + ">";
  for (int i = 0; i < in.n; ++i) {
    T v = vals[in.val[i]], ret{}, wantret = m, nm = m;
    switch (in.op[i]) {
    case P_MAX:
      nm = m < v ? v : m;
      break;
    case P_MIN:
      nm = m > v ? v : m;
      break;
    case P_ADD:
    case P_ADDATOMIC:
      if (!arith_ok<T>(m, v, false, nm))
        return;
      break;
    case P_SET:
      nm = wantret = v;
      break;
    }
    std::atomic<T> av(v);
    switch (in.op[i]) {
    case P_MAX:
      ret = galois::max(a, v);
      break;
    case P_MIN:
      ret = galois::min(a, v);
      break;
    case P_ADD:
      ret = galois::add(a, v);
      break;
    case P_SET:
      ret = galois::set(a, v);
      break;
    case P_ADDATOMIC:
      ret = galois::add(a, av);
      break;
    }
    if (!(ret == wantret))
      fail(std::string(POPNAME[in.op[i]]) + "(" + comp + "):wrong-return",
           "step %d returned %s, expected %s; %s", i, vstr(ret).c_str(),
           vstr(wantret).c_str(), atom_str<T>(in, POPNAME).c_str());
    if (!(a == nm))
      fail(std::string(POPNAME[in.op[i]]) + "(" + comp + "):wrong-final-value",
           "after step %d the target holds %s, expected %s; %s", i,
           vstr(a).c_str(), vstr(nm).c_str(), atom_str<T>(in, POPNAME).c_str());
    if (!(nm == m))
      changed = true;
    m = nm;
  }
  if (changed)
    sx::mark_nontrivial();
  sx::outcome(vhash(m));
}

template <class T>
static void add_atomic_cases(std::vector<sx::EnumCase>& en) {
  auto cnt = [](int nops) {
    return [nops](bool th) {
      uint64_t nv = Vals<T>::ext().size();
      return nv * seq_count(nops * nv, atomic_maxlen(th));
    };
  };
  {
    sx::EnumCase c;
    c.name  = std::string("atomic helpers on std::atomic<") + TN<T>::n() + ">";
    c.count = cnt(NAOPS);
    c.run   = once([](uint64_t i, bool th) {
      atomic_run<T, std::atomic<T>>("std::atomic", i, th);
    });
    c.describe = [](uint64_t i, bool) {
      return atom_str<T>(atom_decode<T>(i, NAOPS), AOPNAME);
    };
    en.push_back(c);
  }
  {
    sx::EnumCase c;
    c.name =
        std::string("atomic helpers on galois::CopyableAtomic<") + TN<T>::n() + ">";
    c.count = cnt(NAOPS);
    c.run   = once([](uint64_t i, bool th) {
      atomic_run<T, galois::CopyableAtomic<T>>("CopyableAtomic", i, th);
    });
    c.describe = [](uint64_t i, bool) {
      return atom_str<T>(atom_decode<T>(i, NAOPS), AOPNAME);
    };
    en.push_back(c);
  }
  {
    sx::EnumCase c;
    c.name  = std::string("min/max/add/set helpers on plain ") + TN<T>::n();
    c.count = cnt(NPOPS);
    c.run   = once(plain_run<T>);
    c.describe = [](uint64_t i, bool) {
      return atom_str<T>(atom_decode<T>(i, NPOPS), POPNAME);
    };
    en.push_back(c);
  }
}

// ---------------------------------------------------------------------------
// 3. DynamicBitSet against std::vector<bool>
// ---------------------------------------------------------------------------
static const int BS_N[] = {1, 63, 64, 65, 130};

static std::string bits_str(const std::vector<bool>& m) {
  std::string s;
  for (size_t i = 0; i < m.size(); ++i) {
    if (i && i % 64 == 0)
      s += '|';
    s += m[i] ? '1' : '0';
  }
  return s;
}

// full observable comparison: size, test(i) for every i, count(), getOffsets()
static void bs_compare(const galois::DynamicBitSet& bs,
                       const std::vector<bool>& m, const std::string& what,
                       bool parallel_queries = true) {
  if (bs.size() != m.size())
    fail("DynamicBitSet:size-wrong", "%s: size() = %zu, expected %zu",
         what.c_str(), bs.size(), m.size());
  std::vector<uint32_t> want;
  for (size_t i = 0; i < m.size(); ++i) {
    if (bs.test(i) != m[i])
      fail("DynamicBitSet:test-wrong-bit",
           "%s: test(%zu) = %d, expected %d (model %s)", what.c_str(), i,
           (int)bs.test(i), (int)m[i], bits_str(m).c_str());
    if (m[i])
      want.push_back((uint32_t)i);
  }
  if (!parallel_queries)
    return;
  uint64_t c = bs.count();
  if (c != want.size())
    fail("DynamicBitSet:count-wrong", "%s: count() = %llu, expected %zu",
         what.c_str(), (unsigned long long)c, want.size());
  std::vector<uint32_t> off = bs.getOffsets();
  if (off != want) {
    std::string g;
    for (auto x : off)
      g += std::to_string(x) + " ";
    fail("DynamicBitSet:getOffsets-wrong",
         "%s: getOffsets() = [%s] for model %s", what.c_str(), g.c_str(),
         bits_str(m).c_str());
  }
}

// ---- 3a. reset(begin,end), inclusive range (DynamicBitset.h: "Unset a range of
// bits given an inclusive range ... @param end last bit in range to reset"),
// every 0 <= b <= e < n, three start patterns ---------------------------------
struct RangeIn {
  int n, pat, b, e;
};
static const char* PATNAME[] = {"all-ones", "even-bits", "odd-bits"};
static uint64_t range_count(bool) {
  uint64_t s = 0;
  for (int n : BS_N)
    s += 3ull * n * (n + 1) / 2;
  return s;
}
static RangeIn range_decode(uint64_t idx) {
  RangeIn r{};
  for (int n : BS_N) {
    uint64_t k = 3ull * n * (n + 1) / 2;
    if (idx >= k) {
      idx -= k;
      continue;
    }
    r.n   = n;
    r.pat = idx % 3;
    idx /= 3;
    // idx-th pair (b,e), b <= e, ordered by b then e
    int b = 0;
    while (idx >= (uint64_t)(n - b)) {
      idx -= n - b;
      ++b;
    }
    r.b = b;
    r.e = b + (int)idx;
    return r;
  }
  return r;
}
static bool pat_bit(int pat, int i) {
  return pat == 0 ? true : pat == 1 ? i % 2 == 0 : i % 2 == 1;
}
static void range_run(uint64_t idx, bool) {
  rt();
  RangeIn r = range_decode(idx);
  galois::DynamicBitSet bs;
  bs.resize(r.n);
  std::vector<bool> m(r.n, false);
  char what[160];
  snprintf(what, sizeof what, "n=%d start=%s reset(%d,%d)", r.n, PATNAME[r.pat],
           r.b, r.e);
  for (int i = 0; i < r.n; ++i) {
    if (bs.test(i))
      fail("DynamicBitSet:resize-not-zeroed", "%s: bit %d set after resize",
           what, i);
    if (pat_bit(r.pat, i)) {
      bs.set(i);
      m[i] = true;
    }
  }
  bs.reset((size_t)r.b, (size_t)r.e);
  for (int i = r.b; i <= r.e; ++i)
    m[i] = false;
  for (int i = 0; i < r.n; ++i) {
    bool in = i >= r.b && i <= r.e;
    if (bs.test(i) != m[i])
      fail(in ? "DynamicBitSet:reset(b,e)-leaves-bit-in-range"
              : "DynamicBitSet:reset(b,e)-clears-bit-outside-range",
           "%s: afterwards test(%d) = %d, expected %d", what, i,
           (int)bs.test(i), (int)m[i]);
  }
  bs_compare(bs, m, what);
  // non-trivial: the range touches more than one 64-bit word, or ends exactly
  // on a word boundary (the masks of the partial words meet the word fill)
  if (r.b / 64 != r.e / 64 || r.b % 64 == 0 || r.e % 64 == 63)
    sx::mark_nontrivial();
  sx::outcome(sx::mix(sx::mix(r.n, r.b), sx::mix(r.e, r.pat)));
}

// ---- 3b. bitwise_or / and / xor, 2- and 3-operand forms, every pair of
// patterns whose 64-bit blocks come from a block alphabet ----------------------
static const uint64_t BLK[] = {0ull,
                               ~0ull,
                               1ull,
                               1ull << 63,
                               0xAAAAAAAAAAAAAAAAull,
                               0x5555555555555555ull};
static const int NBLK = 6;
static uint64_t npat(int n) {
  uint64_t k = 1;
  for (int w = 0; w < (n + 63) / 64; ++w)
    k *= NBLK;
  return k;
}
struct BwIn {
  int n;
  uint64_t pa, pb;
};
static uint64_t bw_count(bool) {
  uint64_t s = 0;
  for (int n : BS_N)
    s += npat(n) * npat(n);
  return s;
}
static BwIn bw_decode(uint64_t idx) {
  BwIn r{};
  for (int n : BS_N) {
    uint64_t k = npat(n) * npat(n);
    if (idx >= k) {
      idx -= k;
      continue;
    }
    r.n  = n;
    r.pa = idx % npat(n);
    r.pb = idx / npat(n);
    return r;
  }
  return r;
}
static std::vector<bool> bw_pattern(int n, uint64_t p) {
  std::vector<bool> m(n, false);
  for (int w = 0; w < (n + 63) / 64; ++w) {
    uint64_t blk = BLK[p % NBLK];
    p /= NBLK;
    for (int i = 0; i < 64 && w * 64 + i < n; ++i)
      m[w * 64 + i] = (blk >> i) & 1;
  }
  return m;
}
static void bs_build(galois::DynamicBitSet& bs, const std::vector<bool>& m) {
  bs.resize(m.size());
  for (size_t i = 0; i < m.size(); ++i)
    if (m[i])
      bs.set(i);
}
static void bw_run(uint64_t idx, bool) {
  rt();
  BwIn r               = bw_decode(idx);
  std::vector<bool> ma = bw_pattern(r.n, r.pa), mb = bw_pattern(r.n, r.pb);
  std::string in = "n=" + std::to_string(r.n) + " a=" + bits_str(ma) +
                   " b=" + bits_str(mb);
  galois::DynamicBitSet b;
  bs_build(b, mb);
  uint64_t o = 0;
  for (int op = 0; op < 5; ++op) {
    static const char* OPN[] = {"a.bitwise_or(b)", "a.bitwise_and(b)",
                                "a.bitwise_xor(b)", "c.bitwise_and(a,b)",
                                "c.bitwise_xor(a,b)"};
    galois::DynamicBitSet a, c;
    bs_build(a, ma);
    std::vector<bool> want(r.n);
    for (int i = 0; i < r.n; ++i)
      want[i] = op == 0   ? (ma[i] || mb[i])
                : op == 1 ? (ma[i] && mb[i])
                : op == 2 ? (ma[i] != mb[i])
                : op == 3 ? (ma[i] && mb[i])
                          : (ma[i] != mb[i]);
    galois::DynamicBitSet* res = &a;
    switch (op) {
    case 0:
      a.bitwise_or(b);
      break;
    case 1:
      a.bitwise_and(b);
      break;
    case 2:
      a.bitwise_xor(b);
      break;
    case 3:
      // start from a non-zero target: the result must not depend on it
      bs_build(c, bw_pattern(r.n, 1 /* all-ones first block */));
      c.bitwise_and(a, b);
      res = &c;
      break;
    case 4:
      bs_build(c, bw_pattern(r.n, 1));
      c.bitwise_xor(a, b);
      res = &c;
      break;
    }
    try {
      bs_compare(*res, want, OPN[op] + std::string(" ") + in,
                 op == 0 || op == 4);
    } catch (sx::Fail& f) {
      f.key = std::string("DynamicBitSet:") +
              (op == 0   ? "bitwise_or"
               : op == 1 ? "bitwise_and"
               : op == 2 ? "bitwise_xor"
               : op == 3 ? "bitwise_and3"
                         : "bitwise_xor3") +
              "-wrong(" + f.key + ")";
      throw;
    }
    // operands unchanged
    bs_compare(b, mb, "operand b after " + std::string(OPN[op]) + " " + in,
               false);
    if (op >= 3)
      bs_compare(a, ma, "operand a after " + std::string(OPN[op]) + " " + in,
                 false);
    o = sx::mix(o, sx::hash_str(bits_str(want)));
  }
  // non-trivial: more than one 64-bit word and both operands non-zero
  if (r.n > 64 && r.pa % NBLK && r.pb % NBLK)
    sx::mark_nontrivial();
  sx::outcome(o);
}

// ---- 3c. history BFS over single-bit operations (+ a few ranges) -------------
struct BsOp {
  int kind; // 0 set(p), 1 reset(p), 2 reset(), 3 reset(b,e)
  int a, b;
};
static std::vector<BsOp> bs_ops(int n) {
  static const int POS[] = {0, 1, 31, 62, 63, 64, 65, 127, 128, 129};
  std::vector<BsOp> v;
  for (int p : POS)
    if (p < n)
      v.push_back({0, p, 0});
  for (int p : POS)
    if (p < n)
      v.push_back({1, p, 0});
  v.push_back({2, 0, 0});
  v.push_back({3, 0, n - 1});
  if (n > 2)
    v.push_back({3, 1, n - 2});
  if (n > 64) {
    v.push_back({3, 63, 64});
    v.push_back({3, 64, n - 1});
  }
  if (n > 128) {
    v.push_back({3, 64, 127});
    v.push_back({3, 1, 128});
  }
  return v;
}
static std::string bs_opname(const BsOp& o) {
  switch (o.kind) {
  case 0:
    return "set(" + std::to_string(o.a) + ")";
  case 1:
    return "reset(" + std::to_string(o.a) + ")";
  case 2:
    return "reset()";
  default:
    return "reset(" + std::to_string(o.a) + "," + std::to_string(o.b) + ")";
  }
}
static std::string bs_bfs_run(int n, const std::vector<BsOp>& ops,
                              const std::vector<int>& hist) {
  std::vector<bool> m(n, false);
  if (hist.empty())
    return bits_str(m); // root: evaluated in the seqx parent, no runtime there
  rt();
  galois::DynamicBitSet bs;
  bs.resize(n);
  bs_compare(bs, m, "after resize(" + std::to_string(n) + ")");
  bool cross = false;
  std::string pre;
  for (int h : hist) {
    const BsOp& o = ops[h];
    pre += (pre.empty() ? "" : "; ") + bs_opname(o);
    switch (o.kind) {
    case 0: {
      bool old = bs.set(o.a);
      if (old != m[o.a])
        fail("DynamicBitSet:set-wrong-old-value", "%s returned %d, expected %d",
             pre.c_str(), (int)old, (int)m[o.a]);
      m[o.a] = true;
      break;
    }
    case 1: {
      bool old = bs.reset((size_t)o.a);
      if (old != m[o.a])
        fail("DynamicBitSet:reset(i)-wrong-old-value",
             "%s returned %d, expected %d", pre.c_str(), (int)old,
             (int)m[o.a]);
      m[o.a] = false;
      break;
    }
    case 2:
      bs.reset();
      std::fill(m.begin(), m.end(), false);
      break;
    case 3:
      bs.reset((size_t)o.a, (size_t)o.b);
      for (int i = o.a; i <= o.b; ++i)
        m[i] = false;
      break;
    }
    bs_compare(bs, m, "after " + pre);
    // non-trivial: at some point min(2,n) bits were set at the same time (a
    // single-bit operation then has to preserve its neighbours)
    int nset = 0;
    for (int i = 0; i < n; ++i)
      nset += m[i];
    if (nset >= std::min(2, n))
      cross = true;
  }
  if (cross)
    sx::mark_nontrivial();
  std::string key = bits_str(m);
  sx::outcome(sx::hash_str(key));
  return key;
}

// ---------------------------------------------------------------------------
// 4. UnionFindNode: history BFS on 4 elements against a partition model
// ---------------------------------------------------------------------------
struct UFN : public galois::UnionFindNode<UFN> {
  UFN() : galois::UnionFindNode<UFN>(const_cast<UFN*>(this)) {}
};
static const int UF_N = 4;
struct UfOp {
  int kind; // 0 merge(a,b), 1 find(a), 2 findAndCompress(a), 3 compress(a)
  int a, b;
};
static std::vector<UfOp> uf_ops() {
  std::vector<UfOp> v;
  for (int a = 0; a < UF_N; ++a)
    v.push_back({1, a, 0});
  for (int a = 0; a < UF_N; ++a)
    for (int b = 0; b < UF_N; ++b)
      if (a != b)
        v.push_back({0, a, b});
  for (int a = 0; a < UF_N; ++a)
    v.push_back({2, a, 0});
  for (int a = 0; a < UF_N; ++a)
    v.push_back({3, a, 0});
  for (int a = 0; a < UF_N; ++a)
    v.push_back({0, a, a});
  return v;
}
static std::string uf_opname(const UfOp& o) {
  std::string a = std::to_string(o.a);
  switch (o.kind) {
  case 0:
    return "e" + a + ".merge(e" + std::to_string(o.b) + ")";
  case 1:
    return "e" + a + ".find()";
  case 2:
    return "e" + a + ".findAndCompress()";
  default:
    return "e" + a + ".compress()";
  }
}
static std::string uf_run(const std::vector<UfOp>& ops,
                          const std::vector<int>& hist) {
  UFN e[UF_N]; // addresses increase with the index; merge(a,b) is enumerated
               // for every ordered pair, so both address orders are covered
  int label[UF_N];
  for (int i = 0; i < UF_N; ++i)
    label[i] = i;
  auto idx = [&](const UFN* p) -> int {
    for (int i = 0; i < UF_N; ++i)
      if (p == &e[i])
        return i;
    return -1;
  };
  std::string pre;
  bool deep = false;
  auto check = [&]() {
    int rep[UF_N];
    for (int i = 0; i < UF_N; ++i) {
      const UFN& ci = e[i];
      rep[i]        = idx(ci.find()); // const find: does not modify
      if (rep[i] < 0)
        fail("UnionFind:find-returns-foreign-pointer", "%s: e%d.find()",
             pre.c_str(), i);
      if (label[rep[i]] != label[i])
        fail("UnionFind:representative-not-in-set",
             "%s: e%d.find() = e%d which the model has in another set",
             pre.c_str(), i, rep[i]);
      if (!e[rep[i]].isRep())
        fail("UnionFind:representative-not-isRep",
             "%s: e%d.find() = e%d but e%d.isRep() is false", pre.c_str(), i,
             rep[i], rep[i]);
    }
    for (int i = 0; i < UF_N; ++i)
      for (int j = 0; j < UF_N; ++j)
        if ((rep[i] == rep[j]) != (label[i] == label[j]))
          fail(label[i] == label[j] ? "UnionFind:merged-elements-separate"
                                    : "UnionFind:unmerged-elements-joined",
               "%s: e%d.find()=e%d e%d.find()=e%d, model: %s", pre.c_str(), i,
               rep[i], j, rep[j],
               label[i] == label[j] ? "same set" : "different sets");
    for (int i = 0; i < UF_N; ++i) {
      int par = idx(e[i].get());
      if (par >= 0 && par != i && idx(e[par].get()) != par)
        deep = true;
    }
  };
  check();
  for (int h : hist) {
    const UfOp& o = ops[h];
    pre += (pre.empty() ? "" : "; ") + uf_opname(o);
    switch (o.kind) {
    case 0: {
      bool same = label[o.a] == label[o.b];
      UFN* r    = e[o.a].merge(&e[o.b]);
      if ((r == nullptr) != same)
        fail("UnionFind:merge-wrong-return",
             "%s returned %s but the elements were %s", pre.c_str(),
             r ? "non-null" : "null", same ? "already merged" : "separate");
      int lb = label[o.b], la = label[o.a];
      for (int i = 0; i < UF_N; ++i)
        if (label[i] == lb)
          label[i] = la;
      if (r) {
        int ri = idx(r);
        if (ri < 0 || label[ri] != la)
          fail("UnionFind:merge-returns-non-member",
               "%s returned a node outside the merged set", pre.c_str());
        if (e[o.a].find() != r)
          fail("UnionFind:merge-returns-non-representative",
               "%s returned e%d but find() = e%d", pre.c_str(), ri,
               idx(e[o.a].find()));
      }
      break;
    }
    case 1:
    case 2: {
      const UFN& c = e[o.a];
      const UFN* w = c.find();
      UFN* r       = o.kind == 1 ? e[o.a].find() : e[o.a].findAndCompress();
      if (r != w)
        fail(o.kind == 1 ? "UnionFind:find-inconsistent"
                         : "UnionFind:findAndCompress-wrong-representative",
             "%s returned e%d, const find() gave e%d", pre.c_str(), idx(r),
             idx(w));
      break;
    }
    case 3: {
      int before[UF_N];
      for (int i = 0; i < UF_N; ++i)
        before[i] = idx(e[i].get());
      const UFN& c = e[o.a];
      const UFN* w = c.find();
      e[o.a].compress();
      // "Compress ONLY node to point directly to the root of the tree; nodes
      // on path are not altered"
      if (e[o.a].get() != w)
        fail("UnionFind:compress-not-pointing-to-root",
             "%s: e%d now points to e%d, root is e%d", pre.c_str(), o.a,
             idx(e[o.a].get()), idx(w));
      for (int i = 0; i < UF_N; ++i)
        if (i != o.a && idx(e[i].get()) != before[i])
          fail("UnionFind:compress-altered-other-node",
               "%s: parent of e%d changed from e%d to e%d", pre.c_str(), i,
               before[i], idx(e[i].get()));
      break;
    }
    }
    check();
  }
  // non-trivial: at some point a tree had depth >= 2 (a node whose parent is
  // not a root), so find had a path to walk / compress
  if (deep)
    sx::mark_nontrivial();
  std::string key;
  for (int i = 0; i < UF_N; ++i)
    key += std::to_string(idx(e[i].get()));
  sx::outcome(sx::hash_str(key));
  return key;
}

// ---------------------------------------------------------------------------
// 5. Per-thread containers filled from on_each, read back sequentially
// ---------------------------------------------------------------------------
// A spec provides the container type, how a thread adds a value to its local
// container, how a local container is dumped in iteration order, and what the
// same additions give sequentially (the model row).
struct PtVecSpec {
  using C = galois::PerThreadVector<int>;
  static const char* name() { return "PerThreadVector<int>"; }
  static const bool global_iter = true, sorted_dump = false;
  static const int variants    = 2; // 1: reserve_all() before the fill
  template <class L>
  static void add(L& l, int v) {
    l.push_back(v);
  }
  static int val(int x) { return x; }
  static std::vector<int> model(const std::vector<int>& pushed) {
    return pushed;
  }
};
struct PtDequeSpec {
  using C = galois::PerThreadDeque<int>;
  static const char* name() { return "PerThreadDeque<int>"; }
  static const bool global_iter = true, sorted_dump = false;
  static const int variants    = 2; // 1: push_front instead of push_back
  template <class L>
  static void add(L& l, int v) {
    l.push_back(v);
  }
  static int val(int x) { return x; }
  static std::vector<int> model(const std::vector<int>& pushed) {
    return pushed;
  }
};
struct PtGdequeSpec {
  using C = galois::PerThreadGdeque<int, 2>; // chunk of 2: 3 values cross it
  static const char* name() { return "PerThreadGdeque<int,2>"; }
  static const bool global_iter = true, sorted_dump = false;
  static const int variants    = 1;
  template <class L>
  static void add(L& l, int v) {
    l.push_back(v);
  }
  static int val(int x) { return x; }
  static std::vector<int> model(const std::vector<int>& pushed) {
    return pushed;
  }
};
struct PtListSpec {
  using C = galois::PerThreadList<int>;
  static const char* name() { return "PerThreadList<int>"; }
  static const bool global_iter = true, sorted_dump = false;
  static const int variants    = 1;
  template <class L>
  static void add(L& l, int v) {
    l.push_back(v);
  }
  static int val(int x) { return x; }
  static std::vector<int> model(const std::vector<int>& pushed) {
    return pushed;
  }
};
struct PtSetSpec {
  using C = galois::PerThreadSet<int>;
  static const char* name() { return "PerThreadSet<int>"; }
  static const bool global_iter = false, sorted_dump = false;
  static const int variants    = 1;
  template <class L>
  static void add(L& l, int v) {
    l.insert(v);
  }
  static int val(int x) { return x; }
  static std::vector<int> model(const std::vector<int>& pushed) {
    std::set<int> s(pushed.begin(), pushed.end());
    return std::vector<int>(s.begin(), s.end());
  }
};
struct PtMapSpec { // value -> how often this thread added it
  using C = galois::PerThreadMap<int, int>;
  static const char* name() { return "PerThreadMap<int,int>"; }
  static const bool global_iter = false, sorted_dump = false;
  static const int variants    = 1;
  template <class L>
  static void add(L& l, int v) {
    l[v] += 1;
  }
  static int val(const std::pair<const int, int>& x) {
    return x.first * 10 + x.second;
  }
  static std::vector<int> model(const std::vector<int>& pushed) {
    std::map<int, int> s;
    for (int v : pushed)
      s[v] += 1;
    std::vector<int> o;
    for (auto& kv : s)
      o.push_back(kv.first * 10 + kv.second);
    return o;
  }
};
struct PtHeapSpec { // iteration order of a heap is unspecified: sorted dumps
  using C = galois::PerThreadMinHeap<int>;
  static const char* name() { return "PerThreadMinHeap<int>"; }
  static const bool global_iter = false, sorted_dump = true;
  static const int variants    = 1;
  template <class L>
  static void add(L& l, int v) {
    l.push(v);
  }
  static int val(int x) { return x; }
  static std::vector<int> model(const std::vector<int>& pushed) {
    std::vector<int> s = pushed;
    std::sort(s.begin(), s.end());
    return s;
  }
};

static std::string ivec_str(const std::vector<int>& v) {
  std::string s = "[";
  for (size_t i = 0; i < v.size(); ++i)
    s += (i ? "," : "") + std::to_string(v[i]);
  return s + "]";
}

struct PtIn {
  int variant;
  Seq q; // sym = value-1 in {0,1,2}
};
static const int PT_NVAL = 3;
static int pt_maxlen(bool th) { return th ? 5 : 4; }
template <class S>
static PtIn pt_decode(uint64_t idx) {
  PtIn p;
  p.variant = idx % S::variants;
  p.q       = seq_decode(idx / S::variants, PT_NVAL);
  return p;
}
template <class S>
static std::string pt_str(const PtIn& p) {
  std::string s = "variant=" + std::to_string(p.variant) + " adds in program order: [";
  for (int i = 0; i < p.q.n; ++i)
    s += (i ? "; " : "") + std::string("t") + std::to_string(p.q.thr[i]) +
         " add " + std::to_string(p.q.sym[i] + 1);
  return s + "]";
}

template <class S>
static void pt_run(uint64_t idx, bool) {
  rt();
  PtIn p               = pt_decode<S>(idx);
  const Seq& q         = p.q;
  const std::string nm = S::name();
  const std::string in = pt_str<S>(p);
  typename S::C c;
  const bool front = std::is_same_v<S, PtDequeSpec> && p.variant == 1;
  if constexpr (std::is_same_v<S, PtVecSpec>) {
    if (p.variant == 1)
      c.reserve_all(3);
  }
  uint64_t o = 0;
  for (int round = 0; round < 2; ++round) {
    // round 1 = reuse after clear_all_parallel(), assignment rotated by one
    std::vector<int> pushed[NT];
    for (int i = 0; i < q.n; ++i)
      pushed[(q.thr[i] + round) % g_threads].push_back(q.sym[i] + 1);
    std::vector<int> rows[NT], all;
    for (unsigned t = 0; t < NT; ++t) {
      if (front)
        std::reverse(pushed[t].begin(), pushed[t].end());
      rows[t] = S::model(pushed[t]);
      if (front)
        std::reverse(pushed[t].begin(), pushed[t].end());
      all.insert(all.end(), rows[t].begin(), rows[t].end());
    }
    std::vector<int> local[NT];
    galois::on_each([&](unsigned tid, unsigned) {
      for (int i = 0; i < q.n; ++i)
        if ((q.thr[i] + round) % g_threads == tid) {
          if constexpr (std::is_same_v<S, PtDequeSpec>) {
            if (front) {
              c.get().push_front(q.sym[i] + 1);
              continue;
            }
          }
          S::add(c.get(), q.sym[i] + 1);
        }
      // each thread reads its own container back through the local iterators
      if (tid < NT)
        for (auto it = c.local_begin(); it != c.local_end(); ++it)
          local[tid].push_back(S::val(*it));
    });
    if (c.numRows() < g_threads)
      fail(nm + ":numRows-too-small", "numRows() = %u", c.numRows());
    size_t total = 0;
    for (unsigned t = 0; t < c.numRows(); ++t) {
      std::vector<int> got, want = t < NT ? rows[t] : std::vector<int>();
      const auto& row = c.get(t);
      for (auto it = row.begin(); it != row.end(); ++it)
        got.push_back(S::val(*it));
      if (S::sorted_dump)
        std::sort(got.begin(), got.end());
      if (got != want)
        fail(nm + ":row-differs-from-sequential",
             "round %d: get(%u) holds %s, thread %u added %s sequentially; %s",
             round, t, ivec_str(got).c_str(), t, ivec_str(want).c_str(),
             in.c_str());
      if (row.size() != want.size())
        fail(nm + ":row-size-wrong", "round %d: get(%u).size() = %zu; %s", round,
             t, (size_t)row.size(), in.c_str());
      if (t < NT) {
        if (S::sorted_dump)
          std::sort(local[t].begin(), local[t].end());
        if (local[t] != want)
          fail(nm + ":local-iteration-differs",
               "round %d: thread %u saw %s through local_begin/local_end, "
               "expected %s; %s",
               round, t, ivec_str(local[t]).c_str(), ivec_str(want).c_str(),
               in.c_str());
      }
      total += want.size();
    }
    if constexpr (std::is_same_v<S, PtHeapSpec>) {
      for (unsigned t = 0; t < NT; ++t)
        if (!rows[t].empty() && c.get(t).top() != rows[t][0])
          fail(nm + ":top-not-minimum", "round %d: get(%u).top() = %d; %s",
               round, t, c.get(t).top(), in.c_str());
    }
    if (c.size_all() != total)
      fail(nm + ":size_all-wrong", "round %d: size_all() = %zu, expected %zu; %s",
           round, (size_t)c.size_all(), total, in.c_str());
    if (c.empty_all() != (total == 0))
      fail(nm + ":empty_all-wrong", "round %d: empty_all() = %d with %zu "
           "elements; %s", round, (int)c.empty_all(), total, in.c_str());
    // global traversal (non-const begin_all/end_all, rbegin_all/rend_all of
    // the containers that expose them): multiset of contents (the property);
    // the reverse traversal must be the reverse of the forward one.
    // NOTE: every const global traversal of PerThreadContainer (begin_all()
    // const, cbegin_all(), crbegin_all() ... and therefore the only begin_all()
    // that PerThreadSet / PerThreadMap / PerThreadMinHeap expose) does not
    // compile when instantiated (WLindexer<const PerThreadContainer> vs
    // WLindexer<PerThreadContainer> in the iterator typedefs), so it cannot be
    // exercised; those containers are read back through get(i) only.
    std::vector<int> fwd, rev;
    if constexpr (S::global_iter) {
      for (auto it = c.begin_all(), e = c.end_all(); it != e; ++it)
        fwd.push_back(S::val(*it));
      for (auto it = c.rbegin_all(), e = c.rend_all(); it != e; ++it)
        rev.push_back(S::val(*it));
      std::vector<int> sf = fwd, sa = all;
      std::sort(sf.begin(), sf.end());
      std::sort(sa.begin(), sa.end());
      if (sf != sa)
        fail(nm + ":contents-differ-from-sequential",
             "round %d: begin_all..end_all yields %s, sequential contents %s; "
             "%s",
             round, ivec_str(fwd).c_str(), ivec_str(all).c_str(), in.c_str());
      std::vector<int> r2(fwd.rbegin(), fwd.rend());
      if (rev != r2)
        fail(nm + ":reverse-traversal-not-reverse-of-forward",
             "round %d: forward %s, reverse %s; %s", round,
             ivec_str(fwd).c_str(), ivec_str(rev).c_str(), in.c_str());
      if ((size_t)std::distance(c.begin(), c.end()) != total)
        fail(nm + ":begin-end-distance-wrong", "round %d: %s", round,
             in.c_str());
    } else {
      fwd = all;
    }
    o = sx::mix(o, sx::hash_str(ivec_str(fwd)));
    c.clear_all_parallel();
    if (!c.empty_all() || c.size_all() != 0)
      fail(nm + ":clear_all_parallel-leaves-elements",
           "round %d: size_all() = %zu after clear_all_parallel(); %s", round,
           (size_t)c.size_all(), in.c_str());
    if constexpr (S::global_iter) {
      if (!(c.begin_all() == c.end_all()))
        fail(nm + ":clear_all_parallel-leaves-elements",
             "round %d: begin_all() != end_all() after clear; %s", round,
             in.c_str());
    }
  }
  // non-trivial: at least two threads added something (the global traversal
  // has to cross from one row to another, skipping empty rows)
  if (q.threads_used() >= 2)
    sx::mark_nontrivial();
  sx::outcome(o);
}

template <class S>
static sx::EnumCase pt_case() {
  sx::EnumCase c;
  c.name  = std::string(S::name()) + " filled from on_each, read sequentially";
  c.count = [](bool th) {
    return (uint64_t)S::variants * seq_count(PT_NVAL * NT, pt_maxlen(th));
  };
  c.run      = once(pt_run<S>);
  c.describe = [](uint64_t idx, bool) { return pt_str<S>(pt_decode<S>(idx)); };
  return c;
}

// ---- 5b. fill_parallel(range, &container::push_back): which thread receives
// which element is up to do_all, so only the multiset of the contents, the
// sizes and "every element sits in exactly one row" are determined ------------
static const int PF_NVAL = 3;
static int pf_maxlen(bool th) { return th ? 8 : 6; }
static std::vector<int> pf_decode(uint64_t idx) {
  std::vector<int> v;
  uint64_t p = 1;
  int n      = 0;
  while (idx >= p) {
    idx -= p;
    p *= PF_NVAL;
    ++n;
  }
  for (int i = 0; i < n; ++i) {
    v.push_back(1 + idx % PF_NVAL);
    idx /= PF_NVAL;
  }
  return v;
}
template <class S>
static void pf_run(uint64_t idx, bool) {
  rt();
  std::vector<int> src = pf_decode(idx);
  const std::string nm = std::string(S::name()) + "::fill_parallel";
  const std::string in = "values " + ivec_str(src);
  typename S::C c;
  using CT = typename S::C::container_type;
  std::vector<int> want = src;
  std::sort(want.begin(), want.end());
  uint64_t o = 0;
  for (int round = 0; round < 2; ++round) { // round 1: reuse after clear
    c.fill_parallel(galois::runtime::makeStandardRange(src.begin(), src.end()),
                    static_cast<void (CT::*)(const int&)>(&CT::push_back));
    std::vector<int> rows, fwd;
    unsigned used = 0;
    for (unsigned t = 0; t < c.numRows(); ++t) {
      if (!c.get(t).empty()) {
        ++used;
        if (t >= g_threads)
          fail(nm + ":element-in-inactive-thread-row",
               "round %d: row %u is not empty; %s", round, t, in.c_str());
      }
      for (int x : c.get(t))
        rows.push_back(x);
    }
    for (auto it = c.begin_all(), e = c.end_all(); it != e; ++it)
      fwd.push_back(*it);
    std::vector<int> sr = rows, sf = fwd;
    std::sort(sr.begin(), sr.end());
    std::sort(sf.begin(), sf.end());
    if (sr != want || sf != want)
      fail(nm + ":contents-differ-from-sequential",
           "round %d: rows hold %s, begin_all..end_all yields %s; %s", round,
           ivec_str(rows).c_str(), ivec_str(fwd).c_str(), in.c_str());
    if (c.size_all() != src.size() || c.empty_all() != src.empty())
      fail(nm + ":size_all-wrong", "round %d: size_all() = %zu; %s", round,
           (size_t)c.size_all(), in.c_str());
    c.clear_all_parallel();
    if (!c.empty_all() || c.size_all() != 0)
      fail(nm + ":clear_all_parallel-leaves-elements", "round %d; %s", round,
           in.c_str());
    o = sx::mix(o, sx::hash_str(ivec_str(want)));
  }
  // non-trivial: more elements than threads (some thread pushes twice)
  if (src.size() > g_threads)
    sx::mark_nontrivial();
  sx::outcome(o);
}
template <class S>
static sx::EnumCase pf_case() {
  sx::EnumCase c;
  c.name     = std::string(S::name()) + " fill_parallel value sequences";
  c.count    = [](bool th) { return seq_count(PF_NVAL, pf_maxlen(th)); };
  c.run      = once(pf_run<S>);
  c.describe = [](uint64_t idx, bool) {
    return "values " + ivec_str(pf_decode(idx));
  };
  return c;
}

// ---------------------------------------------------------------------------
int main(int argc, char** argv) {
  setenv("GALOIS_DO_NOT_BIND_THREADS", "1", 1);
  std::vector<sx::BfsCase> bfs;
  std::vector<sx::EnumCase> en;

  // ---- BFS: union-find -----------------------------------------------------
  {
    static const std::vector<UfOp> ops = uf_ops();
    sx::BfsCase c;
    c.name   = "UnionFindNode 4 elements";
    c.nops   = (int)ops.size();
    c.opname = [](int i) { return uf_opname(ops[i]); };
    c.run = once_bfs([](const std::vector<int>& h) { return uf_run(ops, h); });
    c.quick_depth    = 4;
    c.thorough_depth = 8;
    bfs.push_back(c);
  }
  // ---- BFS: bitset single-bit histories --------------------------------------
  for (int n : BS_N) {
    auto ops = std::make_shared<std::vector<BsOp>>(bs_ops(n));
    sx::BfsCase c;
    c.name   = "DynamicBitSet n=" + std::to_string(n) + " bit histories";
    c.nops   = (int)ops->size();
    c.opname = [ops](int i) { return bs_opname((*ops)[i]); };
    c.run    = once_bfs(
        [n, ops](const std::vector<int>& h) { return bs_bfs_run(n, *ops, h); });
    c.quick_depth    = 4;
    c.thorough_depth = 10;
    c.weight         = n > 64 ? 2 : 1;
    bfs.push_back(c);
  }

  // ---- reducers ----------------------------------------------------------------
  en.push_back(red_case<AccSpec<int, 0>>(8));
  en.push_back(red_case<AccSpec<unsigned, 0>>(8));
  en.push_back(red_case<AccSpec<float, 0>>(25));
  en.push_back(red_case<AccSpec<double, 0>>(25));
  en.push_back(red_case<AccSpec<int, 1>>(1));
  en.push_back(red_case<AccSpec<unsigned, 1>>(1));
  en.push_back(red_case<AccSpec<float, 1>>(3));
  en.push_back(red_case<AccSpec<double, 1>>(3));
  en.push_back(red_case<MinMaxSpec<int, true>>(2));
  en.push_back(red_case<MinMaxSpec<unsigned, true>>(1));
  en.push_back(red_case<MinMaxSpec<float, true>>(3));
  en.push_back(red_case<MinMaxSpec<double, true>>(3));
  en.push_back(red_case<MinMaxSpec<int, false>>(2));
  en.push_back(red_case<MinMaxSpec<unsigned, false>>(1));
  en.push_back(red_case<MinMaxSpec<float, false>>(3));
  en.push_back(red_case<MinMaxSpec<double, false>>(3));
  en.push_back(red_case<LogicalSpec<true>>(1));
  en.push_back(red_case<LogicalSpec<false>>(1));
  en.push_back(red_case<MoveOnlySpec>(1));
  en.push_back(red_case<UserOrSpec>(1));
  en.push_back(red_case<UserFnMaxSpec>(1));

  // ---- bitset ----------------------------------------------------------------------
  {
    sx::EnumCase c;
    c.name     = "DynamicBitSet reset(b,e) all ranges";
    c.count    = range_count;
    c.run      = once(range_run);
    c.describe = [](uint64_t idx, bool) {
      RangeIn r = range_decode(idx);
      return "n=" + std::to_string(r.n) + " start=" + PATNAME[r.pat] +
             " reset(" + std::to_string(r.b) + "," + std::to_string(r.e) + ")";
    };
    en.push_back(c);
  }
  {
    sx::EnumCase c;
    c.name     = "DynamicBitSet bitwise or/and/xor all block-pattern pairs";
    c.count    = bw_count;
    c.run      = once(bw_run);
    c.describe = [](uint64_t idx, bool) {
      BwIn r = bw_decode(idx);
      return "n=" + std::to_string(r.n) + " a=" + bits_str(bw_pattern(r.n, r.pa)) +
             " b=" + bits_str(bw_pattern(r.n, r.pb));
    };
    c.weight = 2;
    en.push_back(c);
  }

  // ---- atomic helpers -------------------------------------------------------------
  add_atomic_cases<int>(en);
  add_atomic_cases<unsigned>(en);
  add_atomic_cases<float>(en);
  add_atomic_cases<double>(en);

  // ---- per-thread containers ------------------------------------------------------
  en.push_back(pt_case<PtVecSpec>());
  en.push_back(pt_case<PtDequeSpec>());
  en.push_back(pt_case<PtGdequeSpec>());
  en.push_back(pt_case<PtListSpec>());
  en.push_back(pt_case<PtSetSpec>());
  en.push_back(pt_case<PtMapSpec>());
  en.push_back(pt_case<PtHeapSpec>());
  en.push_back(pf_case<PtVecSpec>());
  en.push_back(pf_case<PtDequeSpec>());
  en.push_back(pf_case<PtListSpec>());

  return sx::sx_main(argc, argv, "C15", bfs, en);
}

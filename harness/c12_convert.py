#!/usr/bin/env python3
"""C12 (part B): graph-convert conversions preserve / transform the graph as
documented.  Engine kind "py": bounded-exhaustive input enumeration, the REAL
tools/graph-convert/graph-convert binary (built from /repo's working tree with
CMake+Ninja, Release, as shipped) run as a subprocess per input, its output
decoded by the Python .gr decoder below (shares nothing with Galois) and
compared with a Python reference of what the option documents.

  c12_convert.py --tier quick|thorough --out FILE --deadline SEC [--jobs N]
                 [--case SUBSTRING] [--replaydir DIR] [--list]
  c12_convert.py --replay FILE

Exit 0: no violation; 1: violations (also printed as FOUND lines); 2: the
machinery failed (tool does not build, ...).  The JSON written to --out has
exactly the fields of sx::Driver::emit (/verif/seqx/seqx.h).

What "documented" is taken from: `graph-convert --help` (option descriptions),
the comments in tools/graph-convert/graph-convert.cpp next to each converter,
and the three sample conversions in tools/graph-convert/CMakeLists.txt /
test-inputs (blank lines and '#' comment lines of an edge list are ignored,
whitespace between columns is free, the first line of a CSV holds labels).
Where nothing is documented every sensible outcome is accepted; each such
place is marked "ACCEPT:" below.

Inputs
 * text -> gr: every text of <= 3 (quick) / <= 4 (thorough) lines over a
   per-format alphabet {edge, edge with weight, comment, blank line,
   CRLF-terminated edge, edge whose ids leave a gap, verbatim duplicate of the
   previous line, self loop, ...}; with and without a final newline for edge
   lists.
 * gr -> *: every directed multigraph with n <= 3 nodes and an ORDERED edge
   list of m <= 3 (quick) / m <= 4 (thorough) edges.  Edge i of the list has
   weight WL[i]; the file is CSR (stable grouping by source).  Without edge
   data different lists give the same file; such duplicates are dropped.
The tool is started with its CPU affinity narrowed to one CPU (its thread pool
would otherwise create one thread per CPU for ~40 ms; the conversions are
sequential code).  `rand`/`std::random_device` are not interposed: randomising
conversions are checked for the documented invariant only.
"""
import argparse
import hashlib
import itertools
import json
import multiprocessing as mp
import os
import random
import shutil
import struct
import subprocess
import sys
import time
from collections import Counter

HERE = os.path.dirname(os.path.abspath(__file__))
VERIF = os.path.dirname(HERE)
sys.path.insert(0, VERIF)
try:
    from vlib import build as _vb
    REPO, BUILD, TMP = _vb.REPO, _vb.BUILD, _vb.TMP
except Exception:  # pragma: no cover
    REPO = os.environ.get("VERIF_REPO", "/repo")
    BUILD = os.path.join(VERIF, "build")
    TMP = os.path.join(BUILD, "tmp")

SCRATCH_ROOT = os.path.join(TMP, "c12conv")
PROPERTY = "C12"

# ---------------------------------------------------------------------------
# building the tool
# ---------------------------------------------------------------------------
HASH_TREES = ["libgalois", "libsupport", "tools", "cmake"]
HASH_FILES = ["CMakeLists.txt"]
CMAKE_ARGS = ["-DCMAKE_BUILD_TYPE=Release", "-DBUILD_TESTING=OFF"]
MAX_JOBS = 8


def tools_tree_hash():
    h = hashlib.sha256()
    h.update(" ".join(CMAKE_ARGS + ["graph-convert"]).encode())
    for d in HASH_TREES:
        for root, dn, fn in os.walk(os.path.join(REPO, d)):
            dn.sort()
            for f in sorted(fn):
                p = os.path.join(root, f)
                h.update(os.path.relpath(p, REPO).encode() + b"\0")
                try:
                    with open(p, "rb") as fh:
                        h.update(fh.read())
                except OSError:
                    pass
                h.update(b"\0")
    for f in HASH_FILES:
        with open(os.path.join(REPO, f), "rb") as fh:
            h.update(f.encode())
            h.update(fh.read())
    return h.hexdigest()[:20]


def tool_build(verbose=True):
    """Returns the path of graph-convert built from REPO's working tree into
    BUILD/cmake-tools-<hash> (cached; /repo/_build is never touched)."""
    import fcntl
    hh = tools_tree_hash()
    bdir = os.path.join(BUILD, "cmake-tools-" + hh)
    exe = os.path.join(bdir, "tools", "graph-convert", "graph-convert")
    stamp = os.path.join(bdir, "verif-tools-build.json")
    os.makedirs(BUILD, exist_ok=True)
    os.makedirs(TMP, exist_ok=True)
    with open(os.path.join(BUILD, "cmake-tools.lock"), "w") as lk:
        fcntl.flock(lk, fcntl.LOCK_EX)
        if os.path.exists(stamp) and os.access(exe, os.X_OK):
            return exe
        t0 = time.time()
        if verbose:
            print("# c12_convert: cold CMake build of graph-convert from %s "
                  "into %s" % (REPO, bdir), flush=True)
        tmpd = os.path.join(TMP, "toolbuild-tmp-%d" % os.getpid())
        os.makedirs(tmpd, exist_ok=True)
        env = dict(os.environ, TMPDIR=tmpd, TMP=tmpd, TEMP=tmpd)
        if os.path.exists(bdir):
            shutil.rmtree(bdir)
        os.makedirs(bdir)
        log = os.path.join(bdir, "verif-tools-build.log")

        def run(cmd):
            with open(log, "a") as lf:
                lf.write("$ " + " ".join(cmd) + "\n")
                lf.flush()
                return subprocess.run(cmd, env=env, stdout=lf,
                                      stderr=subprocess.STDOUT).returncode

        def die(what):
            sys.stderr.write("TOOL BUILD FAILED (%s); tail of %s:\n" %
                             (what, log))
            try:
                sys.stderr.write("".join(
                    open(log, errors="replace").readlines()[-60:]))
            except OSError:
                pass
            raise SystemExit(2)

        try:
            if run(["cmake", "-G", "Ninja", "-S", REPO, "-B", bdir] +
                   CMAKE_ARGS) != 0:
                die("configure")
            jobs = max(1, min(int(os.environ.get("VERIF_BUILD_JOBS",
                                                 str(MAX_JOBS))), MAX_JOBS))
            if run(["ninja", "-C", bdir, "-j", str(jobs),
                    "graph-convert"]) != 0:
                die("ninja graph-convert")
        finally:
            shutil.rmtree(tmpd, ignore_errors=True)
        if not os.access(exe, os.X_OK):
            die("no executable")
        with open(stamp + ".tmp", "w") as f:
            json.dump(dict(exe=exe, hash=hh,
                           cold_build_s=round(time.time() - t0, 1)), f)
        os.replace(stamp + ".tmp", stamp)
        if verbose:
            print("# c12_convert: built in %.1fs" % (time.time() - t0),
                  flush=True)
        return exe


# ---------------------------------------------------------------------------
# failure / helpers
# ---------------------------------------------------------------------------
class Fail(Exception):
    def __init__(self, key, msg):
        Exception.__init__(self, key + ": " + msg)
        self.key, self.msg = key, msg


def fail(key, msg):
    raise Fail(key, msg)


# edge types of --edgeType: name -> (size, struct format)
TYPES = {
    "void": (0, None), "int32": (4, "<i"), "uint32": (4, "<I"),
    "int64": (8, "<q"), "uint64": (8, "<Q"), "float32": (4, "<f"),
    "float64": (8, "<d"),
}


def pack_w(ty, w):
    sz, fmt = TYPES[ty]
    if sz == 0:
        return b""
    if fmt in ("<f", "<d"):
        return struct.pack(fmt, float(w))
    return struct.pack(fmt, int(w))


def unpack_w(ty, raw):
    sz, fmt = TYPES[ty]
    if sz == 0:
        return None
    return struct.unpack(fmt, raw)[0]


# ---------------------------------------------------------------------------
# THE INDEPENDENT .gr CODEC (format: FileGraph.cpp "Graph file format",
# OfflineGraph.h "File format V1/V2"):
#   uint64 LE version(1|2), sizeofEdgeData, numNodes, numEdges
#   uint64 LE outIdx[numNodes]   (END offset of every node's edges)
#   uint32 LE outs[numEdges] (v1) | uint64 LE (v2); padded to 8 bytes
#   edge data, sizeofEdgeData bytes per edge
# A decoded graph is (n, [(src, dst, rawdata)...]) in file (CSR) order.
# ---------------------------------------------------------------------------
def decode_gr(conv, ctx, b, what="output"):
    if len(b) < 32:
        fail(conv + ":file-size", "%s: %s has %d bytes, no room for a header"
             % (ctx, what, len(b)))
    ver, esz, n, m = struct.unpack_from("<4Q", b, 0)
    if ver not in (1, 2) or n > 10**6 or m > 10**6 or esz > 64:
        fail(conv + ":header", "%s: %s header version=%d sizeofEdge=%d "
             "numNodes=%d numEdges=%d" % (ctx, what, ver, esz, n, m))
    idw = 4 if ver == 1 else 8
    off_idx = 32
    off_outs = off_idx + 8 * n
    off_data = (off_outs + idw * m + 7) & ~7
    need = off_data + esz * m
    if len(b) != need:
        fail(conv + ":file-size", "%s: %s has %d bytes, the format needs %d "
             "(v%d n=%d m=%d sizeofEdge=%d)" % (ctx, what, len(b), need, ver,
                                                 n, m, esz))
    edges = []
    prev = 0
    for u in range(n):
        end = struct.unpack_from("<Q", b, off_idx + 8 * u)[0]
        if end < prev or end > m:
            fail(conv + ":out-index", "%s: %s outIdx[%d]=%d after %d, "
                 "numEdges=%d" % (ctx, what, u, end, prev, m))
        for p in range(prev, end):
            dst = int.from_bytes(b[off_outs + idw * p:off_outs + idw * p + idw],
                                 "little")
            raw = bytes(b[off_data + esz * p:off_data + esz * p + esz])
            edges.append((u, dst, raw))
        prev = end
    if prev != m:
        fail(conv + ":out-index", "%s: %s header says numEdges=%d but the "
             "out-index array ends at %d" % (ctx, what, m, prev))
    for (s, d, _r) in edges:
        if d >= n:
            fail(conv + ":out-index", "%s: %s has an edge %d->%d but only %d "
                 "nodes" % (ctx, what, s, d, n))
    return dict(ver=ver, esz=esz, n=n, m=m, edges=edges)


def encode_gr(n, edges, ty, ver=1):
    """edges: [(s,d,w)] in any order; grouped stably by source."""
    sz = TYPES[ty][0]
    by = sorted(range(len(edges)), key=lambda i: edges[i][0])
    deg = [0] * n
    for (s, _d, _w) in edges:
        deg[s] += 1
    out = [struct.pack("<4Q", ver, sz, n, len(edges))]
    acc = 0
    for u in range(n):
        acc += deg[u]
        out.append(struct.pack("<Q", acc))
    idw = 4 if ver == 1 else 8
    for i in by:
        out.append(edges[i][1].to_bytes(idw, "little"))
    if (idw * len(edges)) % 8:
        out.append(b"\0" * 4)
    for i in by:
        out.append(pack_w(ty, edges[i][2]))
    return b"".join(out)


# ---------------------------------------------------------------------------
# worker state + running the tool
# ---------------------------------------------------------------------------
class Ctx:
    exe = None
    dir = None
    seq = 0
    nruns = 0


def fresh(suffix):
    Ctx.seq += 1
    return os.path.join(Ctx.dir, "f%d%s" % (Ctx.seq, suffix))


def write_file(path, data):
    with open(path, "wb") as f:
        f.write(data)


def read_file(path):
    with open(path, "rb") as f:
        return f.read()


def rm(*paths):
    for p in paths:
        try:
            os.unlink(p)
        except OSError:
            pass


TOOL_TIMEOUT = 20


_ALL_CPUS = None


def _narrow(k=1):
    """Restrict this worker (and so the tool it starts next) to k randomly
    chosen CPUs: the tool's thread pool creates one thread per allowed CPU
    (~40 ms of start-up on 16, and every extra thread costs a spinning
    hand-shake).  A different CPU for every run, and not one of the first four
    when there are at least eight: mpirun binds ranks to cores 0,1,.. and a
    process confined to such a CPU was observed to stall for minutes.
    k = 0: no restriction."""
    global _ALL_CPUS
    try:
        if _ALL_CPUS is None:
            _ALL_CPUS = sorted(os.sched_getaffinity(0))
        if k <= 0:
            return
        pool = _ALL_CPUS[4:] if len(_ALL_CPUS) >= 8 else _ALL_CPUS
        os.sched_setaffinity(0, set(random.sample(pool, min(k, len(pool)))))
    except (AttributeError, OSError):
        pass


def _widen():
    try:
        if _ALL_CPUS:
            os.sched_setaffinity(0, set(_ALL_CPUS))
    except (AttributeError, OSError):
        pass


def tool(conv, ctx, args, inp, out, must_succeed=True):
    """Runs graph-convert <args> inp out.  Returns (returncode, text).  A run
    that exceeds the time limit is repeated twice, without CPU restriction and
    with a longer limit (the box may be overloaded); only three time-outs in a
    row are reported as a hang."""
    cmd = [Ctx.exe] + list(args) + [inp, out]
    r = None
    limits = (TOOL_TIMEOUT, 3 * TOOL_TIMEOUT, 6 * TOOL_TIMEOUT)
    for attempt in range(3):
        Ctx.nruns += 1
        _narrow(1 if attempt == 0 else 0)
        try:
            r = subprocess.run(cmd, stdin=subprocess.DEVNULL,
                               stdout=subprocess.PIPE,
                               stderr=subprocess.STDOUT,
                               timeout=limits[attempt], cwd=Ctx.dir)
            break
        except subprocess.TimeoutExpired:
            rm(out)
        finally:
            _widen()
    if r is None:
        fail(conv + ":hang", "%s: `graph-convert %s` did not finish in %d s "
             "(third attempt)" % (ctx, " ".join(args), limits[2]))
    text = r.stdout.decode(errors="replace")
    if must_succeed and r.returncode != 0:
        fail(conv + ":tool-failed", "%s: `graph-convert %s` exited with %d: %s"
             % (ctx, " ".join(args), r.returncode,
                " / ".join(text.strip().splitlines()[-3:])[:300]))
    return r.returncode, text


def ms_str(c):
    return "{" + ", ".join("%s x%d" % (k, v) if v > 1 else str(k)
                           for k, v in sorted(c.items(), key=str)) + "}"


def edges_ms(ty, edges):
    """multiset of (s, d, packed weight) from reference edges (s,d,w)"""
    return Counter((s, d, pack_w(ty, w)) for (s, d, w) in edges)


def show(ty, ms):
    c = Counter()
    for (s, d, raw), k in ms.items():
        w = unpack_w(ty, raw) if len(raw) == TYPES[ty][0] else raw.hex()
        c["%d>%d" % (s, d) + ("" if w is None else ":%s" % (w,))] += k
    return ms_str(c)


def check_graph(conv, ctx, dec, ty, n_ok, edges_exp, what="output"):
    """dec: decoded graph; n_ok: set of acceptable node counts; edges_exp:
    reference [(s,d,w)]; compares sizeofEdge, node count, edge multiset with
    weights."""
    if dec["esz"] != TYPES[ty][0]:
        fail(conv + ":edge-size", "%s: %s has sizeofEdgeData=%d, edge type %s "
             "has %d" % (ctx, what, dec["esz"], ty, TYPES[ty][0]))
    if dec["n"] not in n_ok:
        fail(conv + ":node-count", "%s: %s has %d nodes, expected %s"
             % (ctx, what, dec["n"], " or ".join(map(str, sorted(n_ok)))))
    got = Counter(dec["edges"])
    exp = edges_ms(ty, edges_exp)
    if Counter((s, d) for (s, d, _r) in got.elements()) != \
            Counter((s, d) for (s, d, _r) in exp.elements()):
        fail(conv + ":edges", "%s: %s has edges %s, expected %s"
             % (ctx, what, show(ty, got), show(ty, exp)))
    if got != exp:
        fail(conv + ":weights", "%s: %s has edges %s, expected %s"
             % (ctx, what, show(ty, got), show(ty, exp)))


# ---------------------------------------------------------------------------
# enumerated graphs
# ---------------------------------------------------------------------------
WL = [20, 10, 30, 40, 50]  # weight of the edge with index i in the edge list
_gcache = {}


def graphs(maxn, maxm, typed):
    """[(n, [(s,d,w)...] in CSR order)]; typed: w = WL[i]; untyped: w None and
    lists that give the same file are dropped."""
    key = (maxn, maxm, typed)
    if key in _gcache:
        return _gcache[key]
    res, seen = [], set()
    for n in range(1, maxn + 1):
        pairs = [(s, d) for s in range(n) for d in range(n)]
        for m in range(0, maxm + 1):
            for el in itertools.product(pairs, repeat=m):
                if typed:
                    e = [(s, d, WL[i]) for i, (s, d) in enumerate(el)]
                else:
                    e = [(s, d, None) for (s, d) in el]
                e.sort(key=lambda x: x[0])  # stable: CSR order
                if not typed:
                    k = (n, tuple(e))
                    if k in seen:
                        continue
                    seen.add(k)
                res.append((n, e))
    _gcache[key] = res
    return res


def gstr(n, edges):
    return "n=%d edges(file order)=[%s]" % (n, " ".join(
        "%d>%d" % (s, d) + ("" if w is None else ":%s" % (w,))
        for (s, d, w) in edges))


def out_deg(n, edges):
    d = [0] * n
    for (s, _d, _w) in edges:
        d[s] += 1
    return d


def in_deg(n, edges):
    d = [0] * n
    for (_s, t, _w) in edges:
        d[t] += 1
    return d


def per_node(n, dec_edges):
    a = [[] for _ in range(n)]
    for (s, d, r) in dec_edges:
        a[s].append((d, r))
    return a


def nontrivial_graph(n, edges):
    return len(edges) >= 2 or any(s == d for (s, d, _w) in edges)


# ---------------------------------------------------------------------------
# gr -> gr transforms.  Each takes (conv name, ctx string, n, edges, ty,
# variant) and raises Fail; returns an int outcome hash.
# ---------------------------------------------------------------------------
def run_gr2gr(conv, ctx, args, n, edges, ty, ver=1):
    inp, out = fresh(".gr"), fresh(".out.gr")
    write_file(inp, encode_gr(n, edges, ty, ver))
    try:
        tool(conv, ctx, args, inp, out)
        if not os.path.exists(out):
            fail(conv + ":no-output", "%s: the tool exited 0 without writing "
                 "the output file" % ctx)
        b = read_file(out)
    finally:
        rm(inp, out)
    return b


def h_of(b):
    return int.from_bytes(hashlib.sha256(b).digest()[:8], "little")


def t_tgr(conv, ctx, n, edges, ty, var):
    # "Transpose binary gr"
    b = run_gr2gr(conv, ctx, ["-gr2tgr", "-edgeType=" + ty], n, edges, ty)
    dec = decode_gr(conv, ctx, b)
    check_graph(conv, ctx, dec, ty, {n}, [(d, s, w) for (s, d, w) in edges])
    return h_of(b)


def t_sgr(conv, ctx, n, edges, ty, var):
    # "Convert binary gr to symmetric graph by adding reverse edges";
    # makeSymmetric: "Adds reverse edges to a graph. Reverse edges have edge
    # data copied from the original edge."
    # ACCEPT: a self loop is its own reverse; either one or two copies.
    b = run_gr2gr(conv, ctx, ["-gr2sgr", "-edgeType=" + ty], n, edges, ty)
    dec = decode_gr(conv, ctx, b)
    once = list(edges) + [(d, s, w) for (s, d, w) in edges if s != d]
    twice = list(edges) + [(d, s, w) for (s, d, w) in edges]
    try:
        check_graph(conv, ctx, dec, ty, {n}, once)
    except Fail as f1:
        if once == twice:
            raise
        try:
            check_graph(conv, ctx, dec, ty, {n}, twice)
        except Fail:
            raise f1
    return h_of(b)


def t_cgr(conv, ctx, n, edges, ty, var):
    # "Clean up binary gr: remove self edges and multi-edges"
    # ACCEPT: the surviving copy of a multi-edge may carry the weight of any
    # of the copies.
    b = run_gr2gr(conv, ctx, ["-gr2cgr", "-edgeType=" + ty], n, edges, ty)
    dec = decode_gr(conv, ctx, b)
    if dec["esz"] != TYPES[ty][0]:
        fail(conv + ":edge-size", "%s: sizeofEdgeData=%d" % (ctx, dec["esz"]))
    if dec["n"] != n:
        fail(conv + ":node-count", "%s: output has %d nodes" % (ctx, dec["n"]))
    cand = {}
    for (s, d, w) in edges:
        if s != d:
            cand.setdefault((s, d), set()).add(pack_w(ty, w))
    got = Counter((s, d) for (s, d, _r) in dec["edges"])
    if got != Counter(cand.keys()):
        fail(conv + ":edges", "%s: output has edges %s, expected each of %s "
             "once" % (ctx, ms_str(Counter("%d>%d" % k for k in got.elements())),
                       sorted("%d>%d" % k for k in cand)))
    for (s, d, r) in dec["edges"]:
        if r not in cand[(s, d)]:
            fail(conv + ":weights", "%s: output edge %d>%d has weight %s, not "
                 "the weight of any input edge %d>%d"
                 % (ctx, s, d, unpack_w(ty, r), s, d))
    return h_of(b)


def same_per_node(conv, ctx, n, edges, ty, dec):
    if dec["esz"] != TYPES[ty][0]:
        fail(conv + ":edge-size", "%s: sizeofEdgeData=%d" % (ctx, dec["esz"]))
    if dec["n"] != n:
        fail(conv + ":node-count", "%s: output has %d nodes" % (ctx, dec["n"]))
    check_graph(conv, ctx, dec, ty, {n}, edges)


def t_sorteddst(conv, ctx, n, edges, ty, var):
    # "Sort outgoing edges of binary gr by edge destination"
    b = run_gr2gr(conv, ctx, ["-gr2sorteddstgr", "-edgeType=" + ty], n, edges,
                  ty)
    dec = decode_gr(conv, ctx, b)
    same_per_node(conv, ctx, n, edges, ty, dec)
    for u, l in enumerate(per_node(n, dec["edges"])):
        ds = [d for (d, _r) in l]
        if ds != sorted(ds):
            fail(conv + ":not-sorted", "%s: out-edges of node %d go to %s"
                 % (ctx, u, ds))
    return h_of(b)


def t_sortedweight(conv, ctx, n, edges, ty, var):
    # "Sort outgoing edges of binary gr by edge weight"
    b = run_gr2gr(conv, ctx, ["-gr2sortedweightgr", "-edgeType=" + ty], n,
                  edges, ty)
    dec = decode_gr(conv, ctx, b)
    same_per_node(conv, ctx, n, edges, ty, dec)
    for u, l in enumerate(per_node(n, dec["edges"])):
        ws = [unpack_w(ty, r) for (_d, r) in l]
        if ws != sorted(ws):
            fail(conv + ":not-sorted", "%s: out-edges of node %d have weights "
                 "%s" % (ctx, u, ws))
    return h_of(b)


def t_lowdegree(conv, ctx, n, edges, ty, k):
    # "Remove high degree nodes from binary gr", --maxDegree "maximum degree
    # to keep".  ACCEPT: "degree" = out-degree, in-degree or their sum; the
    # remaining nodes are renumbered in order.
    b = run_gr2gr(conv, ctx, ["-gr2lowdegreegr", "-edgeType=" + ty,
                              "-maxDegree=%d" % k], n, edges, ty)
    dec = decode_gr(conv, ctx, b)
    od, idg = out_deg(n, edges), in_deg(n, edges)
    first = None
    for deg in (od, idg, [a + c for a, c in zip(od, idg)]):
        keep = [u for u in range(n) if deg[u] <= k]
        ren = {u: i for i, u in enumerate(keep)}
        exp = [(ren[s], ren[d], w) for (s, d, w) in edges
               if s in ren and d in ren]
        try:
            check_graph(conv, ctx, dec, ty, {len(keep)}, exp)
            return h_of(b)
        except Fail as f:
            first = first or f
    raise first


def t_part(conv, ctx, n, edges, ty, var):
    # "Partition binary gr in N pieces by destination|source nodes"
    # (--numParts).  Output: <out>.<i>.of.<N>.  Checked: every piece is a graph
    # over the same nodes; the pieces' edges (with weights) together are
    # exactly the input's edges; all edges with the same destination|source
    # are in one piece.
    by, k = var
    opt = "-gr2partdstgr" if by == "dst" else "-gr2partsrcgr"
    inp, out = fresh(".gr"), fresh(".part")
    write_file(inp, encode_gr(n, edges, ty))
    parts = ["%s.%d.of.%d" % (out, i, k) for i in range(k)]
    try:
        tool(conv, ctx, [opt, "-edgeType=" + ty, "-numParts=%d" % k], inp, out)
        union = Counter()
        where = {}
        hh = 0
        for i, p in enumerate(parts):
            if not os.path.exists(p):
                fail(conv + ":no-output", "%s: piece %d was not written"
                     % (ctx, i))
            b = read_file(p)
            hh ^= h_of(b) + i
            dec = decode_gr(conv, ctx, b, "piece %d" % i)
            if dec["esz"] != TYPES[ty][0]:
                fail(conv + ":edge-size", "%s: piece %d sizeofEdgeData=%d"
                     % (ctx, i, dec["esz"]))
            if dec["n"] != n:
                fail(conv + ":node-count", "%s: piece %d has %d nodes"
                     % (ctx, i, dec["n"]))
            union.update(dec["edges"])
            for (s, d, _r) in dec["edges"]:
                kk = d if by == "dst" else s
                if where.setdefault(kk, i) != i:
                    fail(conv + ":not-a-partition", "%s: edges with %s node "
                         "%d are in pieces %d and %d"
                         % (ctx, "destination" if by == "dst" else "source",
                            kk, where[kk], i))
        exp = edges_ms(ty, edges)
        if union != exp:
            fail(conv + ":not-a-partition", "%s: the %d pieces together hold "
                 "%s, the input is %s" % (ctx, k, show(ty, union),
                                          show(ty, exp)))
    finally:
        rm(inp, out, *parts)
    return hh


def t_randomweight(conv, ctx, n, edges, ty, var):
    # "Add or Randomize edge weights"; --minValue "minimum weight to add for
    # random weight conversions", --maxValue "maximum weight to add ...".
    # Invariant checked: same nodes, same edges, every weight in [min,max],
    # edge data of the requested type.  (ty = type of the INPUT file.)
    oty, lo, hi = var
    b = run_gr2gr(conv, ctx, ["-gr2randomweightgr", "-edgeType=" + oty,
                              "-minValue=%d" % lo, "-maxValue=%d" % hi],
                  n, edges, ty)
    dec = decode_gr(conv, ctx, b)
    if dec["esz"] != TYPES[oty][0]:
        fail(conv + ":edge-size", "%s: sizeofEdgeData=%d, edge type %s has %d"
             % (ctx, dec["esz"], oty, TYPES[oty][0]))
    if dec["n"] != n:
        fail(conv + ":node-count", "%s: output has %d nodes" % (ctx, dec["n"]))
    got = Counter((s, d) for (s, d, _r) in dec["edges"])
    exp = Counter((s, d) for (s, d, _w) in edges)
    if got != exp:
        fail(conv + ":edges", "%s: output edges %s, input edges %s"
             % (ctx, ms_str(Counter("%d>%d" % k for k in got.elements())),
                ms_str(Counter("%d>%d" % k for k in exp.elements()))))
    for (s, d, r) in dec["edges"]:
        w = unpack_w(oty, r)
        if not (lo <= w <= hi):
            fail(conv + ":weight-out-of-range", "%s: edge %d>%d has weight %s"
                 " outside [%d,%d]" % (ctx, s, d, w, lo, hi))
    return len(dec["edges"]) * 31 + n  # weights are random: not in outcome


def permuted(edges, p):
    return [(p[s], p[d], w) for (s, d, w) in edges]


def find_perm(conv, ctx, dec, ty, n, edges, ok, what):
    """some permutation p (old id -> new id) with ok(p) and
    output == permute(input, p)"""
    if dec["esz"] != TYPES[ty][0]:
        fail(conv + ":edge-size", "%s: sizeofEdgeData=%d" % (ctx, dec["esz"]))
    if dec["n"] != n:
        fail(conv + ":node-count", "%s: output has %d nodes" % (ctx, dec["n"]))
    got = Counter(dec["edges"])
    iso = False
    for p in itertools.permutations(range(n)):
        if got == edges_ms(ty, permuted(edges, p)):
            iso = True
            if ok(p):
                return p
    if not iso:
        fail(conv + ":not-a-relabelling", "%s: output %s is not the input "
             "with its nodes renumbered" % (ctx, show(ty, got)))
    fail(conv + ":wrong-order", "%s: output %s is a renumbering of the input "
         "but not one that %s" % (ctx, show(ty, got), what))


def t_randgr(conv, ctx, n, edges, ty, var):
    # "Randomly permute nodes of binary gr"; --outputNodePermutation "output
    # node permutation file" (lines "<old id>,<new id>").  Checked: the output
    # is the input renumbered by exactly the permutation that was written.
    inp, out, pf = fresh(".gr"), fresh(".out.gr"), fresh(".perm")
    write_file(inp, encode_gr(n, edges, ty))
    try:
        tool(conv, ctx, ["-gr2randgr", "-edgeType=" + ty,
                         "-outputNodePermutation=" + pf], inp, out)
        b = read_file(out)
        dec = decode_gr(conv, ctx, b)
        txt = read_file(pf).decode()
        p = {}
        for line in txt.split("\n"):
            if line:
                a, c = line.split(",")
                p[int(a)] = int(c)
        if sorted(p.keys()) != list(range(n)) or \
                sorted(p.values()) != list(range(n)):
            fail(conv + ":permutation-file", "%s: permutation file %r is not "
                 "a permutation of 0..%d" % (ctx, txt, n - 1))
        check_graph(conv, ctx, dec, ty, {n}, permuted(edges, p))
    finally:
        rm(inp, out, pf)
    return n * 131 + len(edges)


def t_sorteddegree(conv, ctx, n, edges, ty, var):
    # "Sort nodes by degree".  ACCEPT: ascending or descending; out-degree,
    # in-degree or their sum; any order among equal degrees.
    b = run_gr2gr(conv, ctx, ["-gr2sorteddegreegr", "-edgeType=" + ty], n,
                  edges, ty)
    dec = decode_gr(conv, ctx, b)
    od, idg = out_deg(n, edges), in_deg(n, edges)
    degs = (od, idg, [a + c for a, c in zip(od, idg)])

    def ok(p):
        for deg in degs:
            seq = [None] * n
            for u in range(n):
                seq[p[u]] = deg[u]
            if seq == sorted(seq) or seq == sorted(seq, reverse=True):
                return True
        return False
    find_perm(conv, ctx, dec, ty, n, edges, ok, "orders the nodes by degree")
    return h_of(b)


def bfs_levels(n, edges, src):
    lev = {src: 0}
    cur = [src]
    while cur:
        nxt = []
        for u in cur:
            for (s, d, _w) in edges:
                if s == u and d not in lev:
                    lev[d] = lev[u] + 1
                    nxt.append(d)
        cur = nxt
    return lev


def t_sortedbfs(conv, ctx, n, edges, ty, src):
    # "Sort nodes by a BFS traversal from the source (greedy)", --sourceNode.
    # Checked: a renumbering in which the source is node 0, nodes nearer to
    # the source come first and unreachable nodes come last.
    if src >= n:
        return 0
    b = run_gr2gr(conv, ctx, ["-gr2sortedbfsgr", "-edgeType=" + ty,
                              "-sourceNode=%d" % src], n, edges, ty)
    dec = decode_gr(conv, ctx, b)
    lev = bfs_levels(n, edges, src)

    def ok(p):
        if p[src] != 0:
            return False
        for u in range(n):
            for v in range(n):
                lu, lv = lev.get(u, 10**9), lev.get(v, 10**9)
                if lu < lv and not p[u] < p[v]:
                    return False
        return True
    find_perm(conv, ctx, dec, ty, n, edges, ok,
              "follows a BFS from node %d" % src)
    return h_of(b)


def t_overlay(conv, ctx, n, edges, ty, kind):
    # gr2ringgr  "Convert binary gr to strongly connected graph by adding ring
    #             overlay"  (source: "Add edges (i, i-1) for all i in V")
    # gr2linegr  "Overlay line graph"            (the ring without its closing
    #             edge)
    # gr2treegr  "Overlay tree"  (source: "Add edges (i, i*2+1), (i, i*2+2)")
    # gr2streegr "... by adding symmetric tree overlay" (".. and their
    #             complement")
    # --maxValue "maximum weight to add for tree, line, ring ... conversions"
    # ACCEPT: ring/line in either direction; added weights anywhere in
    # [0, maxValue].
    mv = 77
    b = run_gr2gr(conv, ctx, ["-" + kind, "-edgeType=" + ty,
                              "-maxValue=%d" % mv], n, edges, ty)
    dec = decode_gr(conv, ctx, b)
    if dec["esz"] != TYPES[ty][0]:
        fail(conv + ":edge-size", "%s: sizeofEdgeData=%d" % (ctx, dec["esz"]))
    if dec["n"] != n:
        fail(conv + ":node-count", "%s: output has %d nodes" % (ctx, dec["n"]))
    got = Counter(dec["edges"])
    base = edges_ms(ty, edges)
    extra = got - base
    if base - got:
        fail(conv + ":edges", "%s: input edges missing from the output: %s"
             % (ctx, show(ty, base - got)))
    ex_pairs = Counter((s, d) for (s, d, _r) in extra.elements())
    if kind == "gr2ringgr":
        alts = [Counter((i, (i - 1) % n) for i in range(n)),
                Counter((i, (i + 1) % n) for i in range(n))]
    elif kind == "gr2linegr":
        alts = [Counter((i, i - 1) for i in range(1, n)),
                Counter((i - 1, i) for i in range(1, n))]
    else:
        t = Counter()
        for i in range(n):
            for c in (2 * i + 1, 2 * i + 2):
                if c < n:
                    t[(i, c)] += 1
                    if kind == "gr2streegr":
                        t[(c, i)] += 1
        alts = [t]
    if ex_pairs not in alts:
        fail(conv + ":edges", "%s: added edges %s, expected %s"
             % (ctx, ms_str(Counter("%d>%d" % k for k in ex_pairs.elements())),
                " or ".join(ms_str(Counter("%d>%d" % k for k in a.elements()))
                            for a in alts)))
    if ty != "void":
        for (s, d, r) in extra.elements():
            w = unpack_w(ty, r)
            if not (0 <= w <= mv):
                fail(conv + ":weights", "%s: added edge %d>%d has weight %s, "
                     "maxValue=%d" % (ctx, s, d, w, mv))
    return h_of(b)


def t_trigr(conv, ctx, n, edges, ty, var):
    # "Convert symmetric binary gr to triangular form by removing reverse
    #  edges" (source: "Removes edges such that src > dst").  Only for inputs
    # that ARE symmetric.  ACCEPT: either triangle.
    pairs = Counter((s, d) for (s, d, _w) in edges)
    if pairs != Counter((d, s) for (s, d, _w) in edges):
        return 0
    b = run_gr2gr(conv, ctx, ["-gr2trigr", "-edgeType=" + ty], n, edges, ty)
    dec = decode_gr(conv, ctx, b)
    try:
        check_graph(conv, ctx, dec, ty, {n},
                    [(s, d, w) for (s, d, w) in edges if s <= d])
    except Fail as f1:
        try:
            check_graph(conv, ctx, dec, ty, {n},
                        [(s, d, w) for (s, d, w) in edges if s >= d])
        except Fail:
            raise f1
    return h_of(b)


def t_biggr(conv, ctx, n, edges, ty, var):
    # "Convert binary gr with little-endian edge data to big-endian edge data"
    b = run_gr2gr(conv, ctx, ["-gr2biggr", "-edgeType=" + ty], n, edges, ty)
    dec = decode_gr(conv, ctx, b)
    if dec["esz"] != TYPES[ty][0] or dec["n"] != n:
        fail(conv + ":node-count", "%s: n=%d sizeofEdge=%d"
             % (ctx, dec["n"], dec["esz"]))
    got = Counter(dec["edges"])
    exp = Counter((s, d, pack_w(ty, w)[::-1]) for (s, d, w) in edges)
    if got != exp:
        fail(conv + ":weights", "%s: output (s,d,data bytes) %s, expected %s"
             % (ctx, ms_str(Counter("%d>%d:%s" % (s, d, r.hex())
                                    for (s, d, r) in got.elements())),
                ms_str(Counter("%d>%d:%s" % (s, d, r.hex())
                               for (s, d, r) in exp.elements()))))
    return h_of(b)


# ---------------------------------------------------------------------------
# gr -> text (and back)
# ---------------------------------------------------------------------------
def fmt_w(ty, w):
    return None if ty == "void" else w


def parse_num(ty, tok):
    return float(tok) if ty.startswith("float") else int(tok)


def run_gr2text(conv, ctx, args, n, edges, ty, ver=1, suffixes=("",)):
    inp, out = fresh(".gr"), fresh(".txt")
    write_file(inp, encode_gr(n, edges, ty, ver))
    outs = [out + s for s in suffixes]
    try:
        tool(conv, ctx, args, inp, out)
        res = []
        for o in outs:
            if not os.path.exists(o):
                fail(conv + ":no-output", "%s: %s not written"
                     % (ctx, os.path.basename(o)))
            res.append(read_file(o))
    finally:
        rm(inp, *outs)
    return res


def text_to_gr(conv, ctx, args, text, suffix=".txt"):
    inp, out = fresh(suffix), fresh(".back.gr")
    write_file(inp, text)
    try:
        tool(conv, ctx, args, inp, out)
        if not os.path.exists(out):
            fail(conv + ":no-output", "%s: no output file" % ctx)
        b = read_file(out)
    finally:
        rm(inp, out)
    return b


def expect_text_edges(conv, ctx, got, ty, edges, what):
    exp = Counter((s, d, fmt_w(ty, w)) for (s, d, w) in edges)
    if Counter(got) != exp:
        fail(conv + (":weights" if Counter((s, d) for (s, d, _w) in got) ==
                     Counter((s, d) for (s, d, _w) in exp.elements())
                     else ":edges"),
             "%s: %s lists %s, the graph is %s"
             % (ctx, what, sorted(got, key=repr),
                sorted(exp.elements(), key=repr)))


def t_edgelist(conv, ctx, n, edges, ty, var):
    # "Convert binary gr to edgelist" / "..., 1-indexed": one line
    # "src dst[ weight]" per edge.  Then back with -edgelist2gr: the node
    # count becomes (largest id)+1 -- trailing isolated nodes are not
    # representable in an edge list.
    one = var == "1ind"
    ver = 2 if var == "v2" else 1
    (txt,) = run_gr2text(conv, ctx, ["-gr2edgelist1ind" if one else
                                     "-gr2edgelist", "-edgeType=" + ty],
                         n, edges, ty, ver)
    got = []
    for line in txt.decode().split("\n"):
        if not line:
            continue
        t = line.split()
        if len(t) != (2 if ty == "void" else 3):
            fail(conv + ":text-format", "%s: line %r" % (ctx, line))
        got.append((int(t[0]) - one, int(t[1]) - one,
                    None if ty == "void" else parse_num(ty, t[2])))
    expect_text_edges(conv, ctx, got, ty, edges, "the edge list")
    if not one and var != "v2":
        b = text_to_gr(conv + "+edgelist2gr", ctx,
                       ["-edgelist2gr", "-edgeType=" + ty], txt)
        dec = decode_gr(conv + "+edgelist2gr", ctx, b)
        if edges:
            n_ok = {max(max(s, d) for (s, d, _w) in edges) + 1}
        else:
            n_ok = {0, 1}  # ACCEPT: an empty list is 0 nodes or 1 node
        check_graph(conv + "+edgelist2gr", ctx, dec, ty, n_ok, edges,
                    "the graph converted back")
    return h_of(txt)


def t_mtx(conv, ctx, n, edges, ty, var):
    # "Convert binary gr to matrix market format" and back ("Convert matrix
    # market format to binary gr"; source: "<num nodes> <num nodes> <num
    # edges>" then "<src> <dst> <float>", ids start at 1)
    (txt,) = run_gr2text(conv, ctx, ["-gr2mtx", "-edgeType=" + ty], n, edges,
                         ty)
    lines = [l for l in txt.decode().split("\n") if l and l[0] != "%"]
    if not lines or lines[0].split() != [str(n), str(n), str(len(edges))]:
        fail(conv + ":text-format", "%s: size line %r, expected '%d %d %d'"
             % (ctx, lines[:1], n, n, len(edges)))
    got = []
    for line in lines[1:]:
        t = line.split()
        if len(t) != 3:
            fail(conv + ":text-format", "%s: line %r" % (ctx, line))
        got.append((int(t[0]) - 1, int(t[1]) - 1, parse_num(ty, t[2])))
    expect_text_edges(conv, ctx, got, ty, edges, "the matrix")
    b = text_to_gr(conv + "+mtx2gr", ctx, ["-mtx2gr", "-edgeType=" + ty], txt)
    dec = decode_gr(conv + "+mtx2gr", ctx, b)
    check_graph(conv + "+mtx2gr", ctx, dec, ty, {n}, edges,
                "the graph converted back")
    return h_of(txt)


def t_dimacs(conv, ctx, n, edges, ty, var):
    # "Convert binary gr to dimacs" and back ("Convert dimacs to binary gr";
    # source: "p XXX* <num nodes> <num edges>", "a <src id> <dst id>
    # <weight>", 1-indexed)
    (txt,) = run_gr2text(conv, ctx, ["-gr2dimacs", "-edgeType=" + ty], n,
                         edges, ty)
    lines = [l for l in txt.decode().split("\n") if l and l[0] != "c"]
    if not lines or lines[0].split()[0] != "p" or \
            lines[0].split()[-2:] != [str(n), str(len(edges))]:
        fail(conv + ":text-format", "%s: problem line %r" % (ctx, lines[:1]))
    got = []
    for line in lines[1:]:
        t = line.split()
        if len(t) != 4 or t[0] != "a":
            fail(conv + ":text-format", "%s: line %r" % (ctx, line))
        got.append((int(t[1]) - 1, int(t[2]) - 1, parse_num(ty, t[3])))
    expect_text_edges(conv, ctx, got, ty, edges, "the dimacs file")
    b = text_to_gr(conv + "+dimacs2gr", ctx,
                   ["-dimacs2gr", "-edgeType=" + ty], txt)
    dec = decode_gr(conv + "+dimacs2gr", ctx, b)
    check_graph(conv + "+dimacs2gr", ctx, dec, ty, {n}, edges,
                "the graph converted back")
    return h_of(txt)


def t_adjlist(conv, ctx, n, edges, ty, var):
    # "Convert binary gr to adjacency list": a line "<src> <dst>*" per node
    (txt,) = run_gr2text(conv, ctx, ["-gr2adjacencylist", "-edgeType=" + ty],
                         n, edges, ty)
    lines = [l for l in txt.decode().split("\n") if l.strip()]
    got, srcs = [], []
    for line in lines:
        t = [int(x) for x in line.split()]
        srcs.append(t[0])
        got += [(t[0], d) for d in t[1:]]
    if sorted(srcs) != list(range(n)):
        fail(conv + ":node-count", "%s: lines for nodes %s, the graph has %d "
             "nodes" % (ctx, srcs, n))
    if Counter(got) != Counter((s, d) for (s, d, _w) in edges):
        fail(conv + ":edges", "%s: adjacency list %s" % (ctx, sorted(got)))
    return h_of(txt)


def t_pbbs(conv, ctx, n, edges, ty, var):
    # "Convert binary gr to pbbs graph" (source: "[Weighted]AdjacencyGraph
    # <num nodes> <num edges> <offset node 0> ... <edge 0> ... [<edge weight
    # 0> ...]") and, without weights, back with -pbbs2gr.
    (txt,) = run_gr2text(conv, ctx, ["-gr2pbbs", "-edgeType=" + ty], n, edges,
                         ty)
    t = txt.decode().split()
    head = "AdjacencyGraph" if ty == "void" else "WeightedAdjacencyGraph"
    m = len(edges)
    if n == 0 and len(t) == 4 and t[3] == "0":
        t = t[:3]  # ACCEPT: the leading offset 0 written for a graph of 0 nodes
    want = 3 + n + m + (0 if ty == "void" else m)
    if not t or t[0] != head or len(t) != want or t[1:3] != [str(n), str(m)]:
        fail(conv + ":text-format", "%s: tokens %s (expected %s %d %d and %d "
             "tokens in all)" % (ctx, t[:12], head, n, m, want))
    offs = [int(x) for x in t[3:3 + n]] + [m]
    dsts = [int(x) for x in t[3 + n:3 + n + m]]
    ws = [parse_num(ty, x) for x in t[3 + n + m:]] if ty != "void" else \
        [None] * m
    got = []
    if offs != sorted(offs) or (n and offs[0] != 0):
        fail(conv + ":text-format", "%s: offsets %s" % (ctx, offs[:-1]))
    for u in range(n):
        for p in range(offs[u], offs[u + 1]):
            got.append((u, dsts[p], ws[p]))
    expect_text_edges(conv, ctx, got, ty, edges, "the pbbs graph")
    if ty == "void":
        b = text_to_gr(conv + "+pbbs2gr", ctx, ["-pbbs2gr"], txt)
        dec = decode_gr(conv + "+pbbs2gr", ctx, b)
        check_graph(conv + "+pbbs2gr", ctx, dec, ty, {n}, edges,
                    "the graph converted back")
    return h_of(txt)


def t_pbbsedges(conv, ctx, n, edges, ty, var):
    # "Convert binary gr to pbbs edge list": "WeightedEdgeArray" then
    # "<src> <dst> <weight>" lines
    (txt,) = run_gr2text(conv, ctx, ["-gr2pbbsedges", "-edgeType=" + ty], n,
                         edges, ty)
    lines = [l for l in txt.decode().split("\n") if l]
    if not lines or lines[0] != "WeightedEdgeArray":
        fail(conv + ":text-format", "%s: first line %r" % (ctx, lines[:1]))
    got = []
    for line in lines[1:]:
        t = line.split()
        got.append((int(t[0]), int(t[1]), parse_num(ty, t[2])))
    expect_text_edges(conv, ctx, got, ty, edges, "the edge array")
    return h_of(txt)


def t_rmat(conv, ctx, n, edges, ty, var):
    # "Convert binary gr to RMAT graph" (source: three %%% comment lines,
    # "<num nodes> <num edges>", then per node "<node id> <num edges>
    # [<neighbor id> <neighbor weight>]*", zero indexed)
    (txt,) = run_gr2text(conv, ctx, ["-gr2rmat", "-edgeType=" + ty], n, edges,
                         ty)
    lines = [l for l in txt.decode().split("\n") if l and l[0] != "%"]
    if not lines or lines[0].split() != [str(n), str(len(edges))]:
        fail(conv + ":text-format", "%s: size line %r" % (ctx, lines[:1]))
    got, srcs = [], []
    for line in lines[1:]:
        t = line.split()
        u, k = int(t[0]), int(t[1])
        srcs.append(u)
        if len(t) != 2 + 2 * k:
            fail(conv + ":text-format", "%s: line %r" % (ctx, line))
        for i in range(k):
            got.append((u, int(t[2 + 2 * i]), int(t[3 + 2 * i])))
    if sorted(srcs) != list(range(n)):
        fail(conv + ":node-count", "%s: node lines %s" % (ctx, srcs))
    expect_text_edges(conv, ctx, got, ty, edges, "the rmat file")
    return h_of(txt)


def t_binpbbs(conv, ctx, n, edges, ty, bits):
    # "Convert binary gr to unweighted binary pbbs graph" (source: "<base>
    # .config - ASCII file with number of vertices, <base>.adj - Binary
    # adjacencies, <base>.idx - Binary offsets for adjacencies"); 32 / 64 bit
    # offsets, 32 bit node ids.
    cfg, idx, adj = run_gr2text(conv, ctx, ["-gr2binarypbbs%d" % bits], n,
                                edges, ty, 1, (".config", ".idx", ".adj"))
    if cfg.decode().split() != [str(n)]:
        fail(conv + ":node-count", "%s: .config holds %r" % (ctx, cfg))
    ow = bits // 8
    m = len(edges)
    if n == 0 and idx == b"\0" * ow:
        idx = b""  # ACCEPT: the leading offset 0 written for 0 nodes
    if len(idx) != ow * n or len(adj) != 4 * m:
        fail(conv + ":file-size", "%s: .idx has %d bytes (expected %d), .adj "
             "%d (expected %d)" % (ctx, len(idx), ow * n, len(adj), 4 * m))
    offs = [int.from_bytes(idx[ow * i:ow * i + ow], "little")
            for i in range(n)] + [m]
    dsts = [int.from_bytes(adj[4 * i:4 * i + 4], "little") for i in range(m)]
    if offs != sorted(offs) or (n and offs[0] != 0):
        fail(conv + ":edges", "%s: offsets %s" % (ctx, offs[:-1]))
    got = []
    for u in range(n):
        got += [(u, dsts[p], None) for p in range(offs[u], offs[u + 1])]
    expect_text_edges(conv, ctx, got, ty, edges, "the binary pbbs graph")
    return h_of(idx + adj)


def t_metis(conv, ctx, n, edges, ty, var):
    # "Convert binary gr to METIS graph (unweighted)"; source: "METIS format
    # (1-indexed) ... <num nodes> <num edges> ... [<destination>]* per node ...
    # Input graph must be symmetric. Does not write self-edges."  Only for
    # symmetric inputs; an undirected edge is counted once in the header.
    pairs = Counter((s, d) for (s, d, _w) in edges)
    if pairs != Counter((d, s) for (s, d, _w) in edges):
        return 0
    (txt,) = run_gr2text(conv, ctx, ["-gr2metis"], n, edges, ty)
    lines = txt.decode().split("\n")
    if lines and lines[-1] == "":
        lines.pop()
    lines = [l for l in lines if not l.startswith("%")]
    nl = [(s, d) for (s, d, _w) in edges if s != d]
    if not lines or lines[0].split() != [str(n), str(len(nl) // 2)]:
        fail(conv + ":text-format", "%s: size line %r, expected '%d %d'"
             % (ctx, lines[:1], n, len(nl) // 2))
    if len(lines) != 1 + n:
        fail(conv + ":node-count", "%s: %d node lines for %d nodes"
             % (ctx, len(lines) - 1, n))
    got = []
    for u, line in enumerate(lines[1:]):
        got += [(u, int(t) - 1) for t in line.split()]
    if Counter(got) != Counter(nl):
        fail(conv + ":edges", "%s: metis adjacency %s, expected %s"
             % (ctx, sorted(got), sorted(nl)))
    return h_of(txt)


def t_nodelist2gr(conv, ctx, n, edges, ty, var):
    # "Convert node list to binary gr"; source: "List of node adjacencies:
    # <node id> <num neighbors> <neighbor id>*".  The text lists every node of
    # the enumerated graph (also those without neighbours).
    adj = [[] for _ in range(n)]
    for (s, d, _w) in edges:
        adj[s].append(d)
    text = "".join("%d %d%s\n" % (u, len(a), "".join(" %d" % d for d in a))
                   for u, a in enumerate(adj)).encode()
    ctx = ctx + " input %r" % text.decode()
    b = text_to_gr(conv, ctx, ["-nodelist2gr"], text)
    dec = decode_gr(conv, ctx, b)
    check_graph(conv, ctx, dec, ty, {n}, edges)
    return h_of(b)


def t_edgelist2binary(conv, ctx, n, edges, ty, var):
    # "Convert edge list to binary edgelist format (assumes vertices of type
    # uin32_t)": the (src,dst) pairs as little-endian uint32, in input order.
    text = "".join("%d %d\n" % (s, d) for (s, d, _w) in edges).encode()
    inp, out = fresh(".el"), fresh(".bin")
    write_file(inp, text)
    try:
        tool(conv, ctx, ["-edgelist2binary"], inp, out)
        b = read_file(out) if os.path.exists(out) else None
    finally:
        rm(inp, out)
    if b is None:
        fail(conv + ":no-output", "%s: no output file" % ctx)
    exp = b"".join(struct.pack("<II", s, d) for (s, d, _w) in edges)
    if b != exp:
        fail(conv + ":edges", "%s: output bytes %s, expected %s"
             % (ctx, b.hex(), exp.hex()))
    return h_of(b)


def t_sortedparentdegree(conv, ctx, n, edges, ty, var):
    # "Sort nodes by degree of parent".  Checked: the output is the input with
    # its nodes renumbered (ACCEPT: any order -- the option text does not
    # define one precisely enough to check).
    b = run_gr2gr(conv, ctx, ["-gr2sortedparentdegreegr", "-edgeType=" + ty],
                  n, edges, ty)
    dec = decode_gr(conv, ctx, b)
    find_perm(conv, ctx, dec, ty, n, edges, lambda p: True, "")
    return h_of(b)


# ---------------------------------------------------------------------------
# text -> gr
# ---------------------------------------------------------------------------
def weight_tok(ty, w):
    """token written in the text for weight w of type ty"""
    if ty.startswith("float"):
        return "%s.5" % w  # x.5 is exact in binary
    return str(w)


def weight_val(ty, w):
    return w + 0.5 if ty.startswith("float") else w


# line symbols for edge lists / csv; per symbol: (src, dst, weight|None) or
# None for a non-edge line; "dup" repeats the previous line verbatim
EL_SYMS = ["edge", "wedge", "comment", "blank", "crlf", "gap", "dup", "loop"]


def el_lines(ty, sep, syms):
    """-> [(text of the line incl. terminator-less content, parsed)] where
    parsed = None | (s, d, w|None, has_cr)"""
    typed = ty != "void"
    out = []
    for sy in syms:
        if sy == "edge":
            out.append(("0" + sep + "1", (0, 1, None)))
        elif sy == "wedge":
            out.append(("0" + sep + "1" + sep + weight_tok(ty if typed else
                                                            "int32", 5),
                        (0, 1, 5)))
        elif sy == "comment":
            out.append(("# c", None))
        elif sy == "blank":
            out.append(("", None))
        elif sy == "crlf":
            if typed:
                out.append(("1" + sep + "0" + sep + weight_tok(ty, 7) + "\r",
                            (1, 0, 7)))
            else:
                out.append(("1" + sep + "0\r", (1, 0, None)))
        elif sy == "gap":
            if typed:
                out.append(("0" + sep + "3" + sep + weight_tok(ty, 2),
                            (0, 3, 2)))
            else:
                out.append(("0" + sep + "3", (0, 3, None)))
        elif sy == "loop":
            if typed:
                out.append(("1" + sep + "1" + sep + weight_tok(ty, 9),
                            (1, 1, 9)))
            else:
                out.append(("1" + sep + "1", (1, 1, None)))
        elif sy == "spaces":  # csv: "optional whitespace" around the delimiter
            if typed:
                out.append(("2 , 0 , " + weight_tok(ty, 4), (2, 0, 4)))
            else:
                out.append(("2 ,   0", (2, 0, None)))
        elif sy == "labels":
            out.append(("src,dst,w" if typed else "src,dst", None))
        elif sy == "dup":
            out.append(out[-1] if out else ("0" + sep + "1", (0, 1, None)))
        else:
            raise ValueError(sy)
    return out


def el_reference(ty, parsed):
    """All acceptable readings of a list of parsed lines.  Returns
    [(n_ok set, edges)].
    Documented: 'src dst [weight]' per line (convertEdgelist), blank and
    comment lines are ignored (test-inputs), node count = largest id + 1.
    ACCEPT (nothing documented):
      typed conversion, line without a weight: the line is ignored, or the
        edge gets weight 0, or weight 1;
      void conversion, line with a weight column: the column is ignored or
        the line is ignored;
      no edge at all: 0 nodes or 1 node."""
    typed = ty != "void"
    alts = []
    if typed:
        policies = ["skip", 0, 1]
    else:
        policies = ["take", "skip"]
    for pol in policies:
        edges = []
        for p in parsed:
            if p is None:
                continue
            s, d, w = p
            if typed:
                if w is None:
                    if pol == "skip":
                        continue
                    edges.append((s, d, pol))
                else:
                    edges.append((s, d, weight_val(ty, w)))
            else:
                if w is not None and pol == "skip":
                    continue
                edges.append((s, d, None))
        if edges:
            n_ok = {max(max(s, d) for (s, d, _w) in edges) + 1}
        else:
            n_ok = {0, 1}
        if (n_ok, edges) not in alts:
            alts.append((n_ok, edges))
    return alts


def check_alts(conv, ctx, dec, ty, alts):
    first = None
    for (n_ok, edges) in alts:
        try:
            check_graph(conv, ctx, dec, ty, n_ok, edges)
            return
        except Fail as f:
            first = first or f
    raise first


def seqs(alpha_len, maxlen):
    """all sequences over range(alpha_len) of length <= maxlen, shortest
    first"""
    res = []
    for k in range(maxlen + 1):
        res += list(itertools.product(range(alpha_len), repeat=k))
    return res


_scache = {}


def seqs_cached(a, k):
    if (a, k) not in _scache:
        _scache[(a, k)] = seqs(a, k)
    return _scache[(a, k)]


def text_repr(b):
    return repr(b.decode())


def t_edgelist2gr(conv, ty, syms, final_nl):
    lines = el_lines(ty, " ", syms)
    text = "\n".join(l for (l, _p) in lines)
    if lines and final_nl:
        text += "\n"
    text = text.encode()
    ctx = "edgeType=%s input %s" % (ty, text_repr(text))
    b = text_to_gr(conv, ctx, ["-edgelist2gr", "-edgeType=" + ty], text)
    dec = decode_gr(conv, ctx, b)
    check_alts(conv, ctx, dec, ty, el_reference(ty, [p for (_l, p) in lines]))
    return h_of(b), ctx


CSV_SYMS = ["labels", "edge", "wedge", "comment", "blank", "crlf", "gap",
            "dup", "loop", "spaces"]


def t_csv2gr(conv, ty, syms):
    # "Convert csv to binary gr"; source: "Assumption: First line has labels.
    # Just a bunch of pairs or triples: src dst weight?"; "each entry is
    # separated by delim surrounded by optional whitespace"; the tool warns
    # "first line is assumed to contain labels and will be ignored".
    lines = el_lines(ty, ",", syms)
    text = "".join(l + "\n" for (l, _p) in lines).encode()
    ctx = "edgeType=%s input %s" % (ty, text_repr(text))
    b = text_to_gr(conv, ctx, ["-csv2gr", "-edgeType=" + ty], text, ".csv")
    dec = decode_gr(conv, ctx, b)
    check_alts(conv, ctx, dec, ty,
               el_reference(ty, [p for (_l, p) in lines[1:]]))
    return h_of(b), ctx


DM_SYMS = ["arc", "comment", "blank", "crlf", "gap", "dup", "loop", "extra"]


def t_dimacs2gr(conv, ty, syms, lead_comment):
    # "Convert dimacs to binary gr"; source: "c Some file / c Comments /
    # p XXX* <num nodes> <num edges> / a <src id> <dst id> <weight>",
    # 1-indexed.  The problem line is generated to match the arcs.
    # ACCEPT: comment / blank lines AFTER the problem line are not shown in
    # the documented example: reading the graph correctly or refusing loudly
    # (non-zero exit) are both accepted -- a wrong graph or a hang is not.
    body = []
    for sy in syms:
        if sy == "arc":
            body.append(("a 1 2 5", (0, 1, 5)))
        elif sy == "comment":
            body.append(("c x", None))
        elif sy == "blank":
            body.append(("", None))
        elif sy == "crlf":
            body.append(("a 2 1 7\r", (1, 0, 7)))
        elif sy == "gap":
            body.append(("a 1 4 2", (0, 3, 2)))
        elif sy == "loop":
            body.append(("a 2 2 9", (1, 1, 9)))
        elif sy == "extra":
            body.append(("a 3 1 6 8", (2, 0, 6)))
        elif sy == "dup":
            body.append(body[-1] if body else ("a 1 2 5", (0, 1, 5)))
    edges = [p for (_l, p) in body if p is not None]
    n = max([2] + [max(s, d) + 1 for (s, d, _w) in edges])
    head = (["c Some file"] if lead_comment else []) + \
        ["p sp %d %d" % (n, len(edges))]
    text = "".join(l + "\n" for l in head + [l for (l, _p) in body]).encode()
    ctx = "edgeType=%s input %s" % (ty, text_repr(text))
    inp, out = fresh(".dimacs"), fresh(".back.gr")
    write_file(inp, text)
    try:
        rc, msg = tool(conv, ctx, ["-dimacs2gr", "-edgeType=" + ty], inp, out,
                       must_succeed=False)
        noise = any(p is None for (_l, p) in body)
        if rc != 0:
            if noise:
                return 1, ctx  # accepted: loud refusal
            fail(conv + ":tool-failed", "%s: exit %d: %s"
                 % (ctx, rc, " / ".join(msg.strip().splitlines()[-2:])[:300]))
        b = read_file(out)
    finally:
        rm(inp, out)
    dec = decode_gr(conv, ctx, b)
    check_graph(conv, ctx, dec, ty, {n}, edges)
    return h_of(b), ctx


# ---------------------------------------------------------------------------
# case table
# ---------------------------------------------------------------------------
class Case:
    def __init__(self, name, count, run, describe):
        self.name, self.count, self.run, self.describe = \
            name, count, run, describe


def graph_case(name, fn, ty, variants=(None,), qb=(3, 3), tb=(3, 4),
               vname=str, key=None):
    """fn(conv, ctx, n, edges, ty, variant) on every enumerated graph x
    variant"""
    typed = ty != "void"

    def bound(th):
        return tb if th else qb

    def count(th):
        return len(graphs(bound(th)[0], bound(th)[1], typed)) * len(variants)

    def split(idx, th):
        gs = graphs(bound(th)[0], bound(th)[1], typed)
        n, edges = gs[idx // len(variants)]
        return n, edges, variants[idx % len(variants)]

    def describe(idx, th):
        n, edges, var = split(idx, th)
        return gstr(n, edges) + " edgeType=" + ty + \
            ("" if var is None else " " + vname(var))

    key = key or name.split(" ")[0]  # violation keys: "<option>:<symptom>"

    def run(idx, th):
        n, edges, var = split(idx, th)
        out = fn(key, describe(idx, th), n, edges, ty, var)
        return nontrivial_graph(n, edges), out

    return Case(name, count, run, describe)


def build_cases():
    cs = []
    # ---- text -> gr ------------------------------------------------------
    for ty in ["void", "int32", "float32", "int64", "uint32", "uint64",
               "float64"]:
        main = ty in ("void", "int32")
        main_th = ty in ("void", "int32", "float32")

        def mk(ty=ty, main=main, main_th=main_th):
            name = "edgelist2gr edgeType=" + ty

            def maxlen(th):
                return (4 if main_th else 3) if th else (3 if main else 2)

            def count(th):
                return 2 * len(seqs_cached(len(EL_SYMS), maxlen(th))) - 1

            def split(idx, th):
                # idx 0: empty text; then (sequence, final newline?) pairs
                if idx == 0:
                    return (), True
                sq = seqs_cached(len(EL_SYMS), maxlen(th))
                return sq[1 + (idx - 1) // 2], (idx - 1) % 2 == 0

            def describe(idx, th):
                sy, nl = split(idx, th)
                lines = el_lines(ty, " ", [EL_SYMS[i] for i in sy])
                t = "\n".join(l for (l, _p) in lines) + \
                    ("\n" if nl and lines else "")
                return "%r edgeType=%s" % (t, ty)

            def run(idx, th):
                sy, nl = split(idx, th)
                h, _ctx = t_edgelist2gr("edgelist2gr", ty,
                                        [EL_SYMS[i] for i in sy], nl)
                return len(sy) >= 2, h
            return Case(name, count, run, describe)
        cs.append(mk())
    for ty in ["void", "int32", "float64"]:
        def mk(ty=ty):
            name = "csv2gr edgeType=" + ty

            def maxlen(th):
                return (4 if ty != "float64" else 3) if th else \
                    (3 if ty != "float64" else 2)

            def count(th):
                return len(seqs_cached(len(CSV_SYMS), maxlen(th)))

            def syms(idx, th):
                return [CSV_SYMS[i] for i in
                        seqs_cached(len(CSV_SYMS), maxlen(th))[idx]]

            def describe(idx, th):
                lines = el_lines(ty, ",", syms(idx, th))
                return "%r edgeType=%s" % ("".join(l + "\n" for (l, _p) in
                                                   lines), ty)

            def run(idx, th):
                sy = syms(idx, th)
                h, _ctx = t_csv2gr("csv2gr", ty, sy)
                return len(sy) >= 3, h
            return Case(name, count, run, describe)
        cs.append(mk())
    for ty in ["int32", "uint32", "int64", "float32"]:
        def mk(ty=ty):
            name = "dimacs2gr edgeType=" + ty
            main = ty == "int32"

            def maxlen(th):
                return (4 if main else 3) if th else (3 if main else 2)

            def count(th):
                return 2 * len(seqs_cached(len(DM_SYMS), maxlen(th)))

            def split(idx, th):
                sq = seqs_cached(len(DM_SYMS), maxlen(th))
                return [DM_SYMS[i] for i in sq[idx // 2]], idx % 2 == 1

            def describe(idx, th):
                sy, lead = split(idx, th)
                return "%s arcs/lines=%s edgeType=%s" % (
                    "leading comment," if lead else "", sy, ty)

            def run(idx, th):
                sy, lead = split(idx, th)
                h, _ctx = t_dimacs2gr("dimacs2gr", ty, sy, lead)
                return len(sy) >= 2, h
            return Case(name, count, run, describe)
        cs.append(mk())
    # ---- gr -> gr, main set: every graph of the tier's bound --------------
    Q2 = (3, 2)

    def TB(ty):  # thorough bound of the secondary conversions
        return (3, 4) if ty == "void" else (3, 3)
    for ty in ["void", "int32"]:
        T = " edgeType=" + ty
        cs.append(graph_case("gr2tgr" + T, t_tgr, ty))
        cs.append(graph_case("gr2sgr" + T, t_sgr, ty))
        cs.append(graph_case("gr2cgr" + T, t_cgr, ty))
        cs.append(graph_case("gr2sorteddstgr" + T, t_sorteddst, ty))
        cs.append(graph_case("gr2lowdegreegr" + T + " maxDegree=1",
                             t_lowdegree, ty, (1,),
                             qb=(3, 3) if ty == "void" else Q2, tb=TB(ty),
                             vname=lambda k: "maxDegree=%d" % k))
        cs.append(graph_case("gr2partdstgr" + T + " numParts=2", t_part, ty,
                             (("dst", 2),),
                             vname=lambda v: "numParts=%d" % v[1]))
        cs.append(graph_case("gr2partsrcgr" + T + " numParts=2", t_part, ty,
                             (("src", 2),),
                             qb=(3, 3) if ty == "void" else Q2, tb=TB(ty),
                             vname=lambda v: "numParts=%d" % v[1]))
        if ty == "void":
            cs.append(graph_case("gr2lowdegreegr" + T + " maxDegree=0/2",
                                 t_lowdegree, ty, (0, 2), qb=Q2,
                                 vname=lambda k: "maxDegree=%d" % k))
            cs.append(graph_case("gr2partdstgr" + T + " numParts=1/3", t_part,
                                 ty, (("dst", 1), ("dst", 3)), qb=Q2,
                                 vname=lambda v: "numParts=%d" % v[1]))
            cs.append(graph_case("gr2partsrcgr" + T + " numParts=1/3", t_part,
                                 ty, (("src", 1), ("src", 3)), qb=Q2,
                                 vname=lambda v: "numParts=%d" % v[1]))
        cs.append(graph_case("gr2edgelist" + T, t_edgelist, ty))
    cs.append(graph_case("gr2sortedweightgr edgeType=int32", t_sortedweight,
                         "int32"))
    cs.append(graph_case("gr2randomweightgr (input edgeType=void) "
                         "-edgeType=int32", t_randomweight, "void",
                         (("int32", 3, 9),),
                         vname=lambda v: "-edgeType=%s -minValue=%d "
                         "-maxValue=%d" % v))
    cs.append(graph_case("gr2randomweightgr (input edgeType=void) "
                         "-edgeType=float32/int64", t_randomweight, "void",
                         (("float32", 2, 4), ("int64", -5, -2)), qb=Q2,
                         vname=lambda v: "-edgeType=%s -minValue=%d "
                         "-maxValue=%d" % v))
    cs.append(graph_case("gr2randomweightgr (input edgeType=int32)",
                         t_randomweight, "int32", (("int32", 3, 9),), qb=Q2,
                         tb=(3, 3),
                         vname=lambda v: "-edgeType=%s -minValue=%d "
                         "-maxValue=%d" % v))
    cs.append(graph_case("gr2mtx edgeType=int32", t_mtx, "int32", qb=Q2,
                         tb=(3, 3)))
    cs.append(graph_case("gr2dimacs edgeType=int32", t_dimacs, "int32",
                         qb=Q2, tb=(3, 3)))
    # ---- secondary set: smaller bound in the quick tier -------------------
    for ty in ["void", "int32"]:
        T = " edgeType=" + ty
        cs.append(graph_case("gr2randgr" + T, t_randgr, ty, qb=Q2,
                             tb=TB(ty)))
        cs.append(graph_case("gr2sorteddegreegr" + T, t_sorteddegree, ty,
                             qb=Q2, tb=TB(ty)))
        cs.append(graph_case("gr2sortedbfsgr" + T, t_sortedbfs, ty,
                             (0, 1, 2) if ty == "void" else (1,), qb=Q2,
                             tb=TB(ty),
                             vname=lambda s: "sourceNode=%d" % s))
        for kind in ["gr2ringgr", "gr2linegr", "gr2treegr", "gr2streegr"]:
            cs.append(graph_case(kind + T, lambda c, x, n, e, t, v, k=kind:
                                 t_overlay(c, x, n, e, t, k), ty, qb=Q2,
                                 tb=TB(ty)))
        cs.append(graph_case("gr2edgelist1ind" + T, t_edgelist, ty,
                             ("1ind",), qb=Q2, tb=TB(ty)))
        cs.append(graph_case("gr2pbbs" + T, t_pbbs, ty, qb=Q2, tb=TB(ty)))
    cs.append(graph_case("gr2trigr edgeType=void", t_trigr, "void"))
    cs.append(graph_case("gr2metis", t_metis, "void"))
    cs.append(graph_case("nodelist2gr", t_nodelist2gr, "void", qb=Q2))
    cs.append(graph_case("edgelist2binary", t_edgelist2binary, "void", qb=Q2))
    for ty in ["void", "int32"]:
        cs.append(graph_case("gr2sortedparentdegreegr edgeType=" + ty,
                             t_sortedparentdegree, ty, qb=Q2, tb=TB(ty)))
    cs.append(graph_case("gr2adjacencylist edgeType=void", t_adjlist, "void",
                         qb=Q2))
    cs.append(graph_case("gr2binarypbbs32", t_binpbbs, "void", (32,), qb=Q2))
    cs.append(graph_case("gr2binarypbbs64", t_binpbbs, "void", (64,), qb=Q2))
    cs.append(graph_case("gr2biggr edgeType=int32", t_biggr, "int32", qb=Q2,
                         tb=(3, 3)))
    cs.append(graph_case("gr2pbbsedges edgeType=int32", t_pbbsedges, "int32",
                         qb=Q2, tb=(3, 3)))
    cs.append(graph_case("gr2rmat edgeType=int32", t_rmat, "int32", qb=Q2,
                         tb=(3, 3)))
    for ty in ["float32", "int64", "uint64", "float64"]:
        cs.append(graph_case("gr2tgr edgeType=" + ty, t_tgr, ty, qb=Q2,
                             tb=(3, 3)))
        cs.append(graph_case("gr2edgelist edgeType=" + ty, t_edgelist, ty,
                             qb=Q2, tb=(3, 3)))
    # version 2 input files (64-bit destinations)
    for ty in ["void", "int32"]:
        cs.append(graph_case("gr2edgelist (version 2 input) edgeType=" + ty,
                             t_edgelist, ty, ("v2",), qb=Q2, tb=(3, 3),
                             key="gr2edgelist(version-2-input)"))
    # ---- the graph without nodes, through every gr -> * conversion ---------
    EMPTY = [
        ("gr2tgr", t_tgr, None), ("gr2sgr", t_sgr, None),
        ("gr2cgr", t_cgr, None), ("gr2sorteddstgr", t_sorteddst, None),
        ("gr2lowdegreegr", t_lowdegree, 1),
        ("gr2partdstgr", t_part, ("dst", 2)),
        ("gr2partsrcgr", t_part, ("src", 2)),
        ("gr2edgelist", t_edgelist, None), ("gr2randgr", t_randgr, None),
        ("gr2sorteddegreegr", t_sorteddegree, None),
        ("gr2ringgr", lambda c, x, n, e, t, v: t_overlay(c, x, n, e, t,
                                                         "gr2ringgr"), None),
        ("gr2linegr", lambda c, x, n, e, t, v: t_overlay(c, x, n, e, t,
                                                         "gr2linegr"), None),
        ("gr2treegr", lambda c, x, n, e, t, v: t_overlay(c, x, n, e, t,
                                                         "gr2treegr"), None),
        ("gr2streegr", lambda c, x, n, e, t, v: t_overlay(c, x, n, e, t,
                                                          "gr2streegr"), None),
        ("gr2trigr", t_trigr, None), ("gr2pbbs", t_pbbs, None),
        ("gr2adjacencylist", t_adjlist, None),
    ]
    for ty in ["void", "int32"]:
        def mk(ty=ty):
            name = "graph without nodes (n=0) through every conversion " \
                "edgeType=" + ty
            convs = list(EMPTY)
            if ty == "int32":
                convs += [("gr2sortedweightgr", t_sortedweight, None),
                          ("gr2mtx", t_mtx, None),
                          ("gr2dimacs", t_dimacs, None),
                          ("gr2biggr", t_biggr, None),
                          ("gr2randomweightgr", t_randomweight,
                           ("int32", 3, 9))]
                convs = [c for c in convs if c[0] != "gr2adjacencylist"]
            else:
                convs += [("gr2binarypbbs32", t_binpbbs, 32),
                          ("gr2binarypbbs64", t_binpbbs, 64)]

            def describe(idx, th):
                return "n=0 %s edgeType=%s" % (convs[idx][0], ty)

            def run(idx, th):
                k, fn, var = convs[idx]
                try:
                    fn(k, describe(idx, th), 0, [], ty, var)
                except Fail as f:  # one key per conversion for this input
                    sym = f.key.rsplit(":", 1)[1]
                    fail(k + "(n=0):" + (sym if sym in ("tool-failed", "hang")
                                         else "malformed-output"), f.msg)
                return False, idx
            return Case(name, lambda th: len(convs), run, describe)
        cs.append(mk())
    return cs


# ---------------------------------------------------------------------------
# driver
# ---------------------------------------------------------------------------
CASES = None


def _worker_init(exe, root):
    global CASES
    Ctx.exe = exe
    Ctx.dir = os.path.join(root, "w%d" % os.getpid())
    os.makedirs(Ctx.dir, exist_ok=True)
    if CASES is None:
        CASES = build_cases()
    random.seed(os.getpid())


def _worker_chunk(task):
    ci, lo, hi, th = task
    c = CASES[ci]
    res = []
    for idx in range(lo, hi):
        try:
            nt, out = c.run(idx, th)
            res.append((idx, None, None, bool(nt), int(out) & (2**63 - 1)))
        except Fail as f:
            res.append((idx, f.key, f.msg, False, 0))
        except Exception as e:  # harness bug: surface it, never hide it
            import traceback
            res.append((idx, "HARNESS-ERROR", "%r %s" % (
                e, traceback.format_exc()[-600:]), False, 0))
    return ci, res


def run_all(opt):
    global CASES
    exe = tool_build()  # cached; a cold build (~2 min) is not charged to
    t00 = time.time()   # the exploration deadline
    CASES = build_cases()
    th = opt.tier == "thorough"
    sel = [i for i, c in enumerate(CASES) if opt.case in c.name]
    root = os.path.join(SCRATCH_ROOT, "run-%d" % os.getpid())
    os.makedirs(root, exist_ok=True)
    jobs = opt.jobs
    print("# c12_convert property=%s tier=%s jobs=%d tool=%s"
          % (PROPERTY, opt.tier, jobs, exe), flush=True)
    results = []
    harness_error = False
    pool = mp.get_context("fork").Pool(jobs, _worker_init, (exe, root))
    try:
        total_all = sum(CASES[i].count(th) for i in sel)
        done_all = 0
        for ci in sel:
            c = CASES[ci]
            t0 = time.time()
            total = c.count(th)
            # a case may use whatever is left of the deadline
            budget = max(0.5, opt.deadline - (time.time() - t00))
            chunk = max(1, min(32, total // (jobs * 4) or 1))
            tasks = [(ci, lo, min(total, lo + chunk), th)
                     for lo in range(0, total, chunk)]
            R = dict(name=c.name, kind="input-enumeration", exhaustive=False,
                     executions=0, states=0, transitions=0,
                     distinct_nontrivial=0, distinct_outcomes=0,
                     depth_requested=0, depth_completed=-1, space=total,
                     deadline_hit=False, wall_s=0.0, alphabet="",
                     violations=[], samples=[])
            viol = {}
            outcomes = set()
            it = pool.imap_unordered(_worker_chunk, tasks)
            try:
                while True:
                    try:
                        _ci, res = it.next(
                            timeout=max(0.5, budget - (time.time() - t0)))
                    except StopIteration:
                        break
                    except mp.TimeoutError:
                        R["deadline_hit"] = True
                        break
                    for (idx, key, msg, nt, out) in res:
                        R["executions"] += 1
                        if key is None:
                            outcomes.add(out)
                            if nt:
                                R["distinct_nontrivial"] += 1
                        else:
                            if key == "HARNESS-ERROR":
                                harness_error = True
                            if key not in viol or idx < viol[key][0]:
                                viol[key] = (idx, msg)
            finally:
                if R["deadline_hit"]:
                    pool.terminate()
                    pool.join()
                    pool = mp.get_context("fork").Pool(jobs, _worker_init,
                                                       (exe, root))
            R["states"] = R["transitions"] = R["executions"]
            R["distinct_outcomes"] = len(outcomes)
            R["exhaustive"] = (not R["deadline_hit"]) and \
                R["executions"] >= total
            for key, (idx, msg) in sorted(viol.items()):
                R["violations"].append(dict(
                    key=key, msg="%s | input #%d: %s" % (
                        msg, idx, c.describe(idx, th)),
                    confirmed=True, replay="", _idx=idx))
            for i in (0, total // 3, total - 1):
                if 0 <= i < total:
                    R["samples"].append({"case": "#%d: %s" % (
                        i, c.describe(i, th))})
            R["wall_s"] = round(time.time() - t0, 2)
            results.append(R)
            done_all += total
            print("CASE %s enum inputs=%d/%d exhaustive=%d nontrivial=%d "
                  "outcomes=%d viol=%d %.1fs"
                  % (c.name, R["executions"], total, R["exhaustive"],
                     R["distinct_nontrivial"], R["distinct_outcomes"],
                     len(R["violations"]), R["wall_s"]), flush=True)
    finally:
        pool.terminate()
        pool.join()
        shutil.rmtree(root, ignore_errors=True)
        try:
            os.rmdir(SCRATCH_ROOT)
        except OSError:
            pass
    # replays
    os.makedirs(opt.replaydir, exist_ok=True)
    k = 0
    nv = 0
    for R in results:
        for v in R["violations"]:
            hh = hashlib.sha256((R["name"] + v["key"]).encode()).hexdigest()
            path = os.path.join(opt.replaydir, "%s-conv-%s-%d.json"
                                % (PROPERTY, hh[:16], k))
            k += 1
            with open(path, "w") as f:
                json.dump(dict(property=PROPERTY, engine="py",
                               script="harness/c12_convert.py",
                               case=R["name"], tier=opt.tier, key=v["key"],
                               msg=v["msg"], index=v.pop("_idx")), f)
            v["replay"] = path
            print("FOUND case=%s key=%s replay=%s\n      %s"
                  % (R["name"], v["key"], path, v["msg"]), flush=True)
            nv += 1
    wall = time.time() - t00
    if opt.out:
        with open(opt.out, "w") as f:
            json.dump(dict(property=PROPERTY, tier=opt.tier,
                           wall_s=round(wall, 2), cases=results), f, indent=0)
    print("# done: %d cases, %d findings, %.1fs" % (len(results), nv, wall),
          flush=True)
    if harness_error:
        return 2
    return 1 if nv else 0


def replay(path):
    global CASES
    doc = json.load(open(path))
    exe = tool_build()
    CASES = build_cases()
    root = os.path.join(SCRATCH_ROOT, "replay-%d" % os.getpid())
    os.makedirs(root, exist_ok=True)
    Ctx.exe, Ctx.dir = exe, root
    th = doc.get("tier") == "thorough"
    try:
        for c in CASES:
            if c.name == doc["case"]:
                idx = int(doc["index"])
                print("REPLAY %s: #%d %s" % (c.name, idx, c.describe(idx, th)))
                try:
                    c.run(idx, th)
                except Fail as f:
                    print("  VIOLATION key=%s\n  %s" % (f.key, f.msg))
                    return 1
                print("  pass")
                return 0
    finally:
        shutil.rmtree(root, ignore_errors=True)
        try:
            os.rmdir(SCRATCH_ROOT)
        except OSError:
            pass
    sys.stderr.write("case %r not found\n" % doc.get("case"))
    return 2


def main():
    ap = argparse.ArgumentParser()
    ap.add_argument("--tier", default="quick", choices=["quick", "thorough"])
    ap.add_argument("--out", default="")
    ap.add_argument("--deadline", type=float, default=1e9)
    ap.add_argument("--jobs", type=int, default=16)
    ap.add_argument("--case", default="")
    ap.add_argument("--replay", default="")
    ap.add_argument("--replaydir", default=os.path.join(VERIF, "replays"))
    ap.add_argument("--list", action="store_true")
    ap.add_argument("--build-only", action="store_true")
    opt = ap.parse_args()
    if opt.build_only:
        print(tool_build())
        return 0
    if opt.list:
        for c in build_cases():
            print("enum %s (%d/%d inputs)" % (c.name, c.count(False),
                                              c.count(True)))
        return 0
    if opt.replay:
        return replay(opt.replay)
    return run_all(opt)


if __name__ == "__main__":
    sys.exit(main())

// C13: work-division routines return disjoint, ordered pieces that exactly
// cover the input.  Engine E2 (seqx input enumeration).  DESIGN.md 7/C13.
#include "seqx.h"

#include "galois/Galois.h"
#include "galois/gstl.h"
#include "galois/graphs/GraphHelpers.h"
#include "galois/graphs/LC_CSR_Graph.h"
#include "galois/runtime/Range.h"

#include <list>
#include <sstream>
#include <vector>

using sx::fail;

// ---------------------------------------------------------------------------
// 1. block_range, integer and iterator forms
// ---------------------------------------------------------------------------
// idx -> (size, num, base)
static const int BR_MAXSIZE = 64, BR_MAXNUM = 9;
static const long BR_BASES[] = {0, 5, -3};

static void block_range_case(uint64_t idx, bool) {
  int size = idx % (BR_MAXSIZE + 1);
  idx /= (BR_MAXSIZE + 1);
  int num = 1 + idx % BR_MAXNUM;
  idx /= BR_MAXNUM;
  long base = BR_BASES[idx % 3];
  // integer form
  {
    long cur = base;
    for (int id = 0; id < num; ++id) {
      auto r = galois::block_range(base, base + (long)size, (unsigned)id,
                                   (unsigned)num);
      if (r.first > r.second)
        fail("block_range-int:inverted", "size=%d num=%d id=%d: [%ld,%ld)",
             size, num, id, r.first, r.second);
      if (r.first != r.second) {
        if (r.first != cur)
          fail("block_range-int:gap-or-overlap",
               "size=%d num=%d id=%d starts at %ld, expected %ld", size, num,
               id, r.first, cur);
        cur = r.second;
      }
    }
    if (cur != base + size)
      fail("block_range-int:not-covering", "size=%d num=%d: covered up to %ld",
           size, num, cur - base);
    if (size > num)
      sx::mark_nontrivial();
  }
  // random-access iterator form
  if (base == 0) {
    std::vector<int> v(size);
    auto cur = v.begin();
    for (int id = 0; id < num; ++id) {
      auto r = galois::block_range(v.begin(), v.end(), (unsigned)id,
                                   (unsigned)num);
      if (r.first != r.second) {
        if (r.first != cur)
          fail("block_range-iter:gap-or-overlap", "size=%d num=%d id=%d", size,
               num, id);
        cur = r.second;
      }
    }
    if (cur != v.end())
      fail("block_range-iter:not-covering", "size=%d num=%d", size, num);
    // forward (list) iterators
    std::list<int> l(size);
    auto lc = l.begin();
    for (int id = 0; id < num; ++id) {
      auto r = galois::block_range(l.begin(), l.end(), (unsigned)id,
                                   (unsigned)num);
      if (r.first != r.second) {
        if (r.first != lc)
          fail("block_range-list:gap-or-overlap", "size=%d num=%d id=%d", size,
               num, id);
        lc = r.second;
      }
    }
    if (lc != l.end())
      fail("block_range-list:not-covering", "size=%d num=%d", size, num);
    // split_range: a point inside [b,e], first half >= second half by <= 1
    auto m = galois::split_range(v.begin(), v.end());
    long a = m - v.begin(), b = v.end() - m;
    if (a < b || a - b > 1)
      fail("split_range:unbalanced", "size=%d: %ld + %ld", size, a, b);
  }
  sx::outcome(size * 100 + num);
}

// 64-bit extremes for the integer form
static const uint64_t BIG[] = {(1ull << 32) - 1, 1ull << 32, (1ull << 32) + 1,
                               (1ull << 40) + 7, (1ull << 62) - 1,
                               1ull << 62,       (1ull << 63) - 1000};
static void block_range_big(uint64_t idx, bool) {
  uint64_t size = BIG[idx % 7];
  idx /= 7;
  unsigned num  = 1 + idx % 9;
  uint64_t cur  = 0;
  for (unsigned id = 0; id < num; ++id) {
    auto r = galois::block_range((uint64_t)0, size, id, num);
    if (r.first != r.second) {
      if (r.first != cur)
        fail("block_range-u64:gap-or-overlap",
             "size=%llu num=%u id=%u starts at %llu expected %llu",
             (unsigned long long)size, num, id, (unsigned long long)r.first,
             (unsigned long long)cur);
      cur = r.second;
    }
  }
  if (cur != size)
    fail("block_range-u64:not-covering", "size=%llu num=%u covered %llu",
         (unsigned long long)size, num, (unsigned long long)cur);
  sx::mark_nontrivial();
  sx::outcome(size ^ num);
}

// ---------------------------------------------------------------------------
// 2. divideNodesBinarySearch over every small prefix sum
// ---------------------------------------------------------------------------
struct DivIn {
  std::vector<uint64_t> prefix; // full prefix sum
  int n;
  unsigned nw, ew;
  unsigned total;
  std::vector<unsigned> scale;
  unsigned nodeOffset;
  std::string str() const {
    std::ostringstream o;
    o << "prefix=[";
    for (size_t i = 0; i < prefix.size(); ++i)
      o << (i ? "," : "") << prefix[i];
    o << "] nodeWeight=" << nw << " edgeWeight=" << ew << " total=" << total
      << " scale=[";
    for (size_t i = 0; i < scale.size(); ++i)
      o << (i ? "," : "") << scale[i];
    o << "] nodeOffset=" << nodeOffset;
    return o.str();
  }
};

static const unsigned WEIGHTS[][2] = {{0, 1}, {1, 0}, {1, 1}, {2, 1}, {1, 2},
                                      {5, 1}, {1, 5}, {0, 2}, {2, 0}, {5, 5}};
// scale options for a given total: index 0 = none, then all vectors with
// entries in 1..3 (only for total <= 3)
static uint64_t nscale(unsigned total) {
  if (total > 3)
    return 1;
  uint64_t k = 1;
  for (unsigned i = 0; i < total; ++i)
    k *= 3;
  return 1 + k;
}

static uint64_t div_count_for(int maxn, unsigned maxinc) {
  // number of (n, increments) = sum_{n=0..maxn} (maxinc+1)^n
  uint64_t s = 0, p = 1;
  for (int n = 0; n <= maxn; ++n) {
    s += p;
    p *= (maxinc + 1);
  }
  return s;
}

static int DIV_MAXN(bool th) { return th ? 9 : 7; }
static const unsigned DIV_MAXINC = 3, DIV_MAXTOTAL = 5;

static uint64_t div_total_cfg() {
  uint64_t s = 0;
  for (unsigned t = 1; t <= DIV_MAXTOTAL; ++t)
    s += nscale(t);
  return s;
}

static uint64_t div_count(bool th) {
  return div_count_for(DIV_MAXN(th), DIV_MAXINC) * 10 * div_total_cfg() * 3;
}

static DivIn div_decode(uint64_t idx, bool th) {
  DivIn d;
  d.nodeOffset = idx % 3;
  idx /= 3;
  uint64_t cfg = idx % div_total_cfg();
  idx /= div_total_cfg();
  unsigned t = 1;
  while (cfg >= nscale(t)) {
    cfg -= nscale(t);
    ++t;
  }
  d.total = t;
  if (cfg > 0) {
    cfg -= 1;
    for (unsigned i = 0; i < t; ++i) {
      d.scale.push_back(1 + cfg % 3);
      cfg /= 3;
    }
  }
  unsigned w = idx % 10;
  idx /= 10;
  d.nw = WEIGHTS[w][0];
  d.ew = WEIGHTS[w][1];
  // prefix
  int n = 0;
  uint64_t p = 1;
  while (idx >= p) {
    idx -= p;
    p *= (DIV_MAXINC + 1);
    ++n;
  }
  d.n          = n;
  uint64_t sum = 0;
  for (int i = 0; i < n; ++i) {
    sum += idx % (DIV_MAXINC + 1);
    idx /= (DIV_MAXINC + 1);
    d.prefix.push_back(sum);
  }
  (void)th;
  return d;
}

static void div_case(uint64_t idx, bool th) {
  DivIn d = div_decode(idx, th);
  if ((int)d.nodeOffset > d.n)
    return; // not a valid sub-range
  uint64_t edgeOffset = d.nodeOffset ? d.prefix[d.nodeOffset - 1] : 0;
  uint64_t numNodes   = d.n - d.nodeOffset;
  uint64_t numEdges   = (d.n ? d.prefix[d.n - 1] : 0) - edgeOffset;
  uint64_t curN = 0, curE = 0;
  for (unsigned id = 0; id < d.total; ++id) {
    auto r = galois::graphs::divideNodesBinarySearch(
        numNodes, numEdges, (size_t)d.nw, (size_t)d.ew, (size_t)id,
        (size_t)d.total, d.prefix, d.scale, edgeOffset,
        (uint64_t)d.nodeOffset);
    uint64_t nl = *r.first.first, nu = *r.first.second;
    uint64_t el = *r.second.first, eu = *r.second.second;
    if (nl > nu || nu > numNodes)
      fail("divideNodesBinarySearch:bad-node-range", "%s id=%u nodes [%llu,%llu)",
           d.str().c_str(), id, (unsigned long long)nl, (unsigned long long)nu);
    if (nl != nu) {
      if (nl != curN)
        fail("divideNodesBinarySearch:node-gap-or-overlap",
             "%s id=%u nodes start at %llu, expected %llu", d.str().c_str(),
             id, (unsigned long long)nl, (unsigned long long)curN);
      curN = nu;
      // edges of exactly these nodes
      uint64_t wantEl =
          (nl + d.nodeOffset) ? d.prefix[nl + d.nodeOffset - 1] - edgeOffset : 0;
      uint64_t wantEu = d.prefix[nu + d.nodeOffset - 1] - edgeOffset;
      if (el != wantEl || eu != wantEu)
        fail("divideNodesBinarySearch:edge-range-mismatch",
             "%s id=%u nodes [%llu,%llu) edges [%llu,%llu) expected "
             "[%llu,%llu)",
             d.str().c_str(), id, (unsigned long long)nl,
             (unsigned long long)nu, (unsigned long long)el,
             (unsigned long long)eu, (unsigned long long)wantEl,
             (unsigned long long)wantEu);
      if (el != curE)
        fail("divideNodesBinarySearch:edge-gap-or-overlap",
             "%s id=%u edges start at %llu expected %llu", d.str().c_str(), id,
             (unsigned long long)el, (unsigned long long)curE);
      curE = eu;
    } else if (el != eu) {
      fail("divideNodesBinarySearch:edges-without-nodes",
           "%s id=%u has no nodes but edges [%llu,%llu)", d.str().c_str(), id,
           (unsigned long long)el, (unsigned long long)eu);
    }
  }
  if (curN != numNodes)
    fail("divideNodesBinarySearch:nodes-not-covered",
         "%s: covered %llu of %llu nodes", d.str().c_str(),
         (unsigned long long)curN, (unsigned long long)numNodes);
  if (curE != numEdges)
    fail("divideNodesBinarySearch:edges-not-covered",
         "%s: covered %llu of %llu edges", d.str().c_str(),
         (unsigned long long)curE, (unsigned long long)numEdges);
  if (numNodes >= 2 && d.total >= 2)
    sx::mark_nontrivial();
  sx::outcome(curN * 31 + curE);
}

// ---------------------------------------------------------------------------
// 3. determineUnitRangesFromPrefixSum (whole and clipped to a sub-range)
// ---------------------------------------------------------------------------
static uint64_t ur_count(bool th) {
  return div_count_for(DIV_MAXN(th), DIV_MAXINC) * 6 /*units*/ * 3 /*alpha*/ *
         28 /*(begin,end) pairs of 0..6*/;
}
struct UrIn {
  std::vector<uint64_t> prefix;
  unsigned units, alpha, b, e;
  bool valid;
  std::string str() const {
    std::ostringstream o;
    o << "prefix=[";
    for (size_t i = 0; i < prefix.size(); ++i)
      o << (i ? "," : "") << prefix[i];
    o << "] units=" << units << " nodeAlpha=" << alpha << " range=[" << b
      << "," << e << ")";
    return o.str();
  }
};
static UrIn ur_decode(uint64_t idx, bool) {
  UrIn u;
  unsigned pair = idx % 28;
  idx /= 28;
  // pairs (b,e) with 0<=b<=e<=6
  unsigned k = 0;
  u.b = u.e = 0;
  for (unsigned b = 0; b <= 6; ++b)
    for (unsigned e = b; e <= 6; ++e) {
      if (k == pair) {
        u.b = b;
        u.e = e;
      }
      ++k;
    }
  static const unsigned ALPHA[] = {0, 1, 3};
  u.alpha = ALPHA[idx % 3];
  idx /= 3;
  u.units = 1 + idx % 6;
  idx /= 6;
  int n = 0;
  uint64_t p = 1;
  while (idx >= p) {
    idx -= p;
    p *= (DIV_MAXINC + 1);
    ++n;
  }
  uint64_t sum = 0;
  for (int i = 0; i < n; ++i) {
    sum += idx % (DIV_MAXINC + 1);
    idx /= (DIV_MAXINC + 1);
    u.prefix.push_back(sum);
  }
  u.valid = u.e <= (unsigned)n;
  return u;
}

static void check_unit_ranges(const char* what, const UrIn& u,
                              const std::vector<uint32_t>& r, unsigned b,
                              unsigned e) {
  if (r.size() != u.units + 1)
    fail(std::string(what) + ":wrong-length", "%s: %zu boundaries",
         u.str().c_str(), r.size());
  if (r.front() != b || r.back() != e)
    fail(std::string(what) + ":not-covering",
         "%s: boundaries run from %u to %u", u.str().c_str(), r.front(),
         r.back());
  for (size_t i = 0; i + 1 < r.size(); ++i)
    if (r[i] > r[i + 1])
      fail(std::string(what) + ":not-ordered", "%s: boundary %zu=%u > %u",
           u.str().c_str(), i, r[i], r[i + 1]);
}

static void ur_case(uint64_t idx, bool th) {
  UrIn u = ur_decode(idx, th);
  if (!u.valid)
    return;
  unsigned n = u.prefix.size();
  if (u.b == 0 && u.e == n) {
    auto r = galois::graphs::determineUnitRangesFromPrefixSum(u.units, u.prefix,
                                                              u.alpha);
    check_unit_ranges("determineUnitRangesFromPrefixSum", u, r, 0, n);
  }
  auto r = galois::graphs::determineUnitRangesFromPrefixSum(
      u.units, u.prefix, u.b, u.e, u.alpha);
  check_unit_ranges("determineUnitRangesFromPrefixSum-clipped", u, r, u.b, u.e);
  if (u.e - u.b >= 2 && u.units >= 2)
    sx::mark_nontrivial();
  uint64_t o = 0;
  for (auto x : r)
    o = o * 7 + x;
  sx::outcome(o);
}

int main(int argc, char** argv) {
  std::vector<sx::EnumCase> en;
  {
    sx::EnumCase c;
    c.name  = "block_range+split_range size<=64 parts<=9";
    c.count = [](bool) { return (uint64_t)(BR_MAXSIZE + 1) * BR_MAXNUM * 3; };
    c.run   = block_range_case;
    c.describe = [](uint64_t idx, bool) {
      int size = idx % (BR_MAXSIZE + 1);
      idx /= (BR_MAXSIZE + 1);
      int num = 1 + idx % BR_MAXNUM;
      idx /= BR_MAXNUM;
      return "size=" + std::to_string(size) + " parts=" + std::to_string(num) +
             " base=" + std::to_string(BR_BASES[idx % 3]);
    };
    en.push_back(c);
  }
  {
    sx::EnumCase c;
    c.name  = "block_range 64-bit extremes";
    c.count = [](bool) { return (uint64_t)7 * 9; };
    c.run   = block_range_big;
    c.describe = [](uint64_t idx, bool) {
      return "size=" + std::to_string(BIG[idx % 7]) +
             " parts=" + std::to_string(1 + (idx / 7) % 9);
    };
    en.push_back(c);
  }
  {
    sx::EnumCase c;
    c.name     = "divideNodesBinarySearch all prefix sums";
    c.count    = div_count;
    c.run      = div_case;
    c.describe = [](uint64_t idx, bool th) { return div_decode(idx, th).str(); };
    c.weight   = 4;
    en.push_back(c);
  }
  {
    sx::EnumCase c;
    c.name     = "determineUnitRangesFromPrefixSum all prefix sums";
    c.count    = ur_count;
    c.run      = ur_case;
    c.describe = [](uint64_t idx, bool th) { return ur_decode(idx, th).str(); };
    c.weight   = 4;
    en.push_back(c);
  }
  return sx::sx_main(argc, argv, "C13", {}, en);
}

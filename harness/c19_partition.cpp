// C19 -- CuSP partitioning: every edge once, one master per node, consistent
// ids.  Engine E4 (see DESIGN.md section 5 and e4_common.h): one
// `mpirun -np h` session loops over EVERY case of a session file (input graph
// x policy class x CSR/CSC input/output x symmetric shortcut x edge data type
// x read balancing x sync/async master assignment), partitions with the real
// galois::cuspPartitionGraph<Policy, char, EdgeData>, builds the real
// GluonSubstrate on top (its constructor exchanges the mirror lists and
// produces the master lists), gathers everything to rank 0 with plain MPI and
// checks it against the input edge list (e4::check_partition).
//
// Cross-host message arrival order is NOT controlled: the driver repeats every
// session r times and says so in the evidence.
//
// usage: mpirun -np h c19_partition SESSION_FILE RESULT_FILE [threads]
#include "e4_pace.h" // timing-only shim, must precede every Galois header

#include "e4_common.h"
#include <ctime>
#include <unistd.h>

#include "galois/graphs/GluonSubstrate.h"
#define E4_PACE_IMPL
#include "e4_pace.h"

template <typename EdgeData>
static void run_case(const e4::Case& c, e4::Comm& comm, FILE* out) {
  typedef galois::graphs::DistGraph<char, EdgeData> Graph;
  auto& net = galois::runtime::getSystemNetworkInterface();
  e4::HostDump d;
  {
    std::unique_ptr<Graph> g = e4::partition<char, EdgeData>(c);
    e4::dump_graph(*g, c.n, net.Num, d);
    {
      galois::graphs::GluonSubstrate<Graph> sub(*g, net.ID, net.Num,
                                                g->isTransposed(),
                                                g->cartesianGrid());
      for (unsigned h = 0; h < net.Num; ++h) {
        d.mirrorsLid[h].assign(sub.mirrorNodes[h].begin(),
                               sub.mirrorNodes[h].end());
        d.mastersLid[h].assign(sub.masterNodes[h].begin(),
                               sub.masterNodes[h].end());
      }
    }
  }
  auto all = comm.gather(d.pack());
  if (comm.rank != 0)
    return;
  e4::Report r;
  std::vector<e4::HostDump> H(all.size());
  bool ok = true;
  for (size_t h = 0; h < all.size(); ++h)
    if (!H[h].unpack(all[h]))
      ok = false;
  std::string comp = "cusp:" + c.policy + ":" + c.in + "->" + c.out +
                     (c.sym ? ":sym" : "");
  if (!ok) {
    r.fail(comp + ":harness-gather-corrupt", "could not decode a host dump");
  } else {
    e4::check_partition(c, H, comp, r, true);
  }
  // stats: proxies, mirrors, hosts holding edges, distinct outcome signature
  uint64_t proxies = 0, mirrors = 0, hostsWithEdges = 0, sig = 1469598103934665603ull;
  auto mix = [&](uint64_t x) {
    sig ^= x;
    sig *= 1099511628211ull;
  };
  if (ok)
    for (auto& h : H) {
      proxies += h.numNodes;
      mirrors += h.numNodes - h.numOwned;
      hostsWithEdges += h.edges.size() ? 1 : 0;
      mix(h.numNodes);
      mix(h.numOwned);
      for (auto x : h.l2g)
        mix(x);
      for (auto& e : h.edges) {
        mix(e.ls);
        mix(e.ld);
      }
    }
  char sb[300];
  snprintf(sb, sizeof sb,
           "{\"proxies\":%llu,\"mirrors\":%llu,\"hosts_with_edges\":%llu,"
           "\"vertex_cut\":%d,\"transposed\":%d,\"grid\":\"%llux%llu\","
           "\"sig\":\"%016llx\"}",
           (unsigned long long)proxies, (unsigned long long)mirrors,
           (unsigned long long)hostsWithEdges, ok ? (int)H[0].vertexCut : -1,
           ok ? (int)H[0].transposed : -1,
           ok ? (unsigned long long)H[0].gridR : 0ull,
           ok ? (unsigned long long)H[0].gridC : 0ull,
           (unsigned long long)sig);
  e4::emit_result(out, c.id, r, sb);
}

int main(int argc, char** argv) {
  if (argc < 3) {
    fprintf(stderr, "usage: c19_partition SESSION RESULT [threads]\n");
    return 2;
  }
  e4::redirect_output(argv[2]);
  galois::DistMemSys G;
  galois::setActiveThreads(argc > 3 ? atoi(argv[3]) : 1);
  auto& net = galois::runtime::getSystemNetworkInterface();
  (void)net;
  e4::Comm comm;
  comm.init();
  std::vector<e4::Case> cases = e4::read_session(argv[1]);
  FILE* out = nullptr;
  if (comm.rank == 0) {
    out = fopen(argv[2], "a");
    if (!out) {
      perror(argv[2]);
      MPI_Abort(MPI_COMM_WORLD, 2);
    }
  }
  fprintf(stderr, "E4-RANK %d: pid %d t=%ld %zu cases in %s\n", comm.rank,
          (int)getpid(), (long)time(nullptr), cases.size(), argv[1]);
  for (auto& c : cases) {
    if (comm.rank == 0)
      e4::emit_begin(out, c.id);
    comm.barrier();
    // position of every rank, for the diagnosis of a stalled session
    fprintf(stderr, "E4-RANK %d: pid %d t=%ld in case %ld\n", comm.rank,
            (int)getpid(), (long)time(nullptr), c.id);
    if (c.edata == "void")
      run_case<void>(c, comm, out);
    else
      run_case<uint32_t>(c, comm, out);
  }
  fprintf(stderr, "E4-RANK %d: pid %d t=%ld all cases done, final barrier\n",
          comm.rank, (int)getpid(), (long)time(nullptr));
  comm.barrier();
  fprintf(stderr, "E4-RANK %d: pid %d t=%ld leaving main\n", comm.rank,
          (int)getpid(), (long)time(nullptr));
  if (comm.rank == 0) {
    fprintf(out, "{\"done\":true}\n");
    fclose(out);
  }
  return 0;
}

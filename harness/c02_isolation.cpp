// C02: for_each iterations are isolated: exclusive ownership, clean aborts,
// serialisable result for cautious operators.  Engine E1 (gsched).
// DESIGN.md 7/C02.
#include "fe_common.h"

#include <map>

FeState fe;

using namespace galois::worklists;
using galois::runtime::LockManagerBase;

static std::string g_tag;
// The deterministic executor runs every operator twice by design (inspection
// pass up to the cautious point, then the commit pass with the SAME context
// still holding the neighbourhood): check (b) does not apply to it.
static bool g_two_pass;

// plain stamps: who owns the object right now (written right after acquiring,
// re-read at the commit point).  With a broken lock these plain accesses race,
// get promoted to scheduling points, and the foreign stamp shows up.
template <typename Ctx>
static void iso_operator(int item, Ctx& ctx) {
  const ItemProg& p = fe.prog->items[item];
  int att           = fe_next_attempt(item);
  vf_log(K_ATTEMPT, item, att);
  // (b) a new attempt starts with nothing owned by this thread's context
  auto* me = g_two_pass ? nullptr : galois::runtime::getThreadContext();
  for (int o = 0; o < FE_MAXOBJ; ++o)
    if (me && LockManagerBase::getOwner(&fe.obj[o]) == me)
      vf_note_fail((g_tag + ":ownership-leaked-into-next-iteration").c_str(),
                   "item %d attempt %d starts while its thread's context "
                   "still owns object %d",
                   item, att, o);
  if (me && me->locks != nullptr)
    vf_note_fail((g_tag + ":neighbourhood-not-cleared").c_str(),
                 "item %d attempt %d starts with a non-empty neighbourhood "
                 "list",
                 item, att);
  size_t n = p.acq.size();
  for (size_t i = 0; i < n; ++i) {
    if (i + 1 == n)
      for (int c : p.pre)
        ctx.push(c);
    galois::runtime::acquire(&fe.obj[p.acq[i]], galois::MethodFlag::WRITE);
    fe.obj[p.acq[i]].stamp = item; // plain write: I own it now
    vf_log(K_OWN, item, p.acq[i]);
  }
  if (p.vabort && att <= p.vabort_times) {
    vf_log(K_VABORT, item, 0);
    ctx.abort();
  }
  if (p.pause_owning)
    galois::substrate::asmPause(); // lingers while owning its neighbourhood
  ctx.cautiousPoint();
  vf_log(K_COMMIT, item, att);
  // (a) exclusive ownership: all my stamps are still mine
  for (int o : p.acq)
    if (fe.obj[o].stamp != item)
      vf_note_fail((g_tag + ":double-owner").c_str(),
                   "item %d owns object %d but found the stamp of item %d",
                   item, o, fe.obj[o].stamp);
  for (int o : p.acq)
    fe.obj[o].value = fe.obj[o].value * 3 + item; // non-commutative update
  for (int c : p.post)
    ctx.push(c);
  for (int o : p.acq)
    if (fe.obj[o].stamp != item)
      vf_note_fail((g_tag + ":double-owner").c_str(),
                   "item %d owns object %d but found the stamp of item %d "
                   "after its update",
                   item, o, fe.obj[o].stamp);
}

template <typename WL>
static void iso_run(const Program& p) {
  std::vector<int> init;
  for (int i = 0; i < p.ninit; ++i)
    init.push_back(i);
  galois::for_each(
      galois::iterate(init), [](int item, auto& ctx) { iso_operator(item, ctx); },
      galois::wl<WL>(), galois::loopname("iso"));
  vf_log(K_RETURN, 0, 0);
}

VF_NOINSTR static void check_serial(const Program& P) {
  // (d) final values == serial replay of committed iterations in commit order
  long expect[FE_MAXOBJ];
  for (int o = 0; o < FE_MAXOBJ; ++o)
    expect[o] = 1;
  int n = vf_log_count();
  for (int i = 0; i < n; ++i) {
    const vf_log_entry* e = vf_log_get(i);
    if (e->kind != K_COMMIT)
      continue;
    for (int o : P.items[e->a].acq)
      expect[o] = expect[o] * 3 + e->a;
  }
  for (int o = 0; o < FE_MAXOBJ; ++o)
    if (fe.obj[o].value != expect[o])
      vf_fail((g_tag + ":not-serialisable").c_str(),
              "program %s: object %d ended with value %ld, serial replay in "
              "commit order gives %ld",
              P.name.c_str(), o, fe.obj[o].value, expect[o]);
}

typedef std::function<void(const Program&)> Runner;
template <typename WL>
static Runner R() {
  return [](const Program& p) { iso_run<WL>(p); };
}

static void iso_case(Runner run, std::string wl, Program prog,
                     std::vector<int> topo, int T) {
  vf_set_topology(topo.data(), (int)topo.size());
  g_tag      = "isolation:wl=" + wl;
  g_two_pass = wl == "Deterministic";
  vf_tag(g_tag.c_str());
  galois::SharedMemSys G;
  galois::setActiveThreads(T);
  fe_reset(prog);
  vf_window_begin();
  run(prog);
  vf_window_end();
  // (c) nothing is left owned
  for (int o = 0; o < FE_MAXOBJ; ++o) {
    if (LockManagerBase::getOwner(&fe.obj[o]) != nullptr ||
        fe.obj[o].owner.is_locked())
      vf_fail((g_tag + ":object-left-owned").c_str(),
              "object %d is still owned/locked after for_each returned", o);
  }
  fe_check_conservation(g_tag);
  check_serial(prog);
  uint64_t out = 0;
  for (int o = 0; o < FE_MAXOBJ; ++o)
    out = out * 1000003 + fe.obj[o].value;
  vf_outcome(out);
  vf_finish();
}

static std::vector<Program> iso_programs() {
  std::vector<Program> v = fe_programs();
  auto item = [](std::vector<int> acq, std::vector<int> pre,
                 std::vector<int> post, bool vab = false) {
    ItemProg p;
    p.acq    = acq;
    p.pre    = pre;
    p.post   = post;
    p.vabort = vab;
    return p;
  };
  {
    Program p;
    p.name  = "reacquire";
    p.ninit = 3;
    p.items = {item({0, 1, 0}, {}, {}), item({1, 1, 2}, {}, {}),
               item({2, 0}, {}, {})};
    v.push_back(p);
  }
  {
    Program p;
    p.name  = "triangle";
    p.ninit = 3;
    p.items = {item({0, 1}, {}, {}), item({1, 2}, {}, {}), item({2, 0}, {}, {})};
    v.push_back(p);
  }
  {
    Program p;
    p.name  = "abort-heavy";
    p.ninit = 2;
    p.items = {item({0, 1}, {2}, {}, true), item({1, 0}, {}, {3}, true),
               item({0}, {}, {}), item({1}, {}, {})};
    v.push_back(p);
  }
  {
    // item 1 takes object 1 as its SECOND object, exactly what item 0 gives
    // up first when it commits, and then lingers (pause) while owning both:
    // whatever item 0's commit still does to object 1 after letting go of it
    // lands in item 1's ownership list
    Program p;
    p.name  = "handoff";
    p.ninit = 2;
    p.items = {item({0, 1}, {}, {}), item({2, 1}, {}, {2, 3}), item({2}, {}, {}),
               item({2, 0}, {}, {})};
    p.items[1].pause_owning = true;
    v.push_back(p);
    p.name  = "handoff-abort"; // the same with item 0 giving up by abort first
    p.items[0].vabort = true;
    v.push_back(p);
  }
  return v;
}

int main(int argc, char** argv) {
  std::vector<VfCase> cases;
  std::map<std::string, Program> P;
  for (auto& p : iso_programs())
    P[p.name] = p;
  auto add = [&](std::string wl, Runner r, const Program& p,
                 std::vector<int> topo, int T, int qb, int tb, int w = 1) {
    VfCase c;
    c.name = "iso wl=" + wl + " prog=" + p.name + " topo=" + fe_topo_str(topo) +
             " T=" + std::to_string(T);
    c.quick_bound    = qb;
    c.thorough_bound = tb;
    c.weight         = w;
    c.body = [=]() { iso_case(r, wl, p, topo, T); };
    cases.push_back(c);
  };
  typedef PerSocketChunkFIFO<1> C1;
  struct W {
    std::string n;
    Runner r;
  };
  std::vector<W> wls = {{"PerSocketChunkFIFO<1>", R<C1>()},
                        {"PerThreadChunkLIFO<1>", R<PerThreadChunkLIFO<1>>()},
                        {"ChunkFIFO<2>", R<ChunkFIFO<2>>()},
                        {"OBIM", R<OrderedByIntegerMetric<FeIndexer, C1>>()},
                        {"Deterministic", R<Deterministic<>>()}};
  for (size_t i = 0; i < wls.size(); ++i) {
    auto& w = wls[i];
    bool def = i == 0;
    // default worklist: two deviations in the quick tier as well
    add(w.n, w.r, P["cross"], {2}, 2, def ? 2 : 1, 2, 4);
    add(w.n, w.r, P["triangle"], {2}, 2, def ? 1 : -1, 2, 4);
    add(w.n, w.r, P["reacquire"], {1, 1}, 2, def ? 1 : -1, 2, 4);
    add(w.n, w.r, P["abort-heavy"], {2}, 2, def ? 2 : 1, 2, 4);
    add(w.n, w.r, P["handoff"], {2}, 2, def ? 2 : 1, 2, 4);
    add(w.n, w.r, P["handoff-abort"], {1, 1}, 2, def ? 1 : -1, 2, 4);
    if (def)
      add(w.n, w.r, P["big-push"], {2}, 2, 0, 1, 4);
    add(w.n, w.r, P["fan"], {1, 1}, 2, -1, 2, 4);
    add(w.n, w.r, P["triangle"], {3}, 3, def ? 1 : -1, 1, 3);
    add(w.n, w.r, P["cross"], {1, 1, 1}, 3, def ? 1 : -1, 1, 3);
    add(w.n, w.r, P["abort-heavy"], {2, 1}, 3, -1, 1, 3);
    add(w.n, w.r, P["vabort"], {1, 1, 1}, 3, -1, 1, 3);
  }
  add(wls[0].n, wls[0].r, P["cross"], {2}, 2, -1, 3, 8);
  return vf_main(argc, argv, "C02", cases);
}

// C14: TwoLevelIteratorA / TwoLevelIterator over every shape of few small
// inner containers; and compile probes for members that cannot be called at
// all.
#ifndef VERIF_C14_TWOLEVEL_H
#define VERIF_C14_TWOLEVEL_H

#include "c14_elem.h"

#include "galois/TwoLevelIterator.h"
#include "galois/TwoLevelIteratorA.h"

#include <forward_list>
#include <list>
#include <vector>

namespace c14 {

struct TLShape {
  std::vector<std::vector<int>> inner; // values are 0..N-1 in flattened order
  int n = 0;
};

inline int TL_K(bool th) { return th ? 5 : 3; } // max inner containers
inline int TL_S(bool th) { return th ? 3 : 2; } // max elements each

inline uint64_t tl_nshapes(bool th) {
  uint64_t s = 0, p = 1;
  for (int k = 0; k <= TL_K(th); ++k) {
    s += p;
    p *= TL_S(th) + 1;
  }
  return s;
}
inline TLShape tl_shape(uint64_t idx, bool th) {
  TLShape sh;
  uint64_t p = 1;
  int k      = 0;
  while (idx >= p) {
    idx -= p;
    p *= TL_S(th) + 1;
    ++k;
  }
  for (int i = 0; i < k; ++i) {
    int sz = idx % (TL_S(th) + 1);
    idx /= TL_S(th) + 1;
    std::vector<int> in;
    for (int j = 0; j < sz; ++j)
      in.push_back(sh.n++);
    sh.inner.push_back(in);
  }
  return sh;
}
inline std::string tl_shape_str(const TLShape& s) {
  std::string o = "{";
  for (auto& in : s.inner)
    o += vstr(in);
  return o + "}";
}

template <class O>
O tl_build(const TLShape& s) {
  typedef typename O::value_type I;
  std::vector<I> tmp;
  for (auto& in : s.inner)
    tmp.push_back(I(in.begin(), in.end()));
  return O(tmp.begin(), tmp.end());
}

// Cap: 0 forward, 1 bidirectional, 2 random access.
template <int Cap, class It>
void tl_check(const std::string& C, const std::string& shp, It b, It e,
              const std::vector<int>& F, bool jumps_ok) {
  const int N = (int)F.size();
  // positions 0..N by stepping
  std::vector<It> pos;
  {
    It it = b;
    std::vector<int> got;
    for (int n = 0;; ++n) {
      pos.push_back(it);
      if (it == e)
        break;
      if (n > N + 1)
        sx::fail(C + ":forward-traversal", "%s: more than %d steps without "
                                           "reaching end (so far %s)",
                 shp.c_str(), N + 1, vstr(got).c_str());
      got.push_back(*it);
      ++it;
    }
    if (got != F)
      sx::fail(C + ":forward-traversal", "%s: begin..end visits %s, expected "
                                         "%s",
               shp.c_str(), vstr(got).c_str(), vstr(F).c_str());
  }
  // equality is position equality
  for (int i = 0; i <= N; ++i)
    for (int j = 0; j <= N; ++j)
      if ((pos[i] == pos[j]) != (i == j) || (pos[i] != pos[j]) != (i != j))
        sx::fail(C + ":equality", "%s: position %d %s position %d", shp.c_str(),
                 i, i == j ? "!=" : "==", j);
  if constexpr (Cap >= 1) {
    if (N > 0) {
      std::vector<int> got;
      It it = e;
      for (int n = 0; n < N; ++n) {
        --it;
        got.push_back(*it);
      }
      std::vector<int> want(F.rbegin(), F.rend());
      if (got != want)
        sx::fail(C + ":backward-traversal", "%s: end..begin visits %s, "
                                            "expected %s",
                 shp.c_str(), vstr(got).c_str(), vstr(want).c_str());
      if (!(it == b))
        sx::fail(C + ":backward-traversal", "%s: %d decrements from end do "
                                            "not reach begin",
                 shp.c_str(), N);
    }
    for (int i = 0; i <= N; ++i) {
      if (i < N) {
        It j = pos[i];
        ++j;
        --j;
        if (!(j == pos[i]) || *j != F[i])
          sx::fail(C + ":increment-decrement-not-inverse",
                   "%s: ++ then -- at position %d", shp.c_str(), i);
      }
      if (i > 0) {
        It j = pos[i];
        --j;
        ++j;
        if (!(j == pos[i]))
          sx::fail(C + ":increment-decrement-not-inverse",
                   "%s: -- then ++ at position %d", shp.c_str(), i);
      }
    }
  }
  if constexpr (Cap >= 2) {
    if (jumps_ok)
      for (int i = 0; i <= N; ++i)
        for (int j = 0; j <= N; ++j) {
          It t = pos[i] + (j - i);
          if (!(t == pos[j])) {
            int at = -1;
            for (int k = 0; k <= N; ++k)
              if (t == pos[k])
                at = k;
            sx::fail(C + (j >= i ? ":advance-forward" : ":advance-backward"),
                     "%s: position %d %+d lands on position %d instead of %d "
                     "(-1: no valid position)",
                     shp.c_str(), i, j - i, at, j);
          }
          It u = pos[i];
          u += (j - i);
          if (!(u == pos[j]))
            sx::fail(C + (j >= i ? ":advance-forward" : ":advance-backward"),
                     "%s: position %d += %d misses position %d", shp.c_str(), i,
                     j - i, j);
          It w = pos[i];
          w -= (i - j);
          if (!(w == pos[j]))
            sx::fail(C + (j >= i ? ":advance-forward" : ":advance-backward"),
                     "%s: position %d -= %d misses position %d", shp.c_str(), i,
                     i - j, j);
          if (j < N && pos[i][j - i] != F[j])
            sx::fail(C + ":subscript", "%s: position %d [%d] = %d, expected %d",
                     shp.c_str(), i, j - i, (int)pos[i][j - i], F[j]);
        }
    for (int i = 0; i <= N; ++i)
      for (int j = 0; j <= N; ++j) {
        long d = pos[j] - pos[i];
        if (d != j - i)
          sx::fail(C + ":difference", "%s: position %d - position %d = %ld",
                   shp.c_str(), j, i, d);
        if ((pos[i] < pos[j]) != (i < j) || (pos[i] <= pos[j]) != (i <= j) ||
            (pos[i] > pos[j]) != (i > j) || (pos[i] >= pos[j]) != (i >= j))
          sx::fail(C + ":ordering", "%s: relational operators wrong for "
                                    "positions %d,%d",
                   shp.c_str(), i, j);
      }
  }
}

// ---- variants ---------------------------------------------------------------
typedef std::vector<std::vector<int>> VV;
typedef std::vector<std::list<int>> VL;
typedef std::list<std::vector<int>> LV;
typedef std::list<std::list<int>> LL;
typedef std::forward_list<std::forward_list<int>> FF;

static const char* const TL_VARIANTS[] = {
    "TwoLevelIteratorA<vector<vector>,random_access>",
    "TwoLevelIteratorA<vector<list>,random_access>",
    "TwoLevelIteratorA<list<vector>,random_access>",
    "TwoLevelIteratorA<list<list>,random_access>",
    "TwoLevelIteratorA<list<list>,bidirectional>",
    "TwoLevelIteratorA<vector<vector>,bidirectional>",
    "TwoLevelIteratorA<vector<vector>,forward>",
    "TwoLevelIteratorA<forward_list<forward_list>,forward>",
    "TwoLevelIteratorA<const vector<vector>,random_access>",
    "TwoLevelIterator<vector<vector>> stl_two_level_begin/end",
    "TwoLevelIterator<vector<vector>> stl_two_level_cbegin/cend",
    "TwoLevelIterator<vector<vector>> stl_two_level_rbegin/rend",
    "TwoLevelIterator<list<list>> stl_two_level_begin/end",
    "TwoLevelIterator<vector<list>> stl_two_level_begin/end",
    "TwoLevelIterator<forward_list<forward_list>> stl_two_level_begin/end",
};
static const int TL_NVAR = 15;
// Deliberately absent: stl_two_level_begin over list<vector<int>>.
// ChooseTwoLevelIterator picks TwoLevelRandIter from the INNER category alone
// and its compute_dist() calls std::distance on the outer (list) iterators in
// an order that may be unreachable; exercising it would be undefined
// behaviour chosen by the harness, not a verdict about a result.

template <class Tag, int Cap, class O>
void tlA(const std::string& C, const TLShape& s, const std::vector<int>& F) {
  O o    = tl_build<O>(s);
  auto r = galois::make_two_level_iterator<Tag>(o.begin(), o.end());
  tl_check<Cap>(C, tl_shape_str(s), r.first, r.second, F, true);
}

inline void tl_run(uint64_t idx, bool th) {
  alarm(60);
  int var   = idx % TL_NVAR;
  TLShape s = tl_shape(idx / TL_NVAR, th);
  std::vector<int> F;
  for (int i = 0; i < s.n; ++i)
    F.push_back(i);
  std::string C   = TL_VARIANTS[var];
  std::string shp = tl_shape_str(s);
  bool outer_nonempty = !s.inner.empty();
  switch (var) {
  case 0:
    tlA<std::random_access_iterator_tag, 2, VV>(C, s, F);
    break;
  case 1:
    tlA<std::random_access_iterator_tag, 2, VL>(C, s, F);
    break;
  case 2:
    tlA<std::random_access_iterator_tag, 2, LV>(C, s, F);
    break;
  case 3:
    tlA<std::random_access_iterator_tag, 2, LL>(C, s, F);
    break;
  case 4:
    tlA<std::bidirectional_iterator_tag, 1, LL>(C, s, F);
    break;
  case 5:
    tlA<std::bidirectional_iterator_tag, 1, VV>(C, s, F);
    break;
  case 6:
    tlA<std::forward_iterator_tag, 0, VV>(C, s, F);
    break;
  case 7:
    tlA<std::forward_iterator_tag, 0, FF>(C, s, F);
    break;
  case 8: {
    const VV o = tl_build<VV>(s);
    auto r     = galois::make_two_level_iterator<std::random_access_iterator_tag>(
        o.begin(), o.end());
    tl_check<2>(C, shp, r.first, r.second, F, true);
  } break;
  case 9: {
    VV o = tl_build<VV>(s);
    // operator+= asserts a non-empty outer range: keep jumps inside that
    tl_check<2>(C, shp, galois::stl_two_level_begin(o.begin(), o.end()),
                galois::stl_two_level_end(o.begin(), o.end()), F,
                outer_nonempty);
  } break;
  case 10: {
    VV o = tl_build<VV>(s);
    tl_check<2>(C, shp, galois::stl_two_level_cbegin(o.begin(), o.end()),
                galois::stl_two_level_cend(o.begin(), o.end()), F,
                outer_nonempty);
  } break;
  case 11: {
    VV o = tl_build<VV>(s);
    std::vector<int> R(F.rbegin(), F.rend());
    tl_check<2>(C, shp, galois::stl_two_level_rbegin(o.rbegin(), o.rend()),
                galois::stl_two_level_rend(o.rbegin(), o.rend()), R,
                outer_nonempty);
  } break;
  case 12: {
    LL o = tl_build<LL>(s);
    tl_check<1>(C, shp, galois::stl_two_level_begin(o.begin(), o.end()),
                galois::stl_two_level_end(o.begin(), o.end()), F, false);
  } break;
  case 13: {
    VL o = tl_build<VL>(s);
    tl_check<1>(C, shp, galois::stl_two_level_begin(o.begin(), o.end()),
                galois::stl_two_level_end(o.begin(), o.end()), F, false);
  } break;
  case 14: {
    FF o = tl_build<FF>(s);
    tl_check<0>(C, shp, galois::stl_two_level_begin(o.begin(), o.end()),
                galois::stl_two_level_end(o.begin(), o.end()), F, false);
  } break;
  }
  alarm(0);
  // non-trivial: an inner boundary is crossed (>= 2 non-empty inner
  // containers) or an empty inner container has to be skipped
  int nonempty = 0, empty = 0;
  for (auto& in : s.inner)
    (in.empty() ? empty : nonempty)++;
  if (nonempty >= 2 || (empty >= 1 && nonempty >= 1))
    sx::mark_nontrivial();
  sx::outcome(sx::hash_str(shp) + var);
}

inline std::string tl_describe(uint64_t idx, bool th) {
  return std::string(TL_VARIANTS[idx % TL_NVAR]) + " over " +
         tl_shape_str(tl_shape(idx / TL_NVAR, th));
}

// ===========================================================================
// Compile probes: public members that cannot be instantiated.  Each probe is
// a two-line program compiled with -fsyntax-only against the headers of the
// tree under test; a control program using the neighbouring, working members
// of the same headers must compile first (otherwise the probe is skipped, not
// failed: a broken toolchain is not a finding).
// ===========================================================================
struct Probe {
  const char* key;
  const char* what;
  const char* code;
};
static const Probe PROBES[] = {
    {"flat_map:upper_bound-does-not-compile",
     "flat_map::upper_bound(key) (equal_range uses it too)",
     "galois::flat_map<int,int> m; m[1]=2; auto i = m.upper_bound(1); "
     "(void)i;"},
    {"flat_map:comparison-operators-do-not-compile",
     "operator==(flat_map, flat_map)",
     "galois::flat_map<int,int> m, n; bool b = (m == n); (void)b;"},
    {"LazyArray:at-does-not-compile", "LazyArray::at(n)",
     "galois::LazyArray<int,3> a; a.emplace(0,1); int& r = a.at(0); (void)r;"},
    {"optional:converting-assignment-does-not-compile",
     "optional<long> = optional<int>",
     "galois::optional<int> a(1); galois::optional<long> b; b = a;"},
    {"TwoLevelIterator:operator-arrow-does-not-compile",
     "TwoLevelFwdIter::operator->",
     "std::vector<std::vector<S>> v(1); v[0].push_back(S{1}); auto b = "
     "galois::stl_two_level_begin(v.begin(), v.end()); int x = b->f; "
     "(void)x;"},
    {"InsertBag:const-begin-does-not-compile",
     "InsertBag::begin() const / end() const",
     "galois::InsertBag<int> bag; const galois::InsertBag<int>& cb = bag; "
     "auto i = cb.begin(); (void)i;"},
};
static const int NPROBES = 6;
static const char* const PROBE_PRELUDE =
    "#include <tuple>\n#include <vector>\n#include \"galois/FlatMap.h\"\n"
    "#include \"galois/LazyArray.h\"\n#include \"galois/optional.h\"\n"
    "#include \"galois/TwoLevelIterator.h\"\n#include \"galois/Bag.h\"\n"
    "struct S { int f; };\nint main() {\n";
static const char* const PROBE_CONTROL =
    "galois::flat_map<int,int> m; m[1]=2; auto i = m.lower_bound(1); (void)i;"
    "galois::LazyArray<int,3> a; a.emplace(0,1); int& r = a[0]; (void)r;"
    "galois::optional<int> oa(1); galois::optional<int> ob; ob = oa;"
    "std::vector<std::vector<S>> v(1); v[0].push_back(S{1}); auto b = "
    "galois::stl_two_level_begin(v.begin(), v.end()); int x = (*b).f; (void)x;"
    "galois::InsertBag<int> bag; auto bi = bag.begin(); (void)bi;";

struct ProbeRes {
  bool ok = false;
  std::string err;
};
// compile the control (index 0) and every probe concurrently, once per process
inline const std::vector<ProbeRes>& probe_all() {
  static std::vector<ProbeRes> res;
  if (!res.empty())
    return res;
  const char* repo = getenv("VERIF_REPO");
  std::string R    = repo ? repo : "/repo";
  std::string base = "/verif/build/tmp/c14-probe-" + std::to_string(getpid());
  int n            = NPROBES + 1;
  res.resize(n);
  std::vector<FILE*> pipes(n, nullptr);
  std::vector<std::string> srcs(n);
  for (int i = 0; i < n; ++i) {
    srcs[i] = base + "-" + std::to_string(i) + ".cpp";
    FILE* f = fopen(srcs[i].c_str(), "w");
    if (!f) {
      res[i].err = "cannot write " + srcs[i];
      continue;
    }
    fprintf(f, "%s%s\nreturn 0; }\n", PROBE_PRELUDE,
            i == 0 ? PROBE_CONTROL : PROBES[i - 1].code);
    fclose(f);
    std::string cmd =
        "g++ -std=c++17 -fsyntax-only -w -I/verif/build/gen/include -I" + R +
        "/libgalois/include -I" + R + "/libsupport/include " + srcs[i] +
        " 2>&1";
    pipes[i] = popen(cmd.c_str(), "r");
    if (!pipes[i])
      res[i].err = "cannot run g++";
  }
  for (int i = 0; i < n; ++i) {
    if (!pipes[i])
      continue;
    char line[800];
    while (fgets(line, sizeof line, pipes[i]))
      if (res[i].err.empty() && strstr(line, "error"))
        res[i].err = line;
    res[i].ok = pclose(pipes[i]) == 0;
    unlink(srcs[i].c_str());
    for (auto& ch : res[i].err)
      if (ch == '\n')
        ch = ' ';
  }
  return res;
}

inline void probe_run(uint64_t idx, bool) {
  const std::vector<ProbeRes>& res = probe_all();
  if (!res[0].ok) {
    fprintf(stderr, "c14: compile-probe control did not compile, probes "
                    "skipped: %s\n",
            res[0].err.c_str());
    return;
  }
  const Probe& p = PROBES[idx];
  bool ok        = res[idx + 1].ok;
  sx::mark_nontrivial(); // the control compiled, so the probe means something
  sx::outcome(idx * 2 + ok);
  if (!ok)
    sx::fail(p.key, "%s cannot be instantiated: `%s` -> %s", p.what, p.code,
             res[idx + 1].err.c_str());
}

} // namespace c14
#endif

// Shared for_each driver for C01 / C02 / C06 / C08 harnesses.
// Operator programs are data; the operator interprets them and writes a
// ledger (vf_log) that the oracles read after the loop.
#ifndef VERIF_FE_COMMON_H
#define VERIF_FE_COMMON_H

#include "gsched.h"

#include "galois/Galois.h"
#include "galois/runtime/Context.h"
#include "galois/worklists/WorkList.h"

#include <string>
#include <vector>

enum {
  K_ATTEMPT = 1, // a=item b=attempt number (1-based)
  K_COMMIT  = 2, // a=item (after the last acquire of an attempt that will commit)
  K_VABORT  = 3, // a=item: voluntary abort
  K_RETURN  = 9, // loop returned
  K_OWN     = 4, // a=item b=object: acquired
};

#define FE_MAXITEMS 80
#define FE_MAXOBJ 3

struct ItemProg {
  std::vector<int> acq;  // objects acquired, in order
  std::vector<int> pre;  // children pushed before the last acquire
  std::vector<int> post; // children pushed after the commit point
  bool vabort = false;   // ctx.abort() on first attempt (after last acquire)
  int vabort_times = 1;  // ... on the first vabort_times attempts (back-off loops)
  int prio    = 0;       // priority (OBIM) / level
  bool pause_owning = false; // spin-wait hint (asmPause) while owning everything
};

struct Program {
  std::string name;
  int ninit = 0;
  std::vector<ItemProg> items; // items [0,ninit) are initial
  bool needs_cd() const {
    for (auto& i : items)
      if (i.vabort)
        return true;
    return false;
  }
};

struct Obj : public galois::runtime::Lockable {
  int stamp  = -1; // plain: id of the iteration that owns it
  long value = 1;  // plain: non-commutative accumulator
};

struct FeState {
  const Program* prog = nullptr;
  Obj obj[FE_MAXOBJ];
  int attempts[FE_MAXITEMS];
  int prio[FE_MAXITEMS];
  bool check_stamps = false;
};
extern FeState fe;

// attempt counters are harness bookkeeping: keep them out of the engine's view
VF_NOINSTR inline int fe_next_attempt(int item) { return ++fe.attempts[item]; }

struct FeIndexer {
  unsigned operator()(int item) const { return (unsigned)fe.prio[item]; }
};

template <typename Ctx>
inline void fe_operator(int item, Ctx& ctx, bool cd) {
  const ItemProg& p = fe.prog->items[item];
  int att           = fe_next_attempt(item);
  vf_log(K_ATTEMPT, item, att);
  size_t n = p.acq.size();
  for (size_t i = 0; i + 1 < n; ++i)
    galois::runtime::acquire(&fe.obj[p.acq[i]], galois::MethodFlag::WRITE);
  for (int c : p.pre)
    ctx.push(c);
  if (n)
    galois::runtime::acquire(&fe.obj[p.acq[n - 1]], galois::MethodFlag::WRITE);
  if (cd && p.vabort && att <= p.vabort_times) {
    vf_log(K_VABORT, item, 0);
    ctx.abort();
  }
  if (p.pause_owning)
    galois::substrate::asmPause(); // a scheduling hint while holding the locks
  // ---- commit point: a cautious operator only writes from here on --------
  ctx.cautiousPoint(); // (deterministic executor: ends the inspection pass)
  vf_log(K_COMMIT, item, att);
  if (fe.check_stamps) {
    for (int o : p.acq)
      fe.obj[o].stamp = item;
    for (int o : p.acq)
      fe.obj[o].value = fe.obj[o].value * 3 + item;
  }
  for (int c : p.post)
    ctx.push(c);
  if (fe.check_stamps) {
    for (int o : p.acq)
      if (fe.obj[o].stamp != item)
        vf_note_fail("double-owner",
                     "item %d owns object %d but found stamp %d of another "
                     "iteration",
                     item, o, fe.obj[o].stamp);
  }
}

// conservation oracle (C01): every item commits exactly once, none after
// return.  Returns silently or calls vf_fail.
VF_NOINSTR inline void fe_check_conservation(const std::string& tag) {
  const Program& P = *fe.prog;
  int n            = vf_log_count();
  int commits[FE_MAXITEMS] = {0};
  int ret_at = -1;
  for (int i = 0; i < n; ++i) {
    const vf_log_entry* e = vf_log_get(i);
    if (e->kind == K_COMMIT) {
      commits[e->a]++;
      if (ret_at >= 0)
        vf_fail((tag + ":commit-after-return").c_str(),
                "item %ld committed after for_each returned", e->a);
    } else if (e->kind == K_RETURN && ret_at < 0)
      ret_at = i;
  }
  for (size_t it = 0; it < P.items.size(); ++it) {
    if (commits[it] == 0)
      vf_fail((tag + ":lost-work").c_str(),
              "program %s: item %zu (%s) never committed although the loop "
              "returned",
              P.name.c_str(), it,
              (int)it < P.ninit ? "initial" : "pushed by a committed iteration");
    if (commits[it] > 1)
      vf_fail((tag + ":duplicate-work").c_str(),
              "program %s: item %zu committed %d times", P.name.c_str(), it,
              commits[it]);
  }
}

inline void fe_reset(const Program& p) {
  fe.prog = &p;
  for (int i = 0; i < FE_MAXITEMS; ++i) {
    fe.attempts[i] = 0;
    fe.prio[i]     = i < (int)p.items.size() ? p.items[i].prio : 0;
  }
}

template <typename WL>
inline void fe_run(const Program& p, bool cd) {
  std::vector<int> init;
  for (int i = 0; i < p.ninit; ++i)
    init.push_back(i);
  if (cd) {
    galois::for_each(
        galois::iterate(init),
        [](int item, auto& ctx) { fe_operator(item, ctx, true); },
        galois::wl<WL>(), galois::loopname("fe"));
  } else {
    galois::for_each(
        galois::iterate(init),
        [](int item, auto& ctx) { fe_operator(item, ctx, false); },
        galois::wl<WL>(), galois::disable_conflict_detection(),
        galois::loopname("fe"));
  }
  vf_log(K_RETURN, 0, 0);
}

// ---- program library ------------------------------------------------------
inline std::vector<Program> fe_programs() {
  std::vector<Program> v;
  auto item = [](std::vector<int> acq, std::vector<int> pre,
                 std::vector<int> post, bool vab = false, int prio = 0) {
    ItemProg p;
    p.acq    = acq;
    p.pre    = pre;
    p.post   = post;
    p.vabort = vab;
    p.prio   = prio;
    return p;
  };
  {
    Program p;
    p.name  = "fan";
    p.ninit = 3;
    p.items = {item({0}, {}, {3}, false, 0), item({0}, {}, {4}, false, 0),
               item({0}, {}, {}, false, 0), item({1}, {}, {}, false, 1),
               item({1}, {}, {}, false, 1)};
    v.push_back(p);
  }
  {
    Program p;
    p.name  = "cross";
    p.ninit = 2;
    p.items = {item({0, 1}, {2}, {}, false, 0), item({1, 0}, {3}, {}, false, 0),
               item({}, {}, {}, false, 1), item({}, {}, {}, false, 1)};
    v.push_back(p);
  }
  {
    Program p;
    p.name  = "vabort";
    p.ninit = 2;
    p.items = {item({0}, {2}, {3}, true, 0), item({0}, {}, {}, false, 0),
               item({}, {}, {}, false, 1), item({0}, {}, {}, false, 1)};
    v.push_back(p);
  }
  {
    // one item that backs off (voluntary abort) several times while every
    // other thread is idle, then creates work: the abort/retry path must keep
    // the loop alive through several idle token rounds
    Program p;
    p.name  = "abort-many";
    p.ninit = 1;
    p.items = {item({0}, {}, {1, 2}, true, 0), item({0}, {}, {}, false, 1),
               item({}, {}, {}, false, 1)};
    p.items[0].vabort_times = 9;
    v.push_back(p);
  }
  {
    // one iteration that pushes MORE than 64 items (the push buffer's fast
    // path threshold) and then aborts once: nothing of the aborted attempt
    // may have reached the worklist
    Program p;
    p.name  = "big-push";
    p.ninit = 2;
    p.items.resize(72);
    p.items[0] = item({0}, {}, {}, true, 0);
    p.items[1] = item({0}, {}, {}, false, 0);
    for (int c = 2; c < 72; ++c) {
      p.items[0].pre.push_back(c);
      p.items[c] = item({}, {}, {}, false, 1);
    }
    v.push_back(p);
  }
  {
    Program p;
    p.name  = "chain";
    p.ninit = 1;
    p.items = {item({0}, {}, {1}, false, 0), item({0}, {}, {2}, false, 1),
               item({0}, {}, {3}, false, 2), item({0}, {}, {}, false, 3)};
    v.push_back(p);
  }
  {
    Program p;
    p.name  = "wide";
    p.ninit = 4;
    p.items = {item({0}, {}, {}, false, 0), item({1}, {}, {}, false, 0),
               item({0}, {}, {}, false, 0), item({1}, {}, {}, false, 0)};
    v.push_back(p);
  }
  {
    // both threads start with two initial items; the SECOND of each pair
    // creates two more when it commits.  A thread robbed of its first item
    // (whole-queue steal across sockets, half steal within one) goes on
    // pushing to the queue it was robbed from
    Program p;
    p.name  = "late-push";
    p.ninit = 4;
    p.items = {item({}, {}, {}, false, 0),     item({}, {}, {4, 5}, false, 0),
               item({}, {}, {}, false, 0),     item({}, {}, {6, 7}, false, 0),
               item({}, {}, {}, false, 1),     item({}, {}, {}, false, 1),
               item({}, {}, {}, false, 1),     item({}, {}, {}, false, 1)};
    v.push_back(p);
  }
  {
    // thread 0 starts with a leaf, the last thread with the head of a chain:
    // every later round holds a single item that is private to a thread other
    // than thread 0 (the one that does the per-round bookkeeping)
    Program p;
    p.name  = "side-chain";
    p.ninit = 2;
    p.items = {item({}, {}, {}, false, 0),  item({}, {}, {2}, false, 0),
               item({}, {}, {3}, false, 1), item({}, {}, {4}, false, 2),
               item({}, {}, {}, false, 3)};
    v.push_back(p);
  }
  {
    Program p;
    p.name  = "tree";
    p.ninit = 2;
    p.items = {item({}, {}, {2, 3}, false, 0), item({}, {}, {4}, false, 0),
               item({}, {}, {}, false, 1),     item({}, {}, {5}, false, 1),
               item({}, {}, {}, false, 1),     item({}, {}, {}, false, 2)};
    v.push_back(p);
  }
  return v;
}

// ---- generated program family ------------------------------------------------
// All fan-out shapes with <= 4 items (given as parent vectors; -1 = initial
// item) x every assignment of "pushed before / after the last acquire" to the
// children x three acquire patterns (everybody locks object 0; neighbours
// lock {0,1} in opposite orders; nobody locks) x voluntary abort of item 0
// on/off.  Enumerated in a fixed order, simplest first.
inline std::vector<Program> fe_generated_programs() {
  static const std::vector<std::vector<int>> shapes = {
      {-1, -1},        {-1, 0},         {-1, 0, 0},       {-1, 0, 1},
      {-1, -1, 0},     {-1, -1, 1},     {-1, 0, 0, 0},    {-1, 0, 1, 2},
      {-1, 0, 1, 1},   {-1, -1, 0, 1},  {-1, -1, 0, 2}};
  std::vector<Program> out;
  int id = 0;
  for (auto& par : shapes) {
    int n = (int)par.size(), nch = 0;
    for (int x : par)
      nch += x >= 0;
    for (int kinds = 0; kinds < (1 << nch); ++kinds)
      for (int pat = 0; pat < 3; ++pat)
        for (int vab = 0; vab < 2; ++vab) {
          if (vab && pat == 2)
            continue; // a voluntary abort needs conflict detection anyway
          Program p;
          p.items.resize(n);
          p.ninit = 0;
          int ch  = 0;
          std::vector<int> depth(n, 0);
          for (int i = 0; i < n; ++i) {
            if (par[i] < 0)
              p.ninit++;
            else {
              depth[i] = depth[par[i]] + 1;
              if ((kinds >> ch) & 1)
                p.items[par[i]].pre.push_back(i);
              else
                p.items[par[i]].post.push_back(i);
              ++ch;
            }
            p.items[i].prio = depth[i];
            if (pat == 0)
              p.items[i].acq = {0};
            else if (pat == 1)
              p.items[i].acq = (i & 1) ? std::vector<int>{1, 0}
                                       : std::vector<int>{0, 1};
          }
          // initial items must be numbered 0..ninit-1: shapes are written so
          p.items[0].vabort = vab;
          // a "pre" push needs a last acquire to be before
          bool ok = true;
          for (auto& it : p.items)
            if (!it.pre.empty() && it.acq.empty())
              ok = false;
          if (!ok)
            continue;
          p.name = "gen" + std::to_string(id++) + "(n" + std::to_string(n) +
                   ",k" + std::to_string(kinds) + ",a" + std::to_string(pat) +
                   (vab ? ",abort" : "") + ")";
          out.push_back(p);
        }
  }
  return out;
}

inline std::string fe_topo_str(const std::vector<int>& t) {
  std::string s = "[";
  for (size_t i = 0; i < t.size(); ++i)
    s += (i ? "," : "") + std::to_string(t[i]);
  return s + "]";
}
inline int fe_topo_threads(const std::vector<int>& t) {
  int n = 0;
  for (int x : t)
    n += x;
  return n;
}

#endif

// C01: for_each conserves work.  Engine E1 (gsched).  DESIGN.md 7/C01.
#include "fe_common.h"

#include <functional>
#include <map>

FeState fe;

using namespace galois::worklists;

struct FeOwner {
  unsigned operator()(int item) const {
    return (unsigned)item % galois::getActiveThreads();
  }
};

typedef std::function<void(const Program&, bool)> Runner;

template <typename WL>
static Runner R() {
  return [](const Program& p, bool cd) { fe_run<WL>(p, cd); };
}

static std::vector<std::pair<std::string, Runner>> worklists() {
  typedef PerSocketChunkFIFO<1> C1;
  std::vector<std::pair<std::string, Runner>> v;
  v.push_back({"PerSocketChunkFIFO<1>", R<PerSocketChunkFIFO<1>>()});
  v.push_back({"PerSocketChunkFIFO<2>", R<PerSocketChunkFIFO<2>>()});
  v.push_back({"PerSocketChunkLIFO<1>", R<PerSocketChunkLIFO<1>>()});
  v.push_back({"PerSocketChunkBag<1>", R<PerSocketChunkBag<1>>()});
  v.push_back({"ChunkFIFO<1>", R<ChunkFIFO<1>>()});
  v.push_back({"ChunkLIFO<2>", R<ChunkLIFO<2>>()});
  v.push_back({"PerThreadChunkFIFO<1>", R<PerThreadChunkFIFO<1>>()});
  v.push_back({"PerThreadChunkLIFO<2>", R<PerThreadChunkLIFO<2>>()});
  v.push_back({"FIFO", R<FIFO<>>()});
  v.push_back({"LIFO", R<LIFO<>>()});
  v.push_back({"GFIFO", R<GFIFO<>>()});
  v.push_back({"GLIFO", R<GLIFO<>>()});
  v.push_back({"OBIM", R<OrderedByIntegerMetric<FeIndexer, C1>>()});
  v.push_back({"OBIM-nobsp",
               R<OrderedByIntegerMetric<FeIndexer, C1>::
                     with_back_scan_prevention<false>::type>()});
  v.push_back({"OBIM-bp1",
               R<OrderedByIntegerMetric<FeIndexer, C1>::with_block_period<
                   1>::type>()});
  v.push_back({"OBIM-desc", R<OrderedByIntegerMetric<FeIndexer, C1>::
                                  with_descending<true>::type>()});
  v.push_back({"OBIM-barrier", R<OrderedByIntegerMetric<FeIndexer, C1>::
                                     with_barrier<true>::type>()});
  v.push_back({"OBIM-mono", R<OrderedByIntegerMetric<FeIndexer, C1>::
                                  with_monotonic<true>::type>()});
  v.push_back({"AdaptiveOBIM",
               R<AdaptiveOrderedByIntegerMetric<FeIndexer, C1, 0, true, false,
                                                1>>()});
  v.push_back({"BulkSynchronous", R<BulkSynchronous<C1>>()});
  v.push_back({"LocalQueue", R<LocalQueue<C1, GFIFO<int>>>()});
  v.push_back({"LocalQueue-noglobal", R<LocalQueue<>>()});
  v.push_back({"OwnerComputes", R<OwnerComputes<FeOwner, ChunkLIFO<1>>>()});
  v.push_back({"StableIterator", R<StableIterator<false>>()});
  v.push_back({"StableIterator-steal", R<StableIterator<true>>()});
  v.push_back({"Deterministic", R<Deterministic<>>()});
  return v;
}

static void fe_case(Runner run, std::string wlname, Program prog, bool cd,
                    std::vector<int> topo, int T) {
  vf_set_topology(topo.data(), (int)topo.size());
  std::string tag = "wl=" + wlname + ":cd=" + (cd ? "on" : "off");
  vf_tag(tag.c_str());
  galois::SharedMemSys G;
  galois::setActiveThreads(T);
  fe_reset(prog);
  vf_window_begin();
  run(prog, cd);
  vf_window_end();
  int n1 = vf_log_count();
  // stragglers: one more (empty) region; nothing may be logged by it
  galois::on_each([](unsigned, unsigned) {});
  int n2 = vf_log_count();
  if (n2 != n1)
    vf_fail((tag + ":work-after-return").c_str(),
            "%d ledger entries appeared after for_each returned", n2 - n1);
  fe_check_conservation(tag);
  uint64_t att = 0;
  for (int i = 0; i < 12; ++i)
    att = att * 7 + fe.attempts[i];
  vf_outcome(att);
  vf_finish();
}

int main(int argc, char** argv) {
  std::vector<VfCase> cases;
  auto wls   = worklists();
  auto progs = fe_programs();
  std::map<std::string, Program> P;
  for (auto& p : progs)
    P[p.name] = p;
  auto add = [&](const std::pair<std::string, Runner>& wl, const Program& p,
                 bool cd, std::vector<int> topo, int T, int qb, int tb,
                 int weight = 1) {
    if (!cd && p.needs_cd())
      return;
    VfCase c;
    c.name = "wl=" + wl.first + " cd=" + (cd ? "on" : "off") +
             " prog=" + p.name + " topo=" + fe_topo_str(topo) +
             " T=" + std::to_string(T);
    c.quick_bound    = qb;
    c.thorough_bound = tb;
    c.weight         = weight;
    Runner r         = wl.second;
    std::string n    = wl.first;
    c.body = [=]() { fe_case(r, n, p, cd, topo, T); };
    cases.push_back(c);
  };
  // default worklist: every topology, cd on/off, several programs
  auto& def = wls[0];
  for (bool cd : {true, false}) {
    add(def, P["fan"], cd, {1}, 1, 0, 0);
    add(def, P["fan"], cd, {2}, 2, 1, 2, 4);
    add(def, P["fan"], cd, {1, 1}, 2, 1, 2, 4);
    add(def, P["fan"], cd, {3}, 3, 1, 1, 2);
    add(def, P["fan"], cd, {2, 1}, 3, 1, 1, 2);
    add(def, P["fan"], cd, {1, 1, 1}, 3, 1, 1, 2);
    add(def, P["tree"], cd, {2}, 2, 1, 2, 4);
    add(def, P["chain"], cd, {1, 1}, 2, 1, 2, 4);
    add(def, P["wide"], cd, {1, 1, 1}, 3, -1, 1, 2);
  }
  add(def, P["cross"], true, {2}, 2, 1, 2, 4);
  add(def, P["cross"], true, {1, 1}, 2, 1, 2, 4);
  add(def, P["cross"], true, {1, 1, 1}, 3, -1, 1, 2);
  add(def, P["abort-many"], true, {2}, 2, 1, 2, 4);
  add(def, P["abort-many"], true, {1, 1}, 2, 1, 2, 4);
  add(def, P["abort-many"], true, {3}, 3, 1, 1, 2);
  add(def, P["abort-many"], true, {1, 1, 1}, 3, -1, 1, 2);
  add(def, P["big-push"], true, {2}, 2, 0, 1, 4);
  add(def, P["big-push"], true, {1, 1}, 2, -1, 1, 4);
  add(def, P["late-push"], false, {1, 1}, 2, 1, 2, 3);
  add(def, P["late-push"], false, {2}, 2, 1, 2, 3);
  add(def, P["vabort"], true, {2}, 2, 1, 2, 4);
  add(def, P["vabort"], true, {1, 1}, 2, 1, 2, 4);
  add(def, P["vabort"], true, {1, 1, 1}, 3, -1, 1, 2);
  // every other policy
  for (size_t i = 1; i < wls.size(); ++i) {
    for (bool cd : {true, false}) {
      add(wls[i], P["fan"], cd, {2}, 2, 1, 2, 3);
      // two sockets in the quick tier as well: per-socket queues, leader-only
      // cross-socket stealing and owner routing never run on one socket
      add(wls[i], P["fan"], cd, {1, 1}, 2, cd ? 1 : -1, 2, 3);
      add(wls[i], P["tree"], cd, {1, 1}, 2, -1, 1, 2);
      add(wls[i], P["fan"], cd, {2, 1}, 3, -1, 1, 2);
    }
    add(wls[i], P["cross"], true, {2}, 2, 1, 2, 3);
    add(wls[i], P["vabort"], true, {1, 1}, 2, -1, 2, 3);
    add(wls[i], P["abort-many"], true, {2}, 2, i % 4 == 1 ? 1 : -1, 1, 2);
    add(wls[i], P["chain"], true, {2}, 2, -1, 1, 2);
    add(wls[i], P["late-push"], false, {1, 1}, 2, 1, 2, 3);
    add(wls[i], P["late-push"], false, {2}, 2, -1, 2, 3);
    add(wls[i], P["side-chain"], false, {2}, 2, i % 3 == 1 ? 1 : -1, 2, 3);
  }
  // generated operator programs (see fe_generated_programs): the whole family
  // on the default worklist in the thorough tier, every 9th in the quick tier
  {
    auto gen = fe_generated_programs();
    for (size_t i = 0; i < gen.size(); ++i) {
      bool cd = gen[i].needs_cd() || !gen[i].items[0].acq.empty();
      int qb  = (i % 9 == 4) ? 1 : -1;
      add(def, gen[i], cd, (i & 1) ? std::vector<int>{1, 1} : std::vector<int>{2},
          2, qb, 1, 1);
      if (i % 5 == 0)
        add(wls[19], gen[i], cd, {2}, 2, -1, 1, 1); // BulkSynchronous
      if (i % 5 == 1)
        add(wls[12], gen[i], cd, {1, 1}, 2, -1, 1, 1); // OBIM
      if (i % 5 == 2)
        add(wls[6], gen[i], cd, {2}, 2, -1, 1, 1); // PerThreadChunkFIFO
      if (i % 5 == 3)
        add(wls[25], gen[i], cd, {2}, 2, -1, 1, 1); // Deterministic
    }
  }
  return vf_main(argc, argv, "C01", cases);
}

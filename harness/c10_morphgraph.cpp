// C10 (concurrent half): morph-graph mutation from inside for_each is
// serialisable and structurally consistent.  Engine E1 (gsched).
// Oracle: final structural dump == the SAME implementation replaying the
// committed mutation programs serially in commit-log order on a fresh graph.
// DESIGN.md 7/C10.
#include "gsched.h"

#include "galois/Galois.h"
#include "galois/graphs/MorphGraph.h"

#include <algorithm>
#include <map>
#include <sstream>
#include <string>
#include <vector>

enum { K_COMMIT = 2, K_ATTEMPT = 1 };

enum OpK {
  ADD_EDGE,
  ADD_MULTI,
  REMOVE_EDGE,
  REMOVE_NODE,
  UPDATE_DATA,
  ADD_NODE,
  ADD_EDGE_BARE // addEdge with NOTHING acquired beforehand (no containsNode guard)
};
struct Op {
  OpK k;
  int u, v; // node indices (0..2 pre-existing, 3.. created by ADD_NODE)
  int val;
};
struct MProg {
  std::string name;
  std::vector<std::vector<Op>> items; // one mutation program per iteration
};

static std::string g_tag;
static int attempts[8];
VF_NOINSTR static int next_attempt(int i) { return ++attempts[i]; }

template <typename G>
struct World {
  typedef typename G::GraphNode GNode;
  G g;
  std::vector<GNode> nodes; // index -> node (created up-front, maybe inactive)
  explicit World(int extra) {
    for (int i = 0; i < 3 + extra; ++i) {
      GNode n = g.createNode(i);
      nodes.push_back(n);
      if (i < 3)
        g.addNode(n, galois::MethodFlag::UNPROTECTED);
    }
  }

  // acquire the whole neighbourhood first (cautious operator)
  void acquire_all(const std::vector<Op>& prog) {
    for (const Op& o : prog) {
      g.getData(nodes[o.u]);
      if (o.k != REMOVE_NODE && o.k != ADD_NODE)
        g.getData(nodes[o.v]);
      if (o.k == REMOVE_NODE)
        for (auto e : g.edges(nodes[o.u]))
          (void)e; // edges(n) with the default flag acquires the neighbours
    }
  }

  void apply(const std::vector<Op>& prog, int item) {
    for (const Op& o : prog) {
      GNode u = nodes[o.u];
      GNode v = nodes[o.v];
      switch (o.k) {
      case ADD_NODE:
        g.addNode(u);
        break;
      case ADD_EDGE:
        if (g.containsNode(u) && g.containsNode(v)) {
          auto e = g.addEdge(u, v);
          // addEdge reuses an existing edge: only a NEW edge gets the value
          if (g.getEdgeData(e) == 0)
            g.getEdgeData(e) = o.val;
        }
        break;
      case ADD_EDGE_BARE: {
        auto e = g.addEdge(u, v);
        if (g.getEdgeData(e) == 0)
          g.getEdgeData(e) = o.val;
        break;
      }
      case ADD_MULTI:
        if (g.containsNode(u) && g.containsNode(v))
          g.addMultiEdge(u, v, galois::MethodFlag::WRITE, o.val);
        break;
      case REMOVE_EDGE:
        if (g.containsNode(u) && g.containsNode(v)) {
          auto e = g.findEdge(u, v);
          if (e != g.edge_end(u))
            g.removeEdge(u, e);
        }
        break;
      case REMOVE_NODE:
        g.removeNode(u);
        break;
      case UPDATE_DATA:
        if (g.containsNode(u) && g.containsNode(v)) {
          auto e = g.findEdge(u, v);
          if (e != g.edge_end(u))
            g.getEdgeData(e) = g.getEdgeData(e) * 3 + item + 1;
        }
        break;
      }
    }
  }

  // structural dump through the public iteration API only
  std::string dump() {
    std::ostringstream o;
    std::map<GNode, int> id;
    for (size_t i = 0; i < nodes.size(); ++i)
      id[nodes[i]] = (int)i;
    std::vector<int> present;
    for (auto n : g) // iteration over nodes: each live one exactly once
      present.push_back(id.count(n) ? id[n] : -1);
    std::sort(present.begin(), present.end());
    o << "nodes:";
    for (int p : present)
      o << p << ",";
    for (size_t i = 0; i < nodes.size(); ++i) {
      if (!g.containsNode(nodes[i], galois::MethodFlag::UNPROTECTED))
        continue;
      std::vector<std::pair<int, int>> es;
      for (auto e : g.edges(nodes[i], galois::MethodFlag::UNPROTECTED))
        es.push_back({id[g.getEdgeDst(e)], g.getEdgeData(e)});
      std::sort(es.begin(), es.end());
      o << " | " << i << "->";
      for (auto& p : es)
        o << p.first << ":" << p.second << ",";
    }
    return o.str();
  }
};

// structural invariants beyond the dump
template <typename G, bool Undirected, bool InOut, bool Sorted>
static void invariants(World<G>& w) {
  auto& g = w.g;
  std::map<typename G::GraphNode, int> id;
  for (size_t i = 0; i < w.nodes.size(); ++i)
    id[w.nodes[i]] = (int)i;
  for (size_t i = 0; i < w.nodes.size(); ++i) {
    auto n = w.nodes[i];
    if (!g.containsNode(n, galois::MethodFlag::UNPROTECTED))
      continue;
    typename G::GraphNode prev = nullptr;
    bool first = true;
    for (auto e : g.edges(n, galois::MethodFlag::UNPROTECTED)) {
      auto d = g.getEdgeDst(e);
      if (!g.containsNode(d, galois::MethodFlag::UNPROTECTED))
        vf_fail((g_tag + ":edge-to-removed-node").c_str(),
                "node %zu has an edge to removed node %d", i, id[d]);
      if (Sorted && !first && d < prev)
        vf_fail((g_tag + ":neighbours-not-sorted").c_str(),
                "node %zu: neighbour list out of order", i);
      prev  = d;
      first = false;
      if (Undirected) {
        // parallel edges are allowed (addMultiEdge): the multiset of data on
        // the entries n->d must equal the multiset on the entries d->n
        std::vector<int> fwd, rev;
        for (auto e2 : g.edges(n, galois::MethodFlag::UNPROTECTED))
          if (g.getEdgeDst(e2) == d)
            fwd.push_back((int)g.getEdgeData(e2));
        for (auto e2 : g.edges(d, galois::MethodFlag::UNPROTECTED))
          if (g.getEdgeDst(e2) == n)
            rev.push_back((int)g.getEdgeData(e2));
        std::sort(fwd.begin(), fwd.end());
        std::sort(rev.begin(), rev.end());
        if (rev.empty())
          vf_fail((g_tag + ":reverse-entry-missing").c_str(),
                  "undirected edge %zu-%d has no reverse entry", i, id[d]);
        if (n != d && fwd != rev)
          vf_fail((g_tag + ":reverse-entry-data-differs").c_str(),
                  "edge %zu-%d: %zu entries / %zu reverse entries, first data "
                  "%d vs %d",
                  i, id[d], fwd.size(), rev.size(), fwd[0], rev[0]);
      }
    }
  }
}

template <typename G, bool Undirected, bool InOut, bool Sorted>
static void mg_case(std::string flavour, MProg prog, std::vector<int> topo,
                    int T) {
  vf_set_topology(topo.data(), (int)topo.size());
  g_tag = "morph=" + flavour;
  vf_tag(g_tag.c_str());
  galois::SharedMemSys GS;
  galois::setActiveThreads(T);
  int extra = 0;
  for (auto& it : prog.items)
    for (auto& o : it)
      if (o.k == ADD_NODE)
        extra = std::max(extra, o.u - 2);
  World<G>* w = new World<G>(extra);
  std::vector<int> init;
  for (size_t i = 0; i < prog.items.size(); ++i)
    init.push_back((int)i);
  vf_window_begin();
  galois::for_each(
      galois::iterate(init),
      [&](int item, auto& ctx) {
        int att = next_attempt(item);
        vf_log(K_ATTEMPT, item, att);
        if (prog.items[item].size() == 1) {
          // a single graph call is cautious BY ITSELF (the method acquires
          // what it needs before it writes -- that is the library's promise
          // under the default flags): no pre-acquisition, so a conflict can
          // strike INSIDE the method; the iteration holds its locks until it
          // returns, so the completion order is a valid serial order
          w->apply(prog.items[item], item);
          vf_log(K_COMMIT, item, att);
        } else {
          w->acquire_all(prog.items[item]);
          vf_log(K_COMMIT, item, att);
          w->apply(prog.items[item], item);
        }
      },
      galois::no_pushes(),
      galois::wl<galois::worklists::PerSocketChunkFIFO<1>>(),
      galois::loopname("morph"));
  vf_window_end();
  // serial replay on a fresh graph, same implementation, commit-log order
  World<G>* ref = new World<G>(extra);
  galois::setActiveThreads(1);
  int ncommit = 0;
  for (int i = 0; i < vf_log_count(); ++i) {
    const vf_log_entry* e = vf_log_get(i);
    if (e->kind != K_COMMIT)
      continue;
    ref->apply(prog.items[e->a], (int)e->a);
    ncommit++;
  }
  if (ncommit != (int)prog.items.size())
    vf_fail((g_tag + ":iteration-count").c_str(), "%d commits for %zu items",
            ncommit, prog.items.size());
  std::string got = w->dump(), want = ref->dump();
  if (got != want)
    vf_fail((g_tag + ":not-serialisable").c_str(),
            "program %s: graph is [%s] but the serial replay in commit order "
            "gives [%s]",
            prog.name.c_str(), got.c_str(), want.c_str());
  invariants<G, Undirected, InOut, Sorted>(*w);
  uint64_t h = 1469598103934665603ull;
  for (unsigned char c : got)
    h = (h ^ c) * 1099511628211ull;
  vf_outcome(h);
  vf_finish();
}

static std::vector<MProg> programs() {
  std::vector<MProg> v;
  v.push_back({"dup-edge", {{{ADD_EDGE, 0, 1, 10}},
                            {{ADD_EDGE, 1, 0, 20}},
                            {{ADD_EDGE, 0, 1, 30}, {UPDATE_DATA, 0, 1, 0}}}});
  v.push_back({"add-remove", {{{ADD_EDGE, 0, 1, 10}, {ADD_EDGE, 1, 2, 11}},
                              {{REMOVE_EDGE, 0, 1, 0}},
                              {{ADD_MULTI, 1, 2, 12}, {UPDATE_DATA, 1, 2, 0}}}});
  v.push_back({"remove-node", {{{ADD_EDGE, 0, 1, 10}, {ADD_EDGE, 2, 1, 11}},
                               {{REMOVE_NODE, 1, 1, 0}},
                               {{ADD_EDGE, 1, 2, 12}, {ADD_EDGE, 0, 2, 13}}}});
  // single-call iterations: conflicts strike inside the graph method
  v.push_back({"single-calls", {{{ADD_EDGE_BARE, 0, 1, 10}},
                                {{ADD_EDGE_BARE, 1, 0, 20}},
                                {{ADD_EDGE_BARE, 1, 2, 30}},
                                {{ADD_EDGE_BARE, 2, 0, 40}}}});
  v.push_back({"single-remove", {{{ADD_EDGE, 0, 1, 10}, {ADD_EDGE, 2, 1, 11}},
                                 {{REMOVE_EDGE, 0, 1, 0}},
                                 {{ADD_EDGE, 1, 2, 12}},
                                 {{UPDATE_DATA, 2, 1, 0}}}});
  v.push_back({"grow", {{{ADD_NODE, 3, 3, 0}, {ADD_EDGE, 3, 0, 5}},
                        {{ADD_EDGE, 0, 3, 6}, {UPDATE_DATA, 0, 3, 0}},
                        {{REMOVE_NODE, 0, 0, 0}}}});
  return v;
}

typedef galois::graphs::MorphGraph<int, int, true> GDir;
typedef galois::graphs::MorphGraph<int, int, true, true> GInOut;
typedef galois::graphs::MorphGraph<int, int, false> GUndir;
typedef galois::graphs::MorphGraph<int, int, true, false, false, true> GSorted;
typedef galois::graphs::MorphGraph<int, int, false, false, false, true> GUSorted;

int main(int argc, char** argv) {
  std::vector<VfCase> cases;
  auto progs = programs();
  auto add = [&](std::string fl, std::function<void()> body, std::string pn,
                 std::string topo, int T, int qb, int tb, int w) {
    VfCase c;
    c.name = "morph=" + fl + " prog=" + pn + " topo=" + topo +
             " T=" + std::to_string(T);
    c.quick_bound    = qb;
    c.thorough_bound = tb;
    c.weight         = w;
    c.body           = body;
    cases.push_back(c);
  };
  for (size_t pi = 0; pi < progs.size(); ++pi) {
    MProg p = progs[pi];
    int q   = pi < 3 ? 1 : -1;
#define FL(NAME, G, U, IO, S)                                                  \
  add(NAME, [=]() { mg_case<G, U, IO, S>(NAME, p, {2}, 2); }, p.name, "[2]",   \
      2, (std::string(NAME) == "undirected" || q == 1) ? 1 : -1, 2, 4);        \
  add(NAME, [=]() { mg_case<G, U, IO, S>(NAME, p, {1, 1}, 2); }, p.name,       \
      "[1,1]", 2, -1, 1, 2);                                                   \
  add(NAME, [=]() { mg_case<G, U, IO, S>(NAME, p, {2, 1}, 3); }, p.name,       \
      "[2,1]", 3, -1, 1, 3);
    FL("directed", GDir, false, false, false)
    FL("directed-inout", GInOut, false, true, false)
    FL("undirected", GUndir, true, false, false)
    FL("directed-sorted", GSorted, false, false, true)
    FL("undirected-sorted", GUSorted, true, false, true)
  }
  return vf_main(argc, argv, "C10", cases);
}
